(* C10 -- Reported name usage is exact and parsing is independent of parse history

   Statement: Parsing an expression reports exactly the sets of variable names, function names and number
   suffixes that occur in it: none missing, none spurious, functions and variables never confused, for every
   expression the grammar accepts. The outcome for a string (reported names, value when evaluated, or the
   error raised) is the same whether or not that string or any other string, valid or invalid, was parsed or
   evaluated before.

   Models: Model/ParserStateCb.v (the grammar of Model/Parser.v with its three parse actions, recording every
   callback that fires, also inside abandoned alternatives and repetition bodies) and Model/ParserState.v
   (MathParser as a state machine: cache, heap of shared set objects, scratch cell, reset on every exit;
   parse() and evaluator() as calls on the shared state).  [junk] is whatever pyparsing recorded while
   failing on a string beyond what the token-level model computes; [engine] says on which strings the
   parsing engine itself gives up with a non-parse exception (RecursionError on deep nesting), which then
   escapes untranslated; every theorem holds for all junk and all engine.
   [faithful] is the policy of the code as it is.  Tie to the code: harness/props/c10.py (correspondence of
   outcomes, cache keys and scratch state after every call of every history; fresh-vs-shared oracle). *)
From Coq Require Import ZArith QArith List Bool Permutation.
From Verif.Model Require Import Result Lexer Parser Eval EvalSpec ParserStateCb ParserState.
From Verif.Proofs Require Import ParserRoundTrip LexerPrint RenderString ParserStateCb ParserState ParserStateBr ParserStateNames
                                 ParserStateTok ParserStateEx.
Import ListNotations.

(* ---------- exactness of the reported names ---------- *)

(* For every token stream the grammar accepts: the names recorded by all callbacks that fired during the
   parse -- including those inside a function alternative or a repetition body that was abandoned -- are,
   with multiplicity, exactly the variable / function / suffix occurrences of the accepted tree. *)
Theorem C10_callbacks_record_exactly_the_tree : forall ts t log,
  cb_parse_tokens ts = (Some t, log) ->
  Permutation (n_vars log) (vars_of t) /\ Permutation (n_funcs log) (funcs_of t) /\
  Permutation (n_sufs log) (suffixes_of t).
Proof. exact cb_exact. Qed.

(* the callback parser builds the same tree as Model/Parser.v (the model C03 proves correct) *)
Theorem C10_callback_parser_tree : forall ts, fst (cb_parse_tokens ts) = parse_tokens ts.
Proof. exact cb_tree. Qed.

(* For every string the grammar accepts, after any history of calls on the shared parser: the reported
   collections are exactly the occurrences in the tree. *)
Theorem C10_reported_names_exact : forall junk engine ops s t,
  engine (strip_spaces s) = false ->
  parse_formula s = PTree t ->
  exists l, snd (step junk engine faithful (run junk engine faithful init ops) (OParse s)) = VP (VTree t l) /\
            nperm l (names_of t).
Proof. exact reported_names_exact. Qed.

(* The flat tree of a derivation (binary syntax of Model/EvalSpec.v) has exactly the derivation's
   occurrences, role by role and in order. *)
Theorem C10_names_of_derivation : forall e, names_of (flatten e) = enames e.
Proof. exact names_flatten. Qed.

(* names_exact: every string whose token stream is the rendering of a derivation e -- whatever names it
   uses (prefixes of one another, the same name as function and variable, primes, indices, suffix letters)
   -- parsed after any history, reports x as a variable iff x occurs as a variable in e, as a function iff it
   occurs as a function head, as a suffix iff it occurs as a number suffix. *)
Theorem C10_names_exact : forall junk engine ops s e,
  engine (strip_spaces s) = false ->
  wf_expr e = true ->
  lex (strip_spaces s) = Some (render e) ->
  exists l, snd (step junk engine faithful (run junk engine faithful init ops) (OParse s)) = VP (VTree (flatten e) l) /\
            forall x, (In x (n_vars l) <-> In x (evars e)) /\
                      (In x (n_funcs l) <-> In x (efuncs e)) /\
                      (In x (n_sufs l) <-> In x (esufs e)).
Proof. exact names_exact_membership. Qed.

(* with multiplicities *)
Theorem C10_names_exact_multiset : forall junk engine ops s e,
  engine (strip_spaces s) = false ->
  wf_expr e = true ->
  lex (strip_spaces s) = Some (render e) ->
  exists l, snd (step junk engine faithful (run junk engine faithful init ops) (OParse s)) = VP (VTree (flatten e) l) /\
            nperm l (enames e).
Proof. exact names_exact_string. Qed.

(* Exactness stated on the input itself, for EVERY token stream the grammar accepts: the names of the accepted
   tree, in order of occurrence, are what a lexical scan of the input finds -- a name token directly followed
   by '(' is a function, every other name token a variable, every numeral's suffix a suffix. *)
Theorem C10_names_are_the_tokens_of_the_input : forall ts t,
  parse_tokens ts = Some t -> scan_names ts = names_of t.
Proof. exact token_names. Qed.

Theorem C10_callbacks_record_exactly_the_input_tokens : forall ts t log,
  cb_parse_tokens ts = (Some t, log) -> nperm log (scan_names ts).
Proof. exact cb_exact_tokens. Qed.

(* ... on the shared parser, after any history, for every accepted string *)
Theorem C10_reported_names_are_the_tokens : forall junk engine ops s ts t,
  engine (strip_spaces s) = false ->
  check_brackets (strip_spaces s) = None -> lex (strip_spaces s) = Some ts -> parse_tokens ts = Some t ->
  exists l, snd (step junk engine faithful (run junk engine faithful init ops) (OParse s)) = VP (VTree t l) /\
            nperm l (scan_names ts).
Proof. exact reported_names_are_the_tokens. Qed.

(* names_exact for explicit renderings: canonical tokens of a derivation, arbitrary TAB / LF / CR runs before,
   between and after them, spaces anywhere (tokens valid in the sense of C03's lexer round trip, which leaves
   out suffixes beginning with e / E -- C10_names_exact covers those through its lexing hypothesis) *)
Theorem C10_names_exact_rendering : forall junk engine ops e seps s,
  engine (strip_spaces s) = false ->
  wf_expr e = true -> Forall valid_token (render e) -> Forall (fun w => forallb is_ws w = true) seps ->
  strip_spaces s = spaced seps (render e) ->
  exists l, snd (step junk engine faithful (run junk engine faithful init ops) (OParse s)) = VP (VTree (flatten e) l) /\
            nperm l (enames e).
Proof. exact names_exact_rendering. Qed.

(* the bracket pre-pass (on characters) never rejects a string that lexes to the token text of a tree *)
Theorem C10_brackets_accept_token_text : forall k t, lex k = Some (print t) -> check_brackets k = None.
Proof. exact brackets_of_print. Qed.

(* ---------- history independence ---------- *)

Theorem C10_inv_init : forall engine, Inv engine init.
Proof. exact inv_init. Qed.

(* one call of any kind -- successful, malformed, cached, evaluating -- preserves the invariant, alters no
   collection that existed before, and shows the caller the stateless description of that call *)
Theorem C10_inv_step : forall junk engine st o, Inv engine st ->
  let (st', v) := step junk engine faithful st o in Inv engine st' /\ frame st st' /\ v = spec_view engine o.
Proof. exact step_spec. Qed.

(* The outcome of a call (tree and reported names, value and metadata, or the error with the string it
   quotes) after ANY history of parse / evaluate calls, valid and invalid strings interleaved, is the
   outcome of that call on a freshly constructed parser. *)
Theorem C10_history_independent : forall junk engine ops o,
  snd (step junk engine faithful (run junk engine faithful init ops) o) = snd (step junk engine faithful init o).
Proof. exact history_independent. Qed.

(* the same for every call inside a continuation of a history *)
Theorem C10_trace_history_independent : forall junk engine before ops,
  trace junk engine faithful (run junk engine faithful init before) ops = trace junk engine faithful init ops.
Proof. exact trace_history_independent. Qed.

(* and the outcome does not depend on the unknown callbacks of failed parses either *)
Theorem C10_outcome_is_stateless : forall junk engine ops st, Inv engine st ->
  trace junk engine faithful st ops = map (spec_view engine) ops.
Proof. exact trace_spec. Qed.

(* A MathExpression handed out by parse() -- from the cache or not -- keeps reporting the same collections
   whatever is parsed or evaluated later. *)
Theorem C10_returned_object_stable : forall junk engine before s later,
  let st1 := fst (parse_op junk engine faithful (run junk engine faithful init before) s) in
  match snd (parse_op junk engine faithful (run junk engine faithful init before) s) with
  | inl p => VTree (p_tree p) (cell st1 (p_ref p)) = spec_parse engine s /\
             cell (run junk engine faithful st1 later) (p_ref p) = cell st1 (p_ref p)
  | inr _ => True
  end.
Proof. exact returned_object_stable. Qed.

(* ---------- link to C03's model ---------- *)

(* the stateless description is Model/Parser.v's parse_formula, errors quoting the call's own string *)
Theorem C10_spec_is_parse_formula : forall engine s, engine (strip_spaces s) = false ->
  match spec_parse engine s, parse_formula s with
  | VTree t l, PTree t' => t = t' /\ nperm l (names_of t)
  | VErr (EUnbal e k), PUnbalanced e' => e = e' /\ k = strip_spaces s
  | VErr (EUnparse q), PUnparsable => q = s
  | _, _ => False
  end.
Proof. exact spec_parse_formula. Qed.

(* where the engine gives up (balanced brackets, nesting too deep for it) its exception escapes as it is *)
Theorem C10_engine_failure_escapes : forall engine s,
  check_brackets (strip_spaces s) = None -> engine (strip_spaces s) = true -> spec_parse engine s = VErr EEngine.
Proof. exact spec_parse_engine. Qed.

(* evaluator() through the shared parser, after any history, is Model/Eval.v's evaluator *)
Theorem C10_evaluate_is_evaluator : forall engine E m f,
  (forall s, f = Some s -> engine (strip_spaces (py_strip s)) = false) ->
  eview_outcome (spec_eval engine E m f) = evaluator E m f.
Proof. exact spec_eval_evaluator. Qed.

(* ---------- examples ---------- *)

(* three malformed strings and one on which the engine gives up (callbacks fire for x and f inside "f(x,)",
   junk is recorded), then valid ones, with an evaluation of the engine-failing string in between *)
Example C10_ex_history :
  trace junk_q engine_deep faithful init history =
  [ VP (VErr (EUnparse s_bad_args)); VP (VErr (EUnparse s_bad_tail));
    VP (VErr (EUnbal OpenWithoutClose s_bad_open)); VP (VErr EEngine);
    VP (VTree (Var [121%Z]) (mkNames [[121%Z]] [] []));
    VP (VTree (Var [121%Z]) (mkNames [[121%Z]] [] []));
    VE (EvPErr EEngine);
    VE (EvVal (VS (mkC 6000 0)) (mkNames [[121%Z]] [] [[107%Z]]) 0);
    VP (VTree (Prod (Num [50%Z] (Some [107%Z])) [(OpMul, Var [121%Z])]) (mkNames [[121%Z]] [] [[107%Z]]));
    VE (EvErr EUndefVar) ].
Proof. exact ex_history_trace. Qed.

Example C10_ex_junk_was_recorded_and_abandoned :
  cell (run junk_q engine_deep faithful init history) 0 = mkNames [[120%Z]; [102%Z]; [113%Z]] [[113%Z]] [[113%Z]] /\
  scratch (run junk_q engine_deep faithful init history) = no_names /\
  map fst (cache (run junk_q engine_deep faithful init history)) = [s_y; s_ky; s_xf].
Proof. exact ex_history_heap. Qed.

(* the theorems need the mechanisms: resetting only after success makes "y" history dependent ... *)
Example C10_ex_without_finally_history_dependent :
  snd (step junk_q engine_deep no_finally (run junk_q engine_deep no_finally init [OParse s_bad_args]) (OParse s_y))
    = VP (VTree (Var [121%Z]) (mkNames [[120%Z]; [102%Z]; [113%Z]; [121%Z]] [[113%Z]] [[113%Z]])) /\
  snd (step junk_q engine_deep no_finally init (OParse s_y)) = VP (VTree (Var [121%Z]) (mkNames [[121%Z]] [] [])).
Proof. exact ex_without_finally. Qed.

(* ... resetting after parse-class errors only lets an engine failure leak into the next uncached string
   (first two equations), which `finally` prevents (third) ... *)
Example C10_ex_reset_on_parse_errors_only_leaks :
  snd (step junk_q engine_deep parse_errors_only (run junk_q engine_deep parse_errors_only init [OParse s_deep]) (OParse s_y))
    = VP (VTree (Var [121%Z]) (mkNames [[113%Z]; [121%Z]] [[113%Z]] [[113%Z]])) /\
  snd (step junk_q engine_deep parse_errors_only init (OParse s_y)) = VP (VTree (Var [121%Z]) (mkNames [[121%Z]] [] [])) /\
  snd (step junk_q engine_deep faithful (run junk_q engine_deep faithful init [OParse s_deep]) (OParse s_y))
    = VP (VTree (Var [121%Z]) (mkNames [[121%Z]] [] [])).
Proof. exact ex_engine_failure_leaks. Qed.

(* ... and clearing the collections instead of replacing them empties the returned object's own names *)
Example C10_ex_with_clear_nothing_reported :
  snd (step junk_q engine_deep clearing init (OParse s_y)) = VP (VTree (Var [121%Z]) no_names).
Proof. exact ex_with_clear. Qed.

(* x(f)+2k*x : x is a function head and a variable, f only a variable, k a suffix *)
Example C10_ex_names_hypotheses_satisfiable :
  wf_expr e_xf = true /\ lex (strip_spaces s_xf) = Some (render e_xf) /\
  enames e_xf = mkNames [[102%Z]; [120%Z]] [[120%Z]] [[107%Z]].
Proof. exact ex_names_hyps. Qed.

Example C10_ex_names_after_history : exists l,
  snd (step junk_q engine_deep faithful (run junk_q engine_deep faithful init history) (OParse s_xf)) = VP (VTree (flatten e_xf) l) /\
  nperm l (mkNames [[102%Z]; [120%Z]] [[120%Z]] [[107%Z]]).
Proof. exact ex_names_after_history. Qed.

(* " x( f)<TAB>+2k *<LF>x " is a rendering of the same derivation: hypotheses of C10_names_exact_rendering hold *)
Example C10_ex_rendering_hypotheses_satisfiable :
  wf_expr e_xf = true /\ Forall valid_token (render e_xf) /\
  Forall (fun w => forallb is_ws w = true) seps_xf /\ strip_spaces s_xf_ws = spaced seps_xf (render e_xf).
Proof. exact ex_rendering_hyps. Qed.

Example C10_ex_rendering_names_after_history : exists l,
  snd (step junk_q engine_deep faithful (run junk_q engine_deep faithful init history) (OParse s_xf_ws)) = VP (VTree (flatten e_xf) l) /\
  nperm l (mkNames [[102%Z]; [120%Z]] [[120%Z]] [[107%Z]]).
Proof. exact ex_rendering_names. Qed.

Example C10_ex_scan : scan_names (render e_xf) = mkNames [[102%Z]; [120%Z]] [[120%Z]] [[107%Z]].
Proof. exact ex_scan. Qed.
