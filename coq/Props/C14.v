(* Props/C14.v -- Array arithmetic follows strict linear-algebra shape rules and values.
   Only statements, `exact lemma`, Examples.  Model: Model/MathArray.v (MathArray operator dispatch and the array
   actions of expressions.py), specification: Model/MathArraySpec.v (la_shape, la_value: what ordinary linear algebra
   prescribes, written independently of the dispatch).  The model is tied to the code by differential
   correspondence (harness/props/c14.py); np.linalg.matrix_rank, np.linalg.inv and Python's scalar ** are oracles (function arguments).

   Quantifier: `proper` operands = plain numbers and arrays with more than one element (any number of axes, any
   lengths, Gaussian-rational entries, dtype kind int/float/complex); every theorem below holds for all of them. *)
From Coq Require Import ZArith QArith List Bool Arith.
From Verif.Model Require Import MathArray MathArraySpec.
From Verif.Proofs Require Import MathArray.
Import ListNotations.
Open Scope Q_scope.

(* ---------------------------------------------------------------------------------------------------------
   The property, first sentence: an operator either returns the value linear algebra gives or raises a
   student-facing error; it never returns a differently shaped result. *)

(* whenever +, -, *, / or ^ returns (direct, reflected or in-place form), the result is the value ordinary linear
   algebra gives: elementwise sum/difference of equal shapes (zero scalar = additive identity), scalar scaling,
   dot, matrix-vector, vector-matrix, matrix-matrix product, division by a scalar, M^k by repeated multiplication,
   M^-k as the k-th power of the inverse and only while negative powers are enabled *)
Theorem C14_operator_result_is_linear_algebra : forall negpow rk inv spow op a b r,
  proper a -> proper b -> py_binop negpow rk inv spow op a b = Ret r -> la_value negpow rk inv spow op a b r.
Proof. exact operator_sound. Qed.

(* ... in particular its shape is the one the strict shape rules prescribe: no silent broadcasting *)
Theorem C14_no_silent_broadcast : forall negpow rk inv spow op a b r,
  proper a -> proper b -> is_arr a \/ is_arr b -> py_binop negpow rk inv spow op a b = Ret r ->
  la_shape negpow op a b = Some (vshape r).
Proof. exact no_silent_broadcast. Qed.

(* where the shape rules define no result, the operator raises a student-facing error *)
Theorem C14_undefined_operation_is_student_error : forall negpow rk inv spow op a b,
  proper a -> proper b -> la_shape negpow op a b = None ->
  is_student_error (py_binop negpow rk inv spow op a b).
Proof. exact undefined_is_error. Qed.

(* where they define one, the operator returns (so the two theorems above are not vacuous); the only other outcomes
   are division by the zero scalar and a matrix that the rank test or np.linalg.inv refuses *)
Theorem C14_defined_operation_returns : forall negpow rk inv spow op a b s,
  proper a -> proper b -> is_arr a \/ is_arr b -> la_shape negpow op a b = Some s ->
  (exists r, py_binop negpow rk inv spow op a b = Ret r) \/
  (op = Div /\ is_number_zero b = true /\ py_binop negpow rk inv spow op a b = Raise EZeroDiv) \/
  (op = Pow /\ py_binop negpow rk inv spow op a b = Raise ESingular).
Proof. exact defined_returns. Qed.

(* results stay inside the quantifier, so the statements compose along chains *)
Theorem C14_results_stay_in_scope : forall negpow rk inv spow op a b r,
  proper a -> proper b -> is_arr a \/ is_arr b -> py_binop negpow rk inv spow op a b = Ret r -> proper r.
Proof. exact proper_closed. Qed.

(* in-place and reflected forms *)
Theorem C14_inplace_is_plain : forall negpow rk inv spow op a b,
  py_inplace negpow rk inv spow op a b = py_binop negpow rk inv spow op a b.
Proof. exact inplace_is_plain. Qed.
Theorem C14_radd_is_add : forall negpow rk inv spow ks c ka sh d,
  py_binop negpow rk inv spow Add (Num ks c) (Arr ka sh d) = py_binop negpow rk inv spow Add (Arr ka sh d) (Num ks c).
Proof. exact radd_is_add. Qed.

(* single-element arrays are outside the property's quantifier; as right operand of *, / and ^ they act as the number they hold *)
Theorem C14_numberlike_acts_as_scalar : forall negpow rk inv spow op ks shs ds ko sho d2,
  op = Mul \/ op = Div \/ op = Pow ->
  proper (Arr ks shs ds) -> sprod sho = 1%nat ->
  py_binop negpow rk inv spow op (Arr ks shs ds) (Arr ko sho d2)
  = py_binop negpow rk inv spow op (Arr ks shs ds) (Num ko (item d2)).
Proof. exact numberlike_acts_as_scalar. Qed.

(* the kernels named by la_value are the textbook definitions, entry by entry *)
Theorem C14_elementwise_entry : forall (f : C -> C -> C) l1 l2 i, (i < length l1)%nat -> (i < length l2)%nat ->
  nth i (map2 f l1 l2) c0 = f (nth i l1 c0) (nth i l2 c0).
Proof. exact elementwise_entry. Qed.
Theorem C14_matrix_vector_entry : forall m n a v i, (i < m)%nat ->
  ent (matvec m n a v) i = sigma n (fun l => cmul (ent a (i * n + l)) (ent v l)).
Proof. exact matvec_entry. Qed.
Theorem C14_vector_matrix_entry : forall n q v b j, (j < q)%nat ->
  ent (vecmat n q v b) j = sigma n (fun l => cmul (ent v l) (ent b (l * q + j))).
Proof. exact vecmat_entry. Qed.
Theorem C14_matrix_matrix_entry : forall m n q a b i j, (i < m)%nat -> (j < q)%nat ->
  ent (matmat m n q a b) (i * q + j) = sigma n (fun l => cmul (ent a (i * n + l)) (ent b (l * q + j))).
Proof. exact matmat_entry. Qed.
Theorem C14_identity_entry : forall n i j, (i < n)%nat -> (j < n)%nat ->
  ent (identity n) (i * n + j) = if Nat.eqb i j then c1 else c0.
Proof. exact identity_entry. Qed.
Theorem C14_power_unfolds : forall n d k, mpow n d 0 = identity n /\ mpow n d (S k) = matmat n n n d (mpow n d k).
Proof. exact power_unfolds. Qed.

(* ---------------------------------------------------------------------------------------------------------
   Second sentence: the operations that are always errors. *)
Theorem C14_nonzero_scalar_plus_array_error : forall negpow rk inv spow op ks c a,
  addsub op -> proper a -> is_arr a -> cis_zero c = false ->
  is_student_error (py_binop negpow rk inv spow op (Num ks c) a) /\
  is_student_error (py_binop negpow rk inv spow op a (Num ks c)).
Proof. exact nonzero_scalar_plus_array_error. Qed.

Theorem C14_shape_mismatch_error : forall negpow rk inv spow op ka sa da kb sb db,
  addsub op -> proper (Arr ka sa da) -> proper (Arr kb sb db) -> sa <> sb ->
  is_student_error (py_binop negpow rk inv spow op (Arr ka sa da) (Arr kb sb db)).
Proof. exact shape_mismatch_error. Qed.

Theorem C14_product_mismatch_error : forall negpow rk inv spow ka sa da kb sb db,
  proper (Arr ka sa da) -> proper (Arr kb sb db) -> product_shape sa sb = None ->
  is_student_error (py_binop negpow rk inv spow Mul (Arr ka sa da) (Arr kb sb db)).
Proof. exact product_mismatch_error. Qed.

Theorem C14_tensor_product_error : forall negpow rk inv spow ka sa da kb sb db,
  proper (Arr ka sa da) -> proper (Arr kb sb db) -> (2 < length sa)%nat \/ (2 < length sb)%nat ->
  is_student_error (py_binop negpow rk inv spow Mul (Arr ka sa da) (Arr kb sb db)).
Proof. exact tensor_product_error. Qed.

Theorem C14_divide_by_array_error : forall negpow rk inv spow a b,
  proper a -> proper b -> is_arr b -> is_student_error (py_binop negpow rk inv spow Div a b).
Proof. exact divide_by_array_error. Qed.

(* vectors, tensors and non-square matrices to any power *)
Theorem C14_bad_base_power_error : forall negpow rk inv spow a b,
  proper a -> proper b -> is_arr a -> ~ square_matrix a -> is_student_error (py_binop negpow rk inv spow Pow a b).
Proof. exact bad_base_power_error. Qed.
(* matrices to non-integer powers (fractional floats, complex numbers) *)
Theorem C14_non_integer_power_error : forall negpow rk inv spow a ke e,
  proper a -> is_arr a -> integer_like ke e = false -> is_student_error (py_binop negpow rk inv spow Pow a (Num ke e)).
Proof. exact non_integer_power_error. Qed.
Theorem C14_array_exponent_error : forall negpow rk inv spow a b,
  proper a -> proper b -> is_arr b -> is_student_error (py_binop negpow rk inv spow Pow a b).
Proof. exact array_exponent_error. Qed.

(* chained products of three or more vectors: any chain of numbers and vectors (any lengths, any number of
   operands, '*' and '/' anywhere) with at least three vector factors is refused *)
Theorem C14_triple_vector_refused : forall negpow rk inv spow first rest,
  scalar_or_vector first -> Forall (fun p => scalar_or_vector (snd p)) rest ->
  (3 <= count_mul_vectors first rest)%nat ->
  eval_error (eval_product negpow rk inv spow first rest).
Proof. exact triple_vector_refused. Qed.

(* ... and with operands of ANY shape around and in between: as soon as the running product (a vector) has been multiplied by a
   vector, a chain that still contains a vector factor never returns -- a*b*c, a*b*2*c, a*b*M*c, a*M*b*c, ... *)
Theorem C14_dot_then_vector_refused : forall negpow rk inv spow result flag b rest,
  is_vector result = true -> is_vector b = true ->
  Exists (fun p : bool * val => fst p = true /\ is_vector (snd p) = true) rest ->
  exists e, product_loop negpow rk inv spow result flag ((true, b) :: rest) = Raise e.
Proof. exact dot_then_vector_refused. Qed.

(* ---------------------------------------------------------------------------------------------------------
   Third sentence: negative matrix powers while disabled. *)
Theorem C14_negative_power_disabled_error : forall rk inv spow a ke e,
  proper a -> is_arr a -> cre e < 0 -> is_student_error (py_binop false rk inv spow Pow a (Num ke e)).
Proof. exact negative_power_disabled_error'. Qed.

(* the switch itself (MathArray.enable_negative_powers sets the class flag, runs the block, then resets the flag to the DEFAULT
   rather than to the previous value): inside a block that opens no further block every read sees the block's value, and the
   choice of teardown is irrelevant for programs without a block inside a block -- it matters only under nesting
   (C14_ex_nested_switch).  MatrixGrader.check_response is such an outer block; the harness observes the flag from inside. *)
Theorem C14_switch_in_force : forall v body, no_with body = true ->
  Forall (eq v) (fst (run default_negpow (With v body))).
Proof. exact switch_in_force. Qed.
Theorem C14_switch_teardown_irrelevant_without_nesting : forall p, nesting_free p = true ->
  run default_negpow p = run_prev default_negpow p /\ snd (run default_negpow p) = default_negpow.
Proof. exact switch_teardown_irrelevant_without_nesting. Qed.
Example C14_ex_nested_switch :
  fst (run default_negpow (With false (Seq (With true Obs) Obs))) = [true; true] /\
  fst (run_prev default_negpow (With false (Seq (With true Obs) Obs))) = [true; false] /\
  fst (run default_negpow (With false (Seq (With false Obs) Obs))) = [false; true].
Proof. exact c14_ex_nested_switch. Qed.

(* ---------------------------------------------------------------------------------------------------------
   Formula strings: the evaluation actions fold the same operators. *)
Theorem C14_eval_sum_sound : forall negpow rk inv spow rest first r,
  proper first -> Forall (fun p => proper (snd p)) rest ->
  eval_sum negpow rk inv spow first rest = Ret r ->
  la_chain negpow rk inv spow Add Sub first rest r /\ proper r.
Proof. exact eval_sum_sound. Qed.

Theorem C14_eval_product_sound : forall negpow rk inv spow rest first r,
  proper first -> Forall (fun p => proper (snd p)) rest ->
  eval_product negpow rk inv spow first rest = Ret r ->
  la_chain negpow rk inv spow Mul Div first rest r /\ proper r.
Proof. exact eval_product_sound. Qed.

(* power chains a ^ - b ^ c, folded right to left *)
Theorem C14_eval_power_sound : forall negpow rk inv spow, spow_numeric spow -> forall items r,
  Forall (opt_pred proper) items -> eval_power negpow rk inv spow items = Ret r ->
  la_power negpow rk inv spow items r /\ proper r.
Proof. exact eval_power_sound. Qed.

(* whole formula trees (sums of products of negations of powers of numbers, variables, array literals and
   parenthesised trees, any depth and width): whenever evaluation returns, every operator application on the way was a
   linear-algebra step, and the value is again a number or an array with more than one element *)
Theorem C14_formula_evaluation_is_linear_algebra : forall negpow rk inv spow, spow_numeric spow -> forall e r,
  wf_expr e -> eval_expr negpow rk inv spow e = Ret r -> la_eval negpow rk inv spow e r /\ proper r.
Proof. exact eval_expr_sound. Qed.

(* array literals: children of one common shape are stacked, anything ragged is refused *)
Theorem C14_eval_array_spec : forall items r,
  eval_array items = Ret r ->
  (exists k d, r = Arr k [length items] d /\ length d = length items
               /\ Forall (fun v => exists kv cv, v = Num kv cv) items) \/
  (exists k sh d, r = Arr k (length items :: sh) d
               /\ Forall (fun v => exists kv dv, v = Arr kv sh dv) items).
Proof. exact eval_array_spec. Qed.
Theorem C14_eval_array_ragged : forall items,
  items <> [] -> (forall r, eval_array items <> Ret r) -> eval_array items = Raise ERagged.
Proof. exact eval_array_ragged. Qed.

(* ---------------------------------------------------------------------------------------------------------
   Negative powers and singular matrices (code as repaired by /repo 9dbef38: __pow__ runs np.linalg.matrix_rank before
   inverting).  Two numpy oracles stand behind  M^-k ; their contracts are explicit hypotheses, both are evaluated in
   Coq on every answer recorded by the correspondence, and both are satisfiable (C14_exact_oracles_meet_contracts):
     rank_complete rk          the rank test flags every matrix that has a nonzero kernel vector;
     inv_sound_regular rk inv  on matrices the rank test lets through, np.linalg.inv returns a two-sided inverse. *)

(* singular matrices: a negative power is ALWAYS a student-facing error -- for every exponent type, with negative powers
   enabled or not, and whatever np.linalg.inv would answer (it is never asked).  This replaces the former
   C14_singular_negative_power_refuted: the statement that was refuted for the old code holds for the repaired code. *)
Theorem C14_singular_negative_power_error : forall negpow rk inv spow, rank_complete rk -> forall ka n d ke e,
  proper (Arr ka [n; n] d) -> has_kernel_vector n d -> cre e < 0 ->
  is_student_error (py_binop negpow rk inv spow Pow (Arr ka [n; n] d) (Num ke e)).
Proof. exact singular_negative_power_error. Qed.

(* regular matrices: M^-k is the k-th power of a two-sided inverse of M, or the singular-matrix error *)
Theorem C14_negative_power_is_inverse_power : forall rk inv spow, inv_sound_regular rk inv -> forall ka n d ke e,
  proper (Arr ka [n; n] d) -> integer_like ke e = true -> (exponent_Z e < 0)%Z ->
  (exists b, rk ka n d = false /\
             py_binop true rk inv spow Pow (Arr ka [n; n] d) (Num ke e)
             = Ret (Arr (kmax KFloat ka) [n; n] (mpow n b (Z.to_nat (- exponent_Z e))))
             /\ data_eq (matmat n n n d b) (identity n) /\ data_eq (matmat n n n b d) (identity n))
  \/ py_binop true rk inv spow Pow (Arr ka [n; n] d) (Num ke e) = Raise ESingular.
Proof. exact negative_power_inverse. Qed.

Theorem C14_exact_oracles_meet_contracts :
  rank_complete exact_rank_deficient /\ inv_sound_regular exact_rank_deficient exact_inv.
Proof. exact (conj exact_rank_complete exact_inv_sound_regular). Qed.

(* regression example, the witness of the repaired defect: [[3,3],[5,5]] has the kernel vector (1,-1); with numpy's observed
   answers (matrix_rank = 1 < 2; inv = [[2251799813685248, -1351079888211149], [-2251799813685248, 1351079888211149]], which is
   no inverse) the repaired __pow__ raises the singular-matrix error *)
Example C14_ex_singular_witness_is_error :
  proper (Arr KInt [2; 2]%nat singular_witness) /\
  has_kernel_vector 2 singular_witness /\
  py_binop true numpy_rank_observed numpy_inv_observed no_spow Pow (Arr KInt [2; 2]%nat singular_witness) (Num KInt (zi (-1)))
    = Raise ESingular /\
  py_binop true exact_rank_deficient exact_inv no_spow Pow (Arr KInt [2; 2]%nat singular_witness) (Num KFloat (zi (-2)))
    = Raise ESingular /\
  ~ inv_sound numpy_inv_observed.
Proof. exact c14_singular_witness_is_error. Qed.

(* ---------------------------------------------------------------------------------------------------------
   Non-vacuity / reading notes (vm_compute on the model). *)

(* [[1,2],[3,4]] * [5,6] = [17,39] ;  [1,2] * [[1,2],[3,4]] = [7,10] ;  [1,2]*[3,4] = 11 *)
Example C14_ex_products :
  py_binop true exact_rank_deficient exact_inv no_spow Mul (Arr KInt [2;2]%nat (map zi [1;2;3;4]%Z)) (Arr KInt [2]%nat (map zi [5;6]%Z))
    = Ret (Arr KInt [2]%nat [(17,0); (39,0)]) /\
  py_binop true exact_rank_deficient exact_inv no_spow Mul (Arr KInt [2]%nat (map zi [1;2]%Z)) (Arr KInt [2;2]%nat (map zi [1;2;3;4]%Z))
    = Ret (Arr KInt [2]%nat [(7,0); (10,0)]) /\
  py_binop true exact_rank_deficient exact_inv no_spow Mul (Arr KInt [2]%nat (map zi [1;2]%Z)) (Arr KInt [2]%nat (map zi [3;4]%Z))
    = Ret (Num KInt (11,0)) /\
  (* a (1,2) x (2,1) product is a number, not a (1,1) array *)
  py_binop true exact_rank_deficient exact_inv no_spow Mul (Arr KInt [1;2]%nat (map zi [1;2]%Z)) (Arr KInt [2;1]%nat (map zi [3;4]%Z))
    = Ret (Num KInt (11,0)).
Proof. exact c14_ex_products. Qed.

(* [[1,2],[3,4]]^-1 = [[-2,1],[3/2,-1/2]] with the exact inverse; refused while negative powers are disabled;
   [[1,2],[2,4]]^-1 is the singular-matrix error *)
Example C14_ex_powers :
  (match py_binop true exact_rank_deficient exact_inv no_spow Pow (Arr KInt [2;2]%nat (map zi [1;2;3;4]%Z)) (Num KInt (zi (-1))) with
   | Ret (Arr KFloat [2%nat; 2%nat] d) => map cred d = [(-2,0); (1,0); (3#2,0); (-1#2,0)]
   | _ => False end) /\
  py_binop false exact_rank_deficient exact_inv no_spow Pow (Arr KInt [2;2]%nat (map zi [1;2;3;4]%Z)) (Num KInt (zi (-1))) = Raise ENegPowDisabled /\
  py_binop true exact_rank_deficient exact_inv no_spow Pow (Arr KInt [2;2]%nat (map zi [1;2;2;4]%Z)) (Num KInt (zi (-1))) = Raise ESingular /\
  py_binop true exact_rank_deficient exact_inv no_spow Pow (Arr KInt [2;2]%nat (map zi [1;2;3;4]%Z)) (Num KFloat (2,0))
    = Ret (Arr KInt [2;2]%nat [(7,0); (10,0); (15,0); (22,0)]) /\
  py_binop true exact_rank_deficient exact_inv no_spow Pow (Arr KInt [2;2]%nat (map zi [1;2;3;4]%Z)) (Num KFloat (1#2,0)) = Raise ENonIntPow /\
  py_binop true exact_rank_deficient exact_inv no_spow Pow (Arr KInt [2;2]%nat (map zi [1;2;3;4]%Z)) (Num KComplex (2,0)) = Raise ENonIntPow /\
  py_binop true exact_rank_deficient exact_inv no_spow Pow (Arr KInt [2;3]%nat (map zi [1;2;3;4;5;6]%Z)) (Num KInt (zi 2)) = Raise EPowNonSquare /\
  py_binop true exact_rank_deficient exact_inv no_spow Pow (Arr KInt [2]%nat (map zi [1;2]%Z)) (Num KInt (zi 2)) = Raise EPowShape.
Proof. exact c14_ex_powers. Qed.

(* [1,2]+[1,2,3], [1,2]+1, 1-[1,2], [1,2]/[1,2], 2/[1,2], 2^[1,2] are errors;  0+[1,2] = [1,2] *)
Example C14_ex_errors :
  py_binop true exact_rank_deficient exact_inv no_spow Add (Arr KInt [2]%nat (map zi [1;2]%Z)) (Arr KInt [3]%nat (map zi [1;2;3]%Z)) = Raise EAddShape /\
  py_binop true exact_rank_deficient exact_inv no_spow Add (Arr KInt [2]%nat (map zi [1;2]%Z)) (Num KInt (zi 1)) = Raise EAddScalar /\
  py_binop true exact_rank_deficient exact_inv no_spow Sub (Num KInt (zi 1)) (Arr KInt [2]%nat (map zi [1;2]%Z)) = Raise EAddScalar /\
  py_binop true exact_rank_deficient exact_inv no_spow Div (Arr KInt [2]%nat (map zi [1;2]%Z)) (Arr KInt [2]%nat (map zi [1;2]%Z)) = Raise EDivArray /\
  py_binop true exact_rank_deficient exact_inv no_spow Div (Num KInt (zi 2)) (Arr KInt [2]%nat (map zi [1;2]%Z)) = Raise ERDivArray /\
  py_binop true exact_rank_deficient exact_inv no_spow Pow (Num KInt (zi 2)) (Arr KInt [2]%nat (map zi [1;2]%Z)) = Raise ERPowArray /\
  py_binop true exact_rank_deficient exact_inv no_spow Add (Num KFloat (zi 0)) (Arr KInt [2]%nat (map zi [1;2]%Z))
    = Ret (Arr KFloat [2]%nat (map zi [1;2]%Z)).
Proof. exact c14_ex_errors. Qed.

(* formula level:  [1,2]*[3,4]*[5,6] is refused,  ([1,2]*[3,4])*[5,6] = [55,66],  [[1,2],[3]] is ragged *)
Example C14_ex_formulas :
  let v12 := EArr [EVal (Num KFloat (zi 1)); EVal (Num KFloat (zi 2))] in
  let v34 := EArr [EVal (Num KFloat (zi 3)); EVal (Num KFloat (zi 4))] in
  let v56 := EArr [EVal (Num KFloat (zi 5)); EVal (Num KFloat (zi 6))] in
  eval_expr true exact_rank_deficient exact_inv no_spow (EProd v12 [(true, v34); (true, v56)]) = Raise ETripleVec /\
  eval_expr true exact_rank_deficient exact_inv no_spow (EProd (EParen (EProd v12 [(true, v34)])) [(true, v56)])
    = Ret (Arr KFloat [2]%nat [(55,0); (66,0)]) /\
  eval_expr true exact_rank_deficient exact_inv no_spow (EArr [v12; EArr [EVal (Num KFloat (zi 3))]]) = Raise ERagged.
Proof. exact c14_ex_formulas. Qed.
