(* Props/C01.v -- every grader call returns a well-formed, self-consistent edX result.
   Only statements, `exact lemma`, and Print Assumptions.  The model is Model/Pipeline.v (tied to /repo by the
   differential correspondence of harness/props/c01.py); proofs are in Proofs/Pipeline*.v.

   Reading guide.
     call fuel OR cfg g a x attempt log   models  grader(expect, student_input, attempt=n)  for the grader tree g with
       validated answers a, input x (IStr / IList), root options cfg (debug, attempt credit), debug log `log`;
       OR = the oracles: leaf comparisons, Munkres assignments, choice among answer lists -- ALL universally quantified.
     wf_entry S e   :  0 <= grade <= 1  /\  (ok = grade_decimal_to_ok grade  \/  (grade == 1 /\ S ok))      S = author pins
     ans_ok S Zc a  :  what validate_single_answer establishes for every alternative in the answer tree a:
                       0 <= grade_decimal <= 1, Zc grade_decimal, ok = computed unless grade_decimal == 1 and pinned (S)
     lout_ok S o    :  leaf hypothesis: author-defined check_response results are well-formed, comparer credits in [0,1]
*)
From Coq Require Import ZArith QArith List Bool.
From Verif.Lib Require Import QRound PyNum.
From Verif.Model Require Import Result Credit Pipeline PipelineTables.
From Verif.Gen Require PipelineLits.
From Verif.Bridge Require Import Pipeline.
From Verif.Proofs Require Import Credit Pipeline PipelineWF PipelineShape PipelineFuel PipelineEx PipelineGen.
Import ListNotations.
Open Scope Q_scope.

(* =================================================================================================
   1. grade_decimal_to_ok: "ok is True exactly when the grade is 1, False exactly when it is 0, 'partial' otherwise"
   ================================================================================================= *)
Theorem C01_ok_true_iff_grade_one : forall g, grade_to_ok g = OkTrue <-> g == 1.
Proof. exact grade_to_ok_true_iff. Qed.
Print Assumptions C01_ok_true_iff_grade_one.

Theorem C01_ok_false_iff_grade_zero : forall g, grade_to_ok g = OkFalse <-> g == 0.
Proof. exact grade_to_ok_false_iff. Qed.
Print Assumptions C01_ok_false_iff_grade_zero.

Theorem C01_ok_partial_iff_otherwise : forall g, grade_to_ok g = OkPartial <-> (~ g == 0 /\ ~ g == 1).
Proof. exact grade_to_ok_partial_iff. Qed.
Print Assumptions C01_ok_partial_iff_otherwise.

(* =================================================================================================
   2. the main theorem: every entry of every returned result is well-formed

   FULL-STRENGTH STATEMENT (what the property text asks), with Zc := fun _ => True and no side condition:
       forall S OR fuel cfg g a x attempt log r,
         (forall p, lout_ok S (o_leaf OR p)) -> ans_ok S (fun _ => True) a ->
         (forall sched, c_sched cfg = Some sched -> forall q, 0 <= sched q <= 1) ->
         call fuel OR cfg g a x attempt log = Ret r -> wf_edx S r.
   It is FALSE of the unchanged code -- see C01_call_refuted below (a partial-credit comparer verdict scaled by an
   answer worth grade_decimal = 0 comes back as ok='partial' with grade 0).  What is proved is the statement with the
   matching side condition: raw_check re-derives ok from the scaled grade (o_recompute: the repaired code; the
   harness reads this off the source on every run), or no alternative anywhere in the answer tree is worth 0
   (Zc c -> 0 < c), or no comparer returns partial credit (lout_crisp).  Nothing else is missing: every grader tree,
   every answer tree, every input, every attempt, every debug log, every leaf / assignment / best-list oracle, every
   recursion budget.  C01_call_wf_repaired is the full-strength statement for the repaired version.
   ================================================================================================= *)
Theorem C01_call_wf_partial : forall (S : okv -> Prop) (Zc : Q -> Prop) (OR : oracles),
  (forall p, lout_ok S (o_leaf OR p)) ->
  (o_recompute OR = true \/ (forall c, Zc c -> 0 < c) \/ (forall p, lout_crisp (o_leaf OR p))) ->
  forall fuel cfg g a x attempt log r,
    ans_ok S Zc a ->
    (forall sched, c_sched cfg = Some sched -> forall q, 0 <= sched q <= 1) ->
    call fuel OR cfg g a x attempt log = Ret r -> wf_edx S r.
Proof. exact call_wf. Qed.
Print Assumptions C01_call_wf_partial.

(* the full-strength statement, for the version of FormulaGrader.raw_check that re-derives ok after scaling (the repair) *)
Theorem C01_call_wf_repaired : forall (S : okv -> Prop) (OR : oracles),
  (forall p, lout_ok S (o_leaf OR p)) -> o_recompute OR = true ->
  forall fuel cfg g a x attempt log r,
    ans_ok S (fun _ => True) a ->
    (forall sched, c_sched cfg = Some sched -> forall q, 0 <= sched q <= 1) ->
    call fuel OR cfg g a x attempt log = Ret r -> wf_edx S r.
Proof. exact call_wf_repaired. Qed.
Print Assumptions C01_call_wf_repaired.

(* the same invariant for the results travelling between nesting levels (every check of every subgrader) *)
Theorem C01_check_wf_partial : forall (S : okv -> Prop) (Zc : Q -> Prop) (OR : oracles),
  (forall p, lout_ok S (o_leaf OR p)) ->
  (o_recompute OR = true \/ (forall c, Zc c -> 0 < c) \/ (forall p, lout_crisp (o_leaf OR p))) ->
  forall fuel g a x p r, ans_ok S Zc a -> check OR fuel g a x p = Ret r -> wf_res S r.
Proof. exact check_wf. Qed.
Print Assumptions C01_check_wf_partial.

(* in the property's words, when nothing is pinned: grade in [0,1], ok True iff 1, False iff 0, 'partial' otherwise *)
Theorem C01_unpinned_entries_consistent : forall e, wf_entry (fun _ => False) e -> consistent e.
Proof. exact wf_unpinned_consistent. Qed.
Print Assumptions C01_unpinned_entries_consistent.

(* "unless the author pinned ok explicitly": a disagreement is an author pin, and only at full credit *)
Theorem C01_pinned_only_at_full_credit : forall S e, wf_entry S e ->
  e_ok e <> grade_to_ok (e_grade e) -> e_grade e == 1 /\ S (e_ok e).
Proof. exact wf_pinned_only_at_full_credit. Qed.
Print Assumptions C01_pinned_only_at_full_credit.

Theorem C01_wf_edx_is_entrywise : forall S r, wf_edx S r <-> Forall (wf_entry S) (entries_of r).
Proof. exact wf_edx_entries. Qed.
Print Assumptions C01_wf_edx_is_entrywise.

(* validate_single_answer establishes the hypothesis on answers: an explicit ok survives only at grade_decimal == 1 *)
Theorem C01_validate_single_answer_canonical : forall (S : okv -> Prop) (Zc : Q -> Prop) es c m r,
  Forall (expect_ok S Zc) es -> 0 <= c <= 1 -> Zc c -> (forall o, r = RPinned o -> S o) ->
  alt_okp S Zc (mk_alt es c m r).
Proof. exact mk_alt_ok. Qed.
Print Assumptions C01_validate_single_answer_canonical.

(* the recursion budget is never the reason for an outcome on trees of depth <= fuel *)
Theorem C01_fuel_suffices : forall OR fuel cfg g a x attempt log,
  (gdepth g <= fuel)%nat -> call fuel OR cfg g a x attempt log <> Fuel.
Proof. exact call_fuel_enough. Qed.
Print Assumptions C01_fuel_suffices.

(* =================================================================================================
   3. the shape: single form for item graders; overall_message + one entry per input, in input order, for lists
   ================================================================================================= *)
Theorem C01_item_graders_return_single_form : forall fuel OR cfg g a x attempt log r,
  is_list g = false -> call fuel OR cfg g a x attempt log = Ret r -> exists e, r = ESingle e.
Proof. exact call_item_single. Qed.
Print Assumptions C01_item_graders_return_single_form.

(* one entry per submitted input.  list_shape_ok: a grouping is configured, or the grader is ordered with one subgrader /
   as many subgraders as answers (what ListGrader.schema_answers enforces), or it is unordered and the assignment
   oracle returns one pair per input (what C06 proves of Munkres) *)
Theorem C01_list_graders_return_one_entry_per_input : forall fuel OR cfg c subs lists inputs attempt log r,
  list_shape_ok OR c subs lists (length inputs) [] ->
  call fuel OR cfg (GList c subs) (AList lists) (IList inputs) attempt log = Ret r ->
  exists ov l, r = EMulti ov l /\ length l = length inputs.
Proof. exact call_list_multi. Qed.
Print Assumptions C01_list_graders_return_one_entry_per_input.

(* in input order: entry i of an ordered ListGrader is the i-th subgrader's verdict on the i-th input against the
   i-th answer, formatted -- whatever the other inputs are (grouped / unordered placement is C05's theorem) *)
Theorem C01_ordered_entries_in_input_order : forall f OR cfg c subs answers inputs attempt log ov l,
  l_ordered c = true -> l_grouping c = [] -> l_partial c = true -> c_sched cfg = None ->
  call (S f) OR cfg (GList c subs) (AList [answers]) (IList inputs) attempt log = Ret (EMulti ov l) ->
  forall i e, nth_error l i = Some e ->
    exists g a s d,
      nth_error (if l_single c then repeat (hd (GSum 0) subs) (length answers) else subs) i = Some g /\
      nth_error answers i = Some a /\ nth_error inputs i = Some s /\
      check OR f g a (IStr s) [i] = Ret (RShort d) /\ e = fmt (i_e d).
Proof. exact ordered_entries_in_input_order. Qed.
Print Assumptions C01_ordered_entries_in_input_order.

(* =================================================================================================
   4. debugging output only with debug=True
   ================================================================================================= *)
Theorem C01_debug_off_hides_log : forall fuel OR cfg g a x attempt log1 log2,
  c_debug cfg = false ->
  call fuel OR cfg g a x attempt log1 = call fuel OR cfg g a x attempt log2.
Proof. exact debug_off_hides_log. Qed.
Print Assumptions C01_debug_off_hides_log.

(* ... and debug=True changes nothing but the top-level message *)
Theorem C01_debug_only_touches_top_message : forall fuel OR cfg g a x attempt log r1,
  call fuel OR (with_debug cfg true) g a x attempt log = Ret r1 ->
  exists r0, call fuel OR (with_debug cfg false) g a x attempt log = Ret r0 /\ same_verdicts r1 r0.
Proof. exact debug_only_touches_top_message. Qed.
Print Assumptions C01_debug_only_touches_top_message.

(* =================================================================================================
   5. per-combinator preservation (the anchors of the property)
   ================================================================================================= *)
(* ItemGrader.standardize_cfn_return *)
Theorem C01_standardize_cfn_return_consistent : forall S v, cfn_unit v ->
  strict_entry (standardize v) /\ wf_entry S (standardize v).
Proof. exact standardize_strict. Qed.
Print Assumptions C01_standardize_cfn_return_consistent.

Theorem C01_string_leaf_wf : forall S Zc a s, alt_okp S Zc a ->
  wf_ires S (string_response (alt_credit a) (alt_msg a) (alt_ok a) s).
Proof. exact string_leaf_wf. Qed.
Print Assumptions C01_string_leaf_wf.

(* FULL statement: without the third hypothesis.  Refuted by C01_formula_leaf_refuted. *)
Theorem C01_formula_leaf_wf_partial : forall S Zc rc f a l, alt_okp S Zc a -> Forall cfn_unit l ->
  (rc = true \/ 0 < alt_credit a \/ Forall cfn_crisp l) ->
  wf_ires S (formula_response rc f (alt_credit a) (alt_msg a) (alt_ok a) l).
Proof. exact formula_leaf_wf. Qed.
Print Assumptions C01_formula_leaf_wf_partial.

Theorem C01_sum_leaf_wf : forall S f l, Forall cfn_unit l -> wf_ires S (sum_response f l).
Proof. exact sum_leaf_wf. Qed.
Print Assumptions C01_sum_leaf_wf.

(* MatrixGrader.check_response: suppressed shape errors become zero-grade results *)
Theorem C01_matrix_suppression_wf : forall S c k m r, matrix_err c k m = Ret r -> wf_ires S r.
Proof. exact matrix_err_wf. Qed.
Print Assumptions C01_matrix_suppression_wf.

(* ItemGrader.check: the best alternative (wrong_msg included) *)
Theorem C01_best_alternative_wf : forall S wrong rs r, Forall (wf_ires S) rs -> item_select wrong rs = Ret r -> wf_ires S r.
Proof. exact item_select_wf. Qed.
Print Assumptions C01_best_alternative_wf.

(* consolidate_single_return / process_grade_list: grade in [0,1] and ok recomputed, for ANY grade list *)
Theorem C01_process_grade_list_consistent : forall sl partial gl n m c r,
  Forall (fun x => 0 <= e_grade (i_e x) <= 1) gl -> 0 <= c <= 1 ->
  process_grade_list sl partial gl n m c = Ret r -> strict_entry (i_e r).
Proof. exact process_grade_list_strict. Qed.
Print Assumptions C01_process_grade_list_consistent.

(* SingleListGrader.check_response over ANY checking function that returns well-formed results, any assignment *)
Theorem C01_single_list_response_wf : forall S Zc OR chk c sub a e x p r gl,
  chk_ok S Zc chk -> alt_okp S Zc a -> expect_ok S Zc e ->
  slist_response OR chk c sub a e x p = Ret (r, gl) -> strict_entry (i_e r) /\ Forall (wf_ires S) gl.
Proof. exact slist_response_wf. Qed.
Print Assumptions C01_single_list_response_wf.

Theorem C01_interval_response_wf : forall S Zc OR chk c sub a e x p r,
  chk_ok S Zc chk -> alt_okp S Zc a -> expect_ok S Zc e ->
  interval_response OR chk c sub a e x p = Ret r -> strict_entry (i_e r).
Proof. exact interval_response_wf. Qed.
Print Assumptions C01_interval_response_wf.

(* ListGrader.perform_check: grouping, ordered / unordered grading with ANY assignment, ungrouping *)
Theorem C01_perform_check_wf : forall S Zc OR chk c subs answers inputs p off k slots,
  chk_ok S Zc chk -> Forall (ans_ok S Zc) answers ->
  fst (perform_check OR chk c subs answers inputs p off k) = Ret slots -> Forall (wf_slot S) slots.
Proof. exact perform_check_wf. Qed.
Print Assumptions C01_perform_check_wf.

(* partial_credit=False zeroing *)
Theorem C01_zeroing_wf : forall S l l', Forall (wf_slot S) l -> zero_unless_perfect l = Ret l' -> Forall (wf_slot S) l'.
Proof. exact zero_unless_perfect_wf. Qed.
Print Assumptions C01_zeroing_wf.

(* apply_attempt_based_credit: rescaled grades stay in [0,1] and ok is recomputed (uses C17's pipeline lemmas) *)
Theorem C01_attempt_scaling_recomputes_ok : forall S sched flag n es cr,
  (forall q, 0 <= sched q <= 1) -> Forall (wf_entry S) es ->
  apply_credit sched flag n es = Some cr -> Forall (wf_entry S) (c_entries cr).
Proof. exact apply_credit_wf. Qed.
Print Assumptions C01_attempt_scaling_recomputes_ok.

(* =================================================================================================
   5b. tie (A): statements about definitions REGENERATED from /repo on every run (translate/pipeline.py)
   ================================================================================================= *)
(* every result-dictionary literal with constant ok and grade_decimal in standardize_cfn_return, padded_check,
   StringGrader.construct_message / check_response and MatrixGrader.check_response is self-consistent w.r.t. the
   regenerated grade_decimal_to_ok *)
Theorem C01_result_literals_consistent : Forall lit_ok Gen.PipelineLits.gen_all_literals.
Proof. exact gen_literals_consistent. Qed.
Print Assumptions C01_result_literals_consistent.

(* the regenerated grade_decimal_to_ok is the model's *)
Theorem C01_grade_decimal_to_ok_bridge : forall g, Gen.PipelineLits.gen_grade_to_ok g = grade_to_ok g.
Proof. exact grade_to_ok_bridge. Qed.
Print Assumptions C01_grade_decimal_to_ok_bridge.

(* the regenerated literals are the constants the model uses *)
Theorem C01_standardize_cfn_return_bridge :
  Gen.PipelineLits.gen_lits_standardize_cfn_return
  = [lit_of (standardize CfTrue); lit_of (standardize CfPartial); lit_of (standardize CfFalse); Gen.PipelineLits.LInferred].
Proof. exact standardize_bridge. Qed.
Print Assumptions C01_standardize_cfn_return_bridge.

Theorem C01_padded_check_bridge : Gen.PipelineLits.gen_lits_padded_check = [lit_of (i_e auto_fail)].
Proof. exact padded_check_bridge. Qed.
Print Assumptions C01_padded_check_bridge.

Theorem C01_string_literals_bridge : forall c m o,
  Gen.PipelineLits.gen_lits_string_check_response = [lit_of (i_e (string_response c m o SReject)); Gen.PipelineLits.LCopy]
  /\ i_e (string_response c m o SAccept) = mkEntry o c m.
Proof. exact string_check_response_bridge. Qed.
Print Assumptions C01_string_literals_bridge.

Theorem C01_construct_message_bridge : forall m,
  Gen.PipelineLits.gen_lits_construct_message = [lit_of (i_e (string_response 1 [] OkTrue (SInvalid m)))].
Proof. exact construct_message_bridge. Qed.
Print Assumptions C01_construct_message_bridge.

Theorem C01_matrix_literals_bridge : forall c k m r,
  Gen.PipelineLits.gen_lits_matrix_check_response = repeat (lit_of (i_e (zero_res []))) 5
  /\ (matrix_err c k m = Ret r -> lit_of (i_e r) = lit_of (i_e (zero_res []))).
Proof. exact matrix_check_response_bridge. Qed.
Print Assumptions C01_matrix_literals_bridge.

(* =================================================================================================
   6. REFUTED on the unchanged code (kept until /repo is repaired; the harness finds the same witness on every run)
   ================================================================================================= *)
(* FormulaGrader.raw_check scales a comparer's partial-credit result by the answer's grade_decimal and leaves ok alone:
   with a valid answer worth 0 and the comparer verdict 'partial' the leaf returns ok='partial', grade 0 *)
Example C01_formula_leaf_refuted : forall S,
  alt_okp (fun _ => False) (fun _ => True) zero_alt /\ Forall cfn_unit [CfPartial] /\
  i_e (formula_response false 0 (alt_credit zero_alt) (alt_msg zero_alt) (alt_ok zero_alt) [CfPartial])
    = mkEntry OkPartial ((1 # 2) * 0) [] /\
  ~ wf_ires S (formula_response false 0 (alt_credit zero_alt) (alt_msg zero_alt) (alt_ok zero_alt) [CfPartial]).
Proof. exact formula_leaf_refuted. Qed.
Print Assumptions C01_formula_leaf_refuted.

(* ... and a whole call that satisfies every hypothesis of the full-strength statement returns it to edX *)
Example C01_call_refuted :
  exists OR cfg g a x,
    ans_ok (fun _ => False) (fun _ => True) a /\
    (forall p, lout_ok (fun _ => False) (o_leaf OR p)) /\ o_recompute OR = false /\
    (forall sched, c_sched cfg = Some sched -> forall q, 0 <= sched q <= 1) /\
    call 3 OR cfg g a x None [] = Ret (ESingle (mkEntry OkPartial ((1 # 2) * 0) [])) /\
    ~ wf_edx (fun _ => False) (ESingle (mkEntry OkPartial ((1 # 2) * 0) [])).
Proof. exact call_refuted. Qed.
Print Assumptions C01_call_refuted.

(* the same call under the repaired raw_check returns ok=False *)
Example C01_ex_repaired_call :
  call 3 (table_oracles_v true [([0%nat], LCfn [CfPartial])] [] []) refuting_cfg (GItem (KFormula 0) []) (AItem [zero_alt])
       (IStr []) None [] = Ret (ESingle (mkEntry OkFalse ((1 # 2) * 0) [])).
Proof. exact call_repaired_example. Qed.
Print Assumptions C01_ex_repaired_call.

(* =================================================================================================
   7. non-vacuity: the model computes (values checked against the implementation by the correspondence)
   ================================================================================================= *)
(* grouped + nested + unordered ListGrader, inputs d c b a against ([a,b],[c,d]), attempt 2 at half credit *)
Example C01_ex_grouped_list :
  match call 6 (table_oracles leafs1 perms1 []) (mkC false (Some (fun _ => 1 # 2)) true) g_outer a_outer
             (IList [[100]; [99]; [98]; [97]]%Z) (Some 2%Z) [] with
  | Ret (EMulti ov l) =>
      ov = s_note1 ++ [50%Z] ++ s_note2 ++ [53; 48]%Z ++ s_note3      (* "Maximum credit for attempt #2 is 50%." *)
      /\ map e_ok l = [OkPartial; OkPartial; OkPartial; OkPartial]
      /\ map (fun e => Qred (e_grade e)) l = [1 # 2; 1 # 2; 1 # 2; 1 # 2]
  | _ => False
  end.
Proof. exact ex_grouped_list. Qed.
Print Assumptions C01_ex_grouped_list.

(* SingleListGrader (a,b,c unordered) on "c,a,x,y" with debug=True and the log "L\nG" *)
Example C01_ex_single_list_debug :
  call 6 (table_oracles slg_leafs slg_perms []) (mkC true None true) slg slg_ans
       (IStr [99; 44; 97; 44; 120; 44; 121]%Z) None [76; 10; 71]%Z
  = Ret (ESingle (mkEntry OkPartial (Qmax 0 ((1 + (1 + (0 + (0 + 0))) - 1) / 3) * 1)
                          [76; 60; 98; 114; 47; 62; 10; 71]%Z)).
Proof. exact ex_single_list_debug. Qed.
Print Assumptions C01_ex_single_list_debug.

(* pinned ok: kept at full credit, ignored at half credit, recomputed by attempt credit *)
Example C01_ex_pinned :
  let a := AItem [mk_alt [ELeaf []] 1 [] (RPinned OkPartial); mk_alt [ELeaf []] (1 # 2) [] (RPinned OkTrue)] in
  let o1 := table_oracles [([0%nat], LStr SAccept); ([1%nat], LStr SReject)] [] [] in
  let o2 := table_oracles [([0%nat], LStr SReject); ([1%nat], LStr SAccept)] [] [] in
  call 3 o1 (mkC false None true) (GItem KString []) a (IStr []) None [] = Ret (ESingle (mkEntry OkPartial 1 []))
  /\ call 3 o2 (mkC false None true) (GItem KString []) a (IStr []) None [] = Ret (ESingle (mkEntry OkPartial (1 # 2) []))
  /\ match call 3 o1 (mkC false (Some (fun _ => 1 # 2)) false) (GItem KString []) a (IStr []) (Some 3%Z) [] with
     | Ret (ESingle e) => e_ok e = OkPartial /\ e_grade e == 1 # 2
     | _ => False
     end.
Proof. exact ex_pinned. Qed.
Print Assumptions C01_ex_pinned.

Example C01_ex_matrix_suppressed :
  let a := AItem [Alt [ELeaf []] 1 [] OkTrue] in
  let o := table_oracles [([0%nat], LMatErr MShape [33%Z])] [] [] in
  call 3 o (mkC false None true) (GItem (KMatrix 0 (mkM false false true)) [119%Z]) a (IStr []) None []
    = Ret (ESingle (mkEntry OkFalse 0 [33%Z]))
  /\ call 3 o (mkC false None true) (GItem (KMatrix 0 (mkM true true true)) [119%Z]) a (IStr []) None []
    = Ret (ESingle (mkEntry OkFalse 0 [119%Z]))
  /\ call 3 o (mkC false None true) (GItem (KMatrix 0 (mkM false true true)) [119%Z]) a (IStr []) None [] = Raise.
Proof. exact ex_matrix_suppressed. Qed.
Print Assumptions C01_ex_matrix_suppressed.

(* IntervalGrader on "(1,2)" where "(" is a half-credit alternative with message "h" *)
Example C01_ex_interval :
  match call 6 (table_oracles [([0;0;0;0]%nat, LCfn [CfTrue]); ([0;0;1;0]%nat, LCfn [CfTrue])] [] []) (mkC false None true)
             iv iv_ans (IStr [40; 49; 44; 50; 41]%Z) None [] with
  | Ret (ESingle e) => e_ok e = OkPartial /\ e_grade e == 3 # 4 /\ e_msg e = [104%Z]
  | _ => False
  end.
Proof. exact ex_interval. Qed.
Print Assumptions C01_ex_interval.
