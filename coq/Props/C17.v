(* Props/C17.v -- attempt-based credit.  Only statements, `exact lemma`, and Print Assumptions.
   Schedules are stated on the definitions REGENERATED from mitxgraders/attemptcredit.py (Gen.Credit),
   through the bridge lemmas; the pipeline on the hand-written model (tied by correspondence). *)
From Coq Require Import ZArith QArith List Bool.
From Verif.Lib Require Import QRound PyNum.
From Verif.Model Require Import Result Credit.
From Verif.Gen Require Credit.
From Verif.Bridge Require Import Credit.
From Verif.Proofs Require Import Credit CreditGen.
Import ListNotations.
Open Scope Q_scope.

(* LinearCredit: parameters in the schema's domain (after, steps positive integers, 0 <= min <= 1) *)
Theorem C17_linear_first_attempt_one : forall after steps minc,
  Gen.Credit.gen_linear_credit after steps minc 1 == 1.
Proof. exact c17_linear_first_attempt_one. Qed.
Print Assumptions C17_linear_first_attempt_one.

Theorem C17_linear_in_unit_interval_and_above_minimum : forall (after steps : positive) minc (n : Z),
  0 <= minc <= 1 ->
  let c := Gen.Credit.gen_linear_credit (inject_Z (Zpos after)) (inject_Z (Zpos steps)) minc (inject_Z n) in
  0 <= c <= 1 /\ round4 minc <= c.
Proof. exact c17_linear_in_unit_interval_and_above_minimum. Qed.
Print Assumptions C17_linear_in_unit_interval_and_above_minimum.

Theorem C17_linear_nonincreasing : forall (after steps : positive) minc (n m : Z),
  0 <= minc <= 1 -> (1 <= n <= m)%Z ->
  Gen.Credit.gen_linear_credit (inject_Z (Zpos after)) (inject_Z (Zpos steps)) minc (inject_Z m)
  <= Gen.Credit.gen_linear_credit (inject_Z (Zpos after)) (inject_Z (Zpos steps)) minc (inject_Z n).
Proof. exact c17_linear_nonincreasing. Qed.
Print Assumptions C17_linear_nonincreasing.

(* GeometricCredit: factor in [0,1] *)
Theorem C17_geometric_first_attempt_one : forall f, Gen.Credit.gen_geometric_credit f 1 == 1.
Proof. exact c17_geometric_first_attempt_one. Qed.
Print Assumptions C17_geometric_first_attempt_one.

Theorem C17_geometric_in_unit_interval : forall f (n : Z), 0 <= f <= 1 -> (1 <= n)%Z ->
  0 <= Gen.Credit.gen_geometric_credit f (inject_Z n) <= 1.
Proof. exact c17_geometric_in_unit_interval. Qed.
Print Assumptions C17_geometric_in_unit_interval.

Theorem C17_geometric_nonincreasing : forall f (n m : Z), 0 <= f <= 1 -> (1 <= n <= m)%Z ->
  Gen.Credit.gen_geometric_credit f (inject_Z m) <= Gen.Credit.gen_geometric_credit f (inject_Z n).
Proof. exact c17_geometric_nonincreasing. Qed.
Print Assumptions C17_geometric_nonincreasing.

(* ReciprocalCredit *)
Theorem C17_reciprocal_first_attempt_one : Gen.Credit.gen_reciprocal_credit 1 == 1.
Proof. exact c17_reciprocal_first_attempt_one. Qed.
Print Assumptions C17_reciprocal_first_attempt_one.

Theorem C17_reciprocal_in_unit_interval : forall n : Z, (1 <= n)%Z ->
  0 <= Gen.Credit.gen_reciprocal_credit (inject_Z n) <= 1.
Proof. exact c17_reciprocal_in_unit_interval. Qed.
Print Assumptions C17_reciprocal_in_unit_interval.

Theorem C17_reciprocal_nonincreasing : forall n m : Z, (1 <= n <= m)%Z ->
  Gen.Credit.gen_reciprocal_credit (inject_Z m) <= Gen.Credit.gen_reciprocal_credit (inject_Z n).
Proof. exact c17_reciprocal_nonincreasing. Qed.
Print Assumptions C17_reciprocal_nonincreasing.

(* the pipeline (apply_attempt_based_credit), any schedule whatsoever, any result list *)
Theorem C17_missing_attempt_is_config_error : forall sched flag es, apply_credit sched flag None es = None.
Proof. exact apply_credit_missing. Qed.
Print Assumptions C17_missing_attempt_is_config_error.

Theorem C17_attempts_below_one_count_as_one : forall sched flag n es, (n < 1)%Z ->
  apply_credit sched flag (Some n) es = apply_credit sched flag (Some 1%Z) es.
Proof. exact apply_credit_clamp. Qed.
Print Assumptions C17_attempts_below_one_count_as_one.

Theorem C17_credit_is_schedule_at_clamped_attempt : forall sched flag n es, exists r,
  apply_credit sched flag (Some n) es = Some r
  /\ c_attempt r = clamp1 n /\ c_credit r = round4 (sched (inject_Z (clamp1 n))).
Proof. exact apply_credit_some. Qed.
Print Assumptions C17_credit_is_schedule_at_clamped_attempt.

(* every positive grade is multiplied by the credit with ok recomputed from the new grade; zero grades,
   all messages, the number and the order of the entries are untouched *)
Theorem C17_scaled_grades : forall sched flag n es r,
  apply_credit sched flag (Some n) es = Some r ->
  length (c_entries r) = length es /\
  (~ c_credit r == 1 -> Forall2 (scaled_by (c_credit r)) es (c_entries r)) /\
  (c_credit r == 1 -> c_entries r = es).
Proof. exact c17_scaled_grades. Qed.
Print Assumptions C17_scaled_grades.

Theorem C17_zero_grades_stay_zero : forall c e e', scaled_by c e e' -> e_grade e == 0 -> e' = e.
Proof. exact scaled_zero_fixed. Qed.
Print Assumptions C17_zero_grades_stay_zero.

Theorem C17_scaled_grade_bounds : forall c e e', 0 <= c <= 1 -> 0 <= e_grade e <= 1 -> scaled_by c e e' ->
  0 <= e_grade e' <= e_grade e.
Proof. exact scaled_bounds. Qed.
Print Assumptions C17_scaled_grade_bounds.

Theorem C17_note_iff : forall sched flag n es r,
  apply_credit sched flag (Some n) es = Some r ->
  (c_note r = true <-> (flag = true /\ ~ c_credit r == 1 /\ exists e, In e es /\ 0 < e_grade e)).
Proof. exact apply_credit_note. Qed.
Print Assumptions C17_note_iff.

(* non-vacuity / reading notes *)
Example C17_ex_linear_default :
  map (fun n => Qred (Gen.Credit.gen_linear_credit 1 4 (1#5) (inject_Z n))) [1;2;3;4;5;6]%Z
  = [1; 4#5; 3#5; 2#5; 1#5; 1#5].
Proof. exact c17_ex_linear_default. Qed.
Print Assumptions C17_ex_linear_default.

Example C17_ex_pipeline :
  match apply_credit (Gen.Credit.gen_geometric_credit (1#2)) true (Some 3%Z)
          [mkEntry OkTrue 1 []; mkEntry OkFalse 0 []; mkEntry OkPartial (1#2) []] with
  | Some r => c_note r = true /\ map (fun e => Qred (e_grade e)) (c_entries r) = [1#4; 0; 1#8]
              /\ map e_ok (c_entries r) = [OkPartial; OkFalse; OkPartial] /\ c_pct10 r = 250%Z
  | None => False
  end.
Proof. exact c17_ex_pipeline. Qed.
Print Assumptions C17_ex_pipeline.

(* the raw schedules are NOT bounded at attempts below 1; the pipeline never calls them there *)
Example C17_ex_raw_geometric_at_zero : Qred (Gen.Credit.gen_geometric_credit (1#2) 0) = 2.
Proof. exact c17_ex_raw_geometric_at_zero. Qed.
Print Assumptions C17_ex_raw_geometric_at_zero.
