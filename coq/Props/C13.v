(* Props/C13.v -- Sampled variable sets are complete and dependent values are consistent.
   Only statements, `exact lemma`, Print Assumptions, and Examples.

   Everything is stated on the executable model Model/Resolve.v of sampling.gen_symbols_samples,
   math_helpers.generate_variable_list / gen_var_and_func_samples / numbered_vars_regexp and
   sampling.construct_constants, for an ARBITRARY value type V, formula type, `depends` function fdeps and evaluation
   oracle ev (None = formula error), for symbol lists, dependency graphs and dependency chains of ANY size.
   The one hypothesis on the oracle is extensionality (a formula's value depends only on the names it uses):
   ev_extensional; C13_extensionality_is_satisfiable shows the evaluator used by the correspondence has it.
   Dicts are association lists read by first-match lookup (alookup); amem = key present. *)
From Coq Require Import ZArith QArith List Bool String Permutation.
From Verif.Model Require Import Result Resolve.
From Verif.Gen Require Resolve.
From Verif.Bridge Require Import Resolve.
From Verif.Proofs Require Import Resolve ResolveNumbered ResolveExamples.
Import ListNotations.

(* ---- every sample is complete: declared symbols, unshadowed constants, nothing else ---- *)
Theorem C13_sample_keys_complete :
  forall V formula (fdeps : formula -> list str) (ev : formula -> env V -> option V)
         symbols (sf : list (str * sampler formula)) (constants : env V) draws e,
  gen_sample V formula fdeps ev symbols sf constants draws = ROk e ->
  (forall x, In x symbols -> amem e x = true) /\
  (forall c v, alookup constants c = Some v -> ~ In c symbols -> alookup e c = Some v) /\
  (forall y, amem e y = true -> In y symbols \/ (amem constants y = true /\ ~ In y symbols)).
Proof. exact gen_sample_complete. Qed.
Print Assumptions C13_sample_keys_complete.

(* independent variables hold exactly what their sampling sets returned (i-th gen_sample() call -> i-th independent) *)
Theorem C13_independent_values_are_the_draws :
  forall V formula (fdeps : formula -> list str) (ev : formula -> env V -> option V)
         symbols (sf : list (str * sampler formula)) (constants : env V) draws e,
  NoDup symbols -> gen_sample V formula fdeps ev symbols sf constants draws = ROk e ->
  forall i x, nth_error (independent formula symbols sf) i = Some x ->
    exists v, nth_error draws i = Some v /\ alookup e x = Some v.
Proof. exact gen_sample_independent_values. Qed.
Print Assumptions C13_independent_values_are_the_draws.

(* ---- a dependent variable's value is its formula evaluated on the same sample (which does not use the variable
        itself), for any declaration order and any chain List.length ---- *)
Theorem C13_dependent_values_consistent :
  forall V formula (fdeps : formula -> list str) (ev : formula -> env V -> option V),
  ev_extensional V formula fdeps ev ->
  forall symbols (sf : list (str * sampler formula)) (constants : env V) draws e,
  gen_sample V formula fdeps ev symbols sf constants draws = ROk e ->
  forall x f, In x symbols -> alookup sf x = Some (SDep f) ->
    (forall d, In d (fdeps f) -> amem e d = true) /\ ~ In x (fdeps f) /\
    exists v, alookup e x = Some v /\ ev f e = Some v.
Proof. exact gen_sample_consistent. Qed.
Print Assumptions C13_dependent_values_consistent.

(* the same declarations in another order, with the same draws attached to the same names, give the same sample
   (as a dictionary) or the same kind of configuration error about the same set of names *)
Theorem C13_declaration_order_irrelevant :
  forall V formula (fdeps : formula -> list str) (ev : formula -> env V -> option V),
  ev_extensional V formula fdeps ev ->
  forall symbols symbols' (sf : list (str * sampler formula)) (constants : env V) draws draws',
  NoDup symbols -> Permutation symbols symbols' ->
  (forall s, In s symbols -> amem sf s = true) ->
  (List.length (independent formula symbols sf) <= List.length draws)%nat ->
  (List.length (independent formula symbols' sf) <= List.length draws')%nat ->
  Permutation (combine (independent formula symbols sf) draws) (combine (independent formula symbols' sf) draws') ->
  set_equiv_results V (gen_sample V formula fdeps ev symbols sf constants draws)
                      (gen_sample V formula fdeps ev symbols' sf constants draws').
Proof. exact gen_sample_order_independent. Qed.
Print Assumptions C13_declaration_order_irrelevant.

(* ---- all samples of one gen_symbols_samples call (any number of samples) ---- *)
Theorem C13_every_sample_complete_and_consistent :
  forall V formula (fdeps : formula -> list str) (ev : formula -> env V -> option V),
  ev_extensional V formula fdeps ev ->
  forall symbols (sf : list (str * sampler formula)) (constants : env V) (draws : list (list V)) l,
  gen_symbols_samples V formula fdeps ev symbols sf constants draws = RsOk l ->
  List.length l = List.length draws /\
  Forall (fun e =>
    (forall x, In x symbols -> amem e x = true) /\
    (forall c v, alookup constants c = Some v -> ~ In c symbols -> alookup e c = Some v) /\
    (forall y, amem e y = true -> In y symbols \/ (amem constants y = true /\ ~ In y symbols)) /\
    (forall x f, In x symbols -> alookup sf x = Some (SDep f) ->
       (forall d, In d (fdeps f) -> amem e d = true) /\ ~ In x (fdeps f) /\
       exists v, alookup e x = Some v /\ ev f e = Some v)) l.
Proof. exact gen_symbols_samples_ok. Qed.
Print Assumptions C13_every_sample_complete_and_consistent.

(* ---- the grader-level variable samples: declared variables, numbered instances used in the expressions (with the
        sampler of their base name), sibling formulas as dependent variables, unshadowed constants ---- *)
Theorem C13_grader_samples_complete_and_consistent :
  forall V formula (fdeps : formula -> list str) (ev : formula -> env V -> option V),
  ev_extensional V formula fdeps ev ->
  forall variables heads used (sibs : list (str * formula)) (sf : list (str * sampler formula))
         (constants : env V) (draws : list (list V)) l,
  heads_plain heads used -> NoDup (map fst sibs) ->
  gen_var_samples V formula fdeps ev variables heads used sibs sf constants draws = Some (RsOk l) ->
  List.length l = List.length draws /\
  Forall (fun e =>
    (forall v, In v variables -> amem e v = true) /\
    (forall u, In u used -> is_instance heads u = true -> amem e u = true) /\
    (forall k f, In (k, f) sibs -> exists v, alookup e k = Some v /\ ev f e = Some v) /\
    (forall c v, alookup constants c = Some v -> ~ In c variables -> ~ In c (map fst sibs) ->
                 ~ (In c used /\ is_instance heads c = true) -> alookup e c = Some v) /\
    (forall x f, In x variables -> ~ In x (map fst sibs) -> alookup sf x = Some (SDep f) ->
                 ~ In x (fdeps f) /\ exists v, alookup e x = Some v /\ ev f e = Some v) /\
    (forall u h f, In u used -> ~ In u variables -> ~ In u (map fst sibs) -> numbered_match heads u = Some h ->
                   alookup sf h = Some (SDep f) -> exists v, alookup e u = Some v /\ ev f e = Some v) /\
    (forall y, amem e y = true -> In y variables \/ In y (map fst sibs) \/ (In y used /\ is_instance heads y = true)
                                  \/ amem constants y = true)) l.
Proof. exact gen_var_samples_ok. Qed.
Print Assumptions C13_grader_samples_complete_and_consistent.

(* the scopes in which gen_evaluations evaluates the author's and the student's expressions for sample i are sample i
   itself (resp. sample i without the instructor-only / sibling names): nothing leaks from one sample into the next *)
Theorem C13_scopes_used_for_grading_are_the_samples :
  forall V formula (fdeps : formula -> list str) (ev : formula -> env V -> option V)
         symbols (sf : list (str * sampler formula)) (constants : env V) (draws : list (list V)) l bl,
  gen_symbols_samples V formula fdeps ev symbols sf constants draws = RsOk l ->
  Forall2 (fun s sc => env_equiv V (fst sc) s /\
                       forall x, alookup (snd sc) x = if smem x bl then None else alookup s x)
          l (eval_scopes V [] bl l).
Proof. exact scopes_are_the_samples. Qed.
Print Assumptions C13_scopes_used_for_grading_are_the_samples.

(* a numbered instance is sampled with its base name's sampling set; plain variables keep their own, also when
   their name looks like an instance (collision) *)
Theorem C13_numbered_instances_use_base_sampler :
  forall formula variables heads used (sf : list (str * sampler formula)) vars sf',
  generate_variable_list formula variables heads used sf = Some (vars, sf') ->
  heads_plain heads used ->
  (forall y, In y vars <-> In y variables \/ (In y used /\ ~ In y variables /\ is_instance heads y = true)) /\
  (NoDup variables -> NoDup vars) /\
  (exists extra, vars = (variables ++ extra)%list) /\
  (forall u h, In u used -> ~ In u variables -> numbered_match heads u = Some h -> alookup sf' u = alookup sf h) /\
  (forall y, In y variables \/ ~ In y used \/ is_instance heads y = false -> alookup sf' y = alookup sf y).
Proof. exact generate_variable_list_spec. Qed.
Print Assumptions C13_numbered_instances_use_base_sampler.

(* what counts as a numbered instance: head ++ "_{" ++ decimal z ++ "}" for an integer z in canonical decimal form
   (negative and multi-digit included; no leading zeros, no "-0"), first matching head in list order *)
Theorem C13_numbered_match_spec : forall heads s h, heads <> [] ->
  (numbered_match heads s = Some h <->
   exists pre post, heads = (pre ++ h :: post)%list /\
     (exists z : Z, s = (h ++ index_suffix z)%list) /\
     (forall h', In h' pre -> ~ exists z : Z, s = (h' ++ index_suffix z)%list)).
Proof. exact numbered_match_spec. Qed.
Print Assumptions C13_numbered_match_spec.

Theorem C13_numbered_match_none : forall heads s, heads <> [] ->
  (numbered_match heads s = None <-> forall h, In h heads -> ~ exists z : Z, s = (h ++ index_suffix z)%list).
Proof. exact numbered_match_none. Qed.
Print Assumptions C13_numbered_match_none.

(* ---- circular or undefined dependencies: a configuration error, never a loop, never a value ---- *)
Theorem C13_resolution_never_loops :
  forall V formula (fdeps : formula -> list str) (ev : formula -> env V -> option V)
         symbols (sf : list (str * sampler formula)) (constants : env V) draws,
  gen_sample V formula fdeps ev symbols sf constants draws <> RErr EFuel.
Proof. exact gen_sample_terminates. Qed.
Print Assumptions C13_resolution_never_loops.

Theorem C13_cycle_is_config_error :
  forall V formula (fdeps : formula -> list str) (ev : formula -> env V -> option V)
         symbols (sf : list (str * sampler formula)) (constants : env V) draws x,
  (forall s, In s symbols -> amem sf s = true) ->
  (List.length (independent formula symbols sf) <= List.length draws)%nat ->
  chain formula fdeps (dependents formula symbols sf) x x ->
  exists er, gen_sample V formula fdeps ev symbols sf constants draws = RErr er /\ is_config_error er = true.
Proof. exact gen_sample_cycle_is_config_error. Qed.
Print Assumptions C13_cycle_is_config_error.

Theorem C13_undefined_dependency_is_config_error :
  forall V formula (fdeps : formula -> list str) (ev : formula -> env V -> option V)
         symbols (sf : list (str * sampler formula)) (constants : env V) draws x f d,
  (forall s, In s symbols -> amem sf s = true) ->
  (List.length (independent formula symbols sf) <= List.length draws)%nat ->
  In x symbols -> alookup sf x = Some (SDep f) -> In d (fdeps f) ->
  ~ In d symbols -> amem constants d = false ->
  exists er, gen_sample V formula fdeps ev symbols sf constants draws = RErr er /\ is_config_error er = true.
Proof. exact gen_sample_dangling_is_config_error. Qed.
Print Assumptions C13_undefined_dependency_is_config_error.

(* whatever goes wrong inside a call is one of the three ConfigErrors *)
Theorem C13_errors_are_config_errors :
  forall V formula (fdeps : formula -> list str) (ev : formula -> env V -> option V)
         symbols (sf : list (str * sampler formula)) (constants : env V) (draws : list (list V)) j x,
  (forall s, In s symbols -> amem sf s = true) ->
  Forall (fun d => (List.length (independent formula symbols sf) <= List.length d)%nat) draws ->
  gen_symbols_samples V formula fdeps ev symbols sf constants draws = RsErr j x -> is_config_error x = true.
Proof. exact gen_symbols_samples_errors. Qed.
Print Assumptions C13_errors_are_config_errors.

(* a successful resolution certifies that the dependency graph is closed and acyclic (a rank exists) ... *)
Theorem C13_success_implies_closed_acyclic :
  forall V formula (fdeps : formula -> list str) (ev : formula -> env V -> option V) todo0 (e0 e : env V),
  NoDup (map fst todo0) -> fresh V formula todo0 e0 ->
  resolve V formula fdeps ev todo0 e0 = ROk e ->
  (forall x f d, In (x, f) todo0 -> In d (fdeps f) -> amem e0 d = true \/ In d (map fst todo0)) /\
  exists rank : str -> nat, forall x f d, In (x, f) todo0 -> In d (fdeps f) -> (rank d < rank x)%nat.
Proof. exact resolve_ok_acyclic. Qed.
Print Assumptions C13_success_implies_closed_acyclic.

(* ... and conversely a closed acyclic declaration whose formulas evaluate always yields a sample: neither diagnosis
   is ever issued wrongly, whatever the order of the declarations *)
Theorem C13_closed_acyclic_always_resolves :
  forall V formula (fdeps : formula -> list str) (ev : formula -> env V -> option V)
         symbols (sf : list (str * sampler formula)) (constants : env V) draws (rank : str -> nat),
  (forall s, In s symbols -> amem sf s = true) ->
  (List.length (independent formula symbols sf) <= List.length draws)%nat ->
  (forall x f d, In x symbols -> alookup sf x = Some (SDep f) -> In d (fdeps f) ->
      (In d symbols \/ amem constants d = true) /\
      (is_dep formula sf d = true -> In d symbols -> (rank d < rank x)%nat)) ->
  (forall f e, deps_ready V formula fdeps f e = true -> ev f e <> None) ->
  exists e, gen_sample V formula fdeps ev symbols sf constants draws = ROk e.
Proof. exact gen_sample_succeeds. Qed.
Print Assumptions C13_closed_acyclic_always_resolves.

(* the two messages say what is the case *)
Theorem C13_undefined_diagnosis_accurate :
  forall V formula (fdeps : formula -> list str) (ev : formula -> env V -> option V) todo0 (e0 : env V) l,
  NoDup (map fst todo0) -> fresh V formula todo0 e0 ->
  resolve V formula fdeps ev todo0 e0 = RErr (EUndefined l) ->
  l <> [] /\ forall d, In d l ->
    amem e0 d = false /\ ~ In d (map fst todo0) /\ exists x f, In (x, f) todo0 /\ In d (fdeps f).
Proof. exact undefined_diagnosis_accurate. Qed.
Print Assumptions C13_undefined_diagnosis_accurate.

Theorem C13_circular_diagnosis_accurate :
  forall V formula (fdeps : formula -> list str) (ev : formula -> env V -> option V) todo0 (e0 : env V) l,
  NoDup (map fst todo0) -> fresh V formula todo0 e0 ->
  resolve V formula fdeps ev todo0 e0 = RErr (ECircular l) ->
  l <> [] /\ forall x, In x l -> exists f d, In (x, f) todo0 /\ In d (fdeps f) /\ In d l.
Proof. exact circular_diagnosis_accurate. Qed.
Print Assumptions C13_circular_diagnosis_accurate.

(* ---- tie A: definitions regenerated from /repo on every run ---- *)
Theorem C13_regenerated_regexp_text :
  Gen.Resolve.gen_rx_prefix = rx_prefix /\ Gen.Resolve.gen_rx_suffix = rx_suffix /\
  Gen.Resolve.gen_rx_separator = "|"%string /\ Gen.Resolve.gen_rx_heads_escaped = true.
Proof. exact (conj rx_prefix_bridge (conj rx_suffix_bridge rx_heads_bridge)). Qed.
Print Assumptions C13_regenerated_regexp_text.

Theorem C13_regenerated_is_subset : forall V formula (fdeps : formula -> list str) f (e : env V),
  Gen.Resolve.gen_is_subset (fdeps f) e = deps_ready V formula fdeps f e.
Proof. exact is_subset_bridge. Qed.
Print Assumptions C13_regenerated_is_subset.

(* construct_constants: user constants over defaults, defaults otherwise *)
Theorem C13_regenerated_construct_constants : forall V (defaults user : env V) x,
  alookup (Gen.Resolve.gen_construct_constants defaults user) x =
  match alookup user x with Some v => Some v | None => alookup defaults x end.
Proof. exact construct_constants_lookup. Qed.
Print Assumptions C13_regenerated_construct_constants.

(* ---- non-vacuity ---- *)
Theorem C13_extensionality_is_satisfiable : ev_extensional val expr expr_vars eval_expr.
Proof. exact eval_expr_extensional. Qed.
Print Assumptions C13_extensionality_is_satisfiable.

(* a diamond over a constant and a numbered instance, dependents declared before what they depend on (two passes);
   the constant named like the variable a is shadowed, the constant k is kept *)
Example C13_ex_diamond :
  match run (map s2l ["d"; "c"; "b"; "a"; "n_{1}"]%string) ex_sf ex_consts [S_ 2; S_ 5] with
  | ROk e => map (fun x => alookup e (s2l x)) ["a"; "n_{1}"; "b"; "c"; "d"; "k"; "zz"]%string
             = [Some (S_ 2); Some (S_ 5); Some (S_ 5); Some (S_ 10); Some (S_ (-5)); Some (S_ 3); None]
             /\ List.length e = 6%nat
  | RErr _ => False
  end.
Proof. exact c13_ex_diamond. Qed.
Print Assumptions C13_ex_diamond.

Example C13_ex_diamond_other_order :
  match run (map s2l ["a"; "b"; "n_{1}"; "c"; "d"]%string) ex_sf ex_consts [S_ 2; S_ 5] with
  | ROk e => map (fun x => alookup e (s2l x)) ["a"; "n_{1}"; "b"; "c"; "d"; "k"]%string
             = [Some (S_ 2); Some (S_ 5); Some (S_ 5); Some (S_ 10); Some (S_ (-5)); Some (S_ 3)]
  | RErr _ => False
  end.
Proof. exact c13_ex_diamond_other_order. Qed.
Print Assumptions C13_ex_diamond_other_order.

(* x = y + 1, y = x * 2: circular; x = x + 1: circular; x = zz + 1 (zz nowhere), y = y * 2: undefined wins;
   [1, 2] + 1: formula error *)
Example C13_ex_cycle_and_dangling :
  run (map s2l ["x"; "y"]%string) [(s2l "x", SDep (EAdd (V_ "y") (N_ 1))); (s2l "y", SDep (EMul (V_ "x") (N_ 2)))] [] []
    = RErr (ECircular [s2l "x"; s2l "y"]) /\
  run [s2l "x"] [(s2l "x", SDep (EAdd (V_ "x") (N_ 1)))] [] [] = RErr (ECircular [s2l "x"]) /\
  run (map s2l ["x"; "y"]%string) [(s2l "x", SDep (EAdd (V_ "zz") (N_ 1))); (s2l "y", SDep (EMul (V_ "y") (N_ 2)))] [] []
    = RErr (EUndefined [s2l "zz"]) /\
  run [s2l "x"] [(s2l "x", SDep (EAdd (EVec [N_ 1; N_ 2]) (N_ 1)))] [] [] = RErr (EFormula (s2l "x")).
Proof. exact c13_ex_errors. Qed.
Print Assumptions C13_ex_cycle_and_dangling.

Example C13_ex_numbered :
  map (fun s => numbered_match [s2l "a"; s2l "ab"; s2l "Cat"] (s2l s))
      ["a_{1}"; "ab_{-12}"; "a_{0}"; "Cat_{17}"; "ab_{100}"; "a_{-0}"; "a_{05}"; "cat_{1}"; "a"; "a_{}"; "a_{1}x"; "b_{1}"; "a_{+1}"]%string
  = [Some (s2l "a"); Some (s2l "ab"); Some (s2l "a"); Some (s2l "Cat"); Some (s2l "ab");
     None; None; None; None; None; None; None; None].
Proof. exact c13_ex_numbered. Qed.
Print Assumptions C13_ex_numbered.
