(* Props/C06.v -- the assignment solver.  Statements only; proofs live in Proofs/Munkres*.v.
   Full-strength statement: Proofs/MunkresSpec.v, munkres_correct_statement (terminates AND returns a complete
   minimum-cost matching for every rectangular non-negative integer matrix).  It is being proved in two halves,
   munkres_partial_correct_statement and munkres_terminates_statement; the theorems below are what is
   machine-checked so far. *)
From Coq Require Import ZArith List Permutation.
From Verif.Model Require Import Munkres.
From Verif.Model Require Import MunkresReuse.
From Verif.Proofs Require Import MunkresDuality MunkresSpec MunkresReuse.
Import ListNotations.

(* optimality certificate: potentials + a perfect matching on zeros of the reduced matrix *)
Theorem C06_weak_duality : forall (n : nat) (M C : nat -> nat -> Z) (u v : nat -> Z) (star tau : list nat),
  (forall i j, (i < n)%nat -> (j < n)%nat -> M i j = (C i j + u i + v j)%Z) ->
  (forall i j, (i < n)%nat -> (j < n)%nat -> (0 <= C i j)%Z) ->
  Permutation star (seq 0 n) -> Permutation tau (seq 0 n) ->
  (forall i, (i < n)%nat -> C i (nth i star 0%nat) = 0%Z) ->
  (asg_sum M star <= asg_sum M tau)%Z.
Proof. exact weak_duality. Qed.

(* histories: compute re-initialises every working field, so on ANY sequence of solves (any shapes, any
   incoming instance state) each solve returns what a fresh solver returns *)
Theorem C06_reuse_independent : forall (old : inst) (m : matrix Z),
  snd (compute_on old m) = snd (compute_on fresh_inst m).
Proof. exact reuse_independent. Qed.

Theorem C06_history_independent : forall (ms : list (matrix Z)) (i : inst), solve_all i ms = map computeZ ms.
Proof. exact solve_all_fresh. Qed.

Example C06_ex_3x3 : computeZ [[4;1;3];[2;0;5];[3;2;2]]%Z = Some [(0,1);(1,0);(2,2)]%nat.
Proof. vm_compute. reflexivity. Qed.

Example C06_ex_rectangular : computeZ [[4;1;3;9];[2;0;5;1]]%Z = Some [(0,1);(1,3)]%nat
  /\ computeZ [[4;1];[2;0];[3;7]]%Z = Some [(1,1);(2,0)]%nat.
Proof. vm_compute. split; reflexivity. Qed.
