(* Props/C06.v -- the assignment solver.  Statements only; proofs live in Proofs/Munkres*.v.
   Model: Model/Munkres.v (line-by-line transcription of Munkres.compute and its six steps, as repaired by fix ea8a5bc:
   find_smallest starts from the first uncovered value), instance Z.
   C06_munkres_correct is the property at full strength for exact integer costs: EVERY rectangular matrix of integers
   (r, c >= 1, any size, any magnitude, even negative entries) is solved -- the fuel of the model's loops is never
   exhausted and no error branch is taken -- and the result is a complete matching (min(r,c) pairs, each row and column
   at most once) of minimum total cost, listed by increasing row.  It is also stated in the exact form fixed beforehand
   (MunkresSpec.munkres_correct_statement).  Before the fix the termination half needed max(r,c)*B < sys.maxsize and
   was false without it (the model ran out of fuel on [[10^25,2*10^25],[3*10^25,5*10^25]], the real code hung on 1e30). *)
From Coq Require Import ZArith List Permutation.
From Verif.Model Require Import Munkres.
From Verif.Model Require Import MunkresReuse.
From Coq Require Import Sorted.
From Verif.Proofs Require Import MunkresDuality MunkresSpec MunkresReuse MunkresCorrect MunkresTerm.
Import ListNotations.

(* the property, exact integer costs, all sizes, all magnitudes *)
Theorem C06_munkres_correct : forall (r c : nat) (M : list (list Z)),
  (1 <= r)%nat -> (1 <= c)%nat -> rect r c M ->
  exists res, computeZ M = Some res
    /\ is_matching r c res /\ length res = Nat.min r c
    /\ (forall m, is_matching r c m -> length m = Nat.min r c -> (cost M res <= cost M m)%Z)
    /\ StronglySorted lt (map fst res)
    /\ (r = c -> map fst res = seq 0 r).
Proof. exact munkres_correct. Qed.

(* the same in the form written down before the proof existed (Proofs/MunkresSpec.v) *)
Theorem C06_munkres_correct_statement : munkres_correct_statement.
Proof. exact munkres_correct_spec. Qed.

Theorem C06_munkres_partial_correct : munkres_partial_correct_statement.
Proof. exact munkres_partial_correct. Qed.

Theorem C06_munkres_terminates : forall (r c : nat) (M : list (list Z)),
  (1 <= r)%nat -> (1 <= c)%nat -> rect r c M -> computeZ M <> None.
Proof. exact munkres_terminates. Qed.

(* used by C05/C07: results come row by row *)
Theorem C06_rows_in_order : forall n (M : list (list Z)) res, (1 <= n)%nat -> rect n n M ->
  computeZ M = Some res -> map fst res = seq 0 n.
Proof. exact munkres_rows_in_order. Qed.

(* optimality certificate: potentials + a perfect matching on zeros of the reduced matrix *)
Theorem C06_weak_duality : forall (n : nat) (M C : nat -> nat -> Z) (u v : nat -> Z) (star tau : list nat),
  (forall i j, (i < n)%nat -> (j < n)%nat -> M i j = (C i j + u i + v j)%Z) ->
  (forall i j, (i < n)%nat -> (j < n)%nat -> (0 <= C i j)%Z) ->
  Permutation star (seq 0 n) -> Permutation tau (seq 0 n) ->
  (forall i, (i < n)%nat -> C i (nth i star 0%nat) = 0%Z) ->
  (asg_sum M star <= asg_sum M tau)%Z.
Proof. exact weak_duality. Qed.

(* histories: compute re-initialises every working field, so on ANY sequence of solves (any shapes, any
   incoming instance state) each solve returns what a fresh solver returns *)
Theorem C06_reuse_independent : forall (old : inst) (m : matrix Z),
  snd (compute_on old m) = snd (compute_on fresh_inst m).
Proof. exact reuse_independent. Qed.

Theorem C06_history_independent : forall (ms : list (matrix Z)) (i : inst), solve_all i ms = map computeZ ms.
Proof. exact solve_all_fresh. Qed.

Example C06_ex_3x3 : computeZ [[4;1;3];[2;0;5];[3;2;2]]%Z = Some [(0,1);(1,0);(2,2)]%nat.
Proof. vm_compute. reflexivity. Qed.

(* non-vacuity: a 3x4 grade-like matrix scaled to integers (the bounded corollary's hypotheses hold too) *)
Example C06_ex_hypotheses : rect 3 4 [[9;3;7;10];[5;9;10;0];[0;7;3;3]]%Z
  /\ (forall i j, (i < 3)%nat -> (j < 4)%nat -> (0 <= gz [[9;3;7;10];[5;9;10;0];[0;7;3;3]]%Z i j <= 10)%Z)
  /\ (Z.of_nat (Nat.max 3 4) * 10 < zmaxsize)%Z
  /\ computeZ [[9;3;7;10];[5;9;10;0];[0;7;3;3]]%Z = Some [(0,1);(1,3);(2,0)]%nat.
Proof.
  split; [split; [reflexivity | repeat constructor] |].
  split; [| split; [reflexivity | vm_compute; reflexivity]].
  intros i j Hi Hj.
  destruct i as [|[|[|i]]]; try (exfalso; apply (PeanoNat.Nat.lt_irrefl 3); eapply PeanoNat.Nat.le_lt_trans; [| exact Hi]; repeat apply le_n_S; apply le_0_n);
  destruct j as [|[|[|[|j]]]]; try (exfalso; apply (PeanoNat.Nat.lt_irrefl 4); eapply PeanoNat.Nat.le_lt_trans; [| exact Hj]; repeat apply le_n_S; apply le_0_n);
  vm_compute; split; discriminate.
Qed.

(* the former counterexample to termination (fuel exhausted before fix ea8a5bc) is now solved *)
Example C06_ex_huge_costs :
  computeZ [[10000000000000000000000000; 20000000000000000000000000];
            [30000000000000000000000000; 50000000000000000000000000]]%Z = Some [(0,1);(1,0)]%nat.
Proof. vm_compute. reflexivity. Qed.

Example C06_ex_rectangular : computeZ [[4;1;3;9];[2;0;5;1]]%Z = Some [(0,1);(1,3)]%nat
  /\ computeZ [[4;1];[2;0];[3;7]]%Z = Some [(1,1);(2,0)]%nat.
Proof. vm_compute. split; reflexivity. Qed.
