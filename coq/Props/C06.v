(* Props/C06.v -- placeholder while the proofs are being written: one sanity Example *)
From Coq Require Import ZArith List.
From Verif.Model Require Import Munkres.
Import ListNotations.
Example C06_ex_3x3 : computeZ [[4;1;3];[2;0;5];[3;2;2]]%Z = Some [(0,1);(1,0);(2,2)].
Proof. vm_compute. reflexivity. Qed.
