(* Props/C20.v -- Configuration validation enforces documented option domains and fills defaults.
   Only statements, `exact lemma`, and Examples.

   Reading guide.  `validate orc s v` is the interpreter of the voluptuous fragment (Model/Schema.v); `orc` is the one
   callable that is not interpreted (PercentageString: float parsing), universally quantified.  Statements about
   `Schemas.gen_...` are about the schemas REGENERATED from /repo on every run (translate/schemas.py).  The cross-option
   rules are hand-written models (Model/SchemaInit.v) tied by correspondence.

   FULL STATEMENT of the property and where each clause is:
   (a) succeeds exactly when every supplied option is in its domain, names are known, required options are given
         -> C20_accept_iff_every_option_in_domain, C20_unknown_option_refused, C20_missing_required_option_refused,
            domains: C20_positive_int_domain, C20_nonnegative_int_domain (+ the option lookups)
   (b) ... and the cross-option rules hold
         -> C20_math_rules_accept_iff, C20_whitelist_blacklist_spec, C20_override_needs_suppress_spec,
            C20_no_collisions_spec, C20_unordered_lists_only_with_single_subgrader, C20_grouping_contiguous_spec,
            C20_grouping_matches_subgraders, C20_nested_delimiters_distinct_spec
   (c) otherwise a configuration or validation error is raised
         -> C20_refusal_is_validation_error (every class, every value; schema level), ConfigError of the cross rules:
            C20_no_simultaneous_whitelist_and_blacklist, C20_single_answer_list_refused, C20_same_nested_delimiter_refused
   (d) every option present, documented default when omitted
         -> C20_declared_options_present, C20_omitted_option_gets_default, C20_defaults_match_documentation
   (e) answers normalised to the canonical tuple-of-dictionaries form -> C20_ex_answers_normal_form,
            C20_answers_normal_form_is_fixed_point
   (f) constructing again from the exposed configuration gives an equal object
         -> C20_revalidation_idempotent_every_class (schema level, every class, every configuration);
            at constructor level REFUTED for FormulaGrader-like graders:
            C20_rebuild_from_config_refuted_deleted_constant
   (g) keyword and dictionary forms are equivalent -> C20_kwargs_dict_equiv *)
From Coq Require Import ZArith QArith List Bool String.
From Verif.Model Require Import Result Schema SchemaInit SchemaTables.
From Verif.Gen Require Schemas.
From Verif.Bridge Require Import Schemas.
From Verif.Proofs Require Import Schema SchemaIdem SchemaIdem2 SchemaSafe SchemaInit SchemaGen.
Import ListNotations.
Open Scope list_scope.

(* ---------------------------------------------------------------------------------------------- *)
(* the mapping validator, for ALL schemas of the fragment, ALL configurations, ALL oracles         *)
(* ---------------------------------------------------------------------------------------------- *)
Theorem C20_accept_iff_every_option_in_domain : forall orc es extra items,
  (exists out, validate orc (SDict es extra) (PDict items) = Ret (PDict out)) <->
  ((forall k x, In (k, x) (items ++ defaults_for es items) ->
                exists s, lookup_schema extra es k = Some s /\ accepts orc s x)
   /\ required_present es items = true).
Proof. exact accept_iff_in_domain. Qed.
Print Assumptions C20_accept_iff_every_option_in_domain.

Theorem C20_accepted_option_names_are_declared : forall orc es items out k,
  validate orc (SDict es None) (PDict items) = Ret (PDict out) -> In k (keys_of out) ->
  exists e, In e es /\ k = PStr (de_key e).
Proof. exact accepted_keys_declared. Qed.
Print Assumptions C20_accepted_option_names_are_declared.

Theorem C20_declared_options_present : forall orc es extra items out e,
  validate orc (SDict es extra) (PDict items) = Ret (PDict out) -> In e es ->
  de_required e = true \/ de_default e <> None -> has_key (de_key e) out = true.
Proof. exact declared_keys_present. Qed.
Print Assumptions C20_declared_options_present.

Theorem C20_unknown_option_refused : forall orc es items k x,
  In (k, x) items -> (forall e, In e es -> key_is k (de_key e) = false) ->
  forall v, validate orc (SDict es None) (PDict items) <> Ret v.
Proof. exact unknown_key_refused. Qed.
Print Assumptions C20_unknown_option_refused.

Theorem C20_missing_required_option_refused : forall orc es extra items e,
  In e es -> de_required e = true -> de_default e = None -> has_key (de_key e) items = false ->
  forall v, validate orc (SDict es extra) (PDict items) <> Ret v.
Proof. exact missing_required_refused. Qed.
Print Assumptions C20_missing_required_option_refused.

Theorem C20_supplied_option_validated : forall orc es extra items out k x,
  validate orc (SDict es extra) (PDict items) = Ret (PDict out) -> In (k, x) items ->
  exists s y, lookup_schema extra es k = Some s /\ validate orc s x = Ret y /\ In (k, y) out.
Proof. exact supplied_option_validated. Qed.
Print Assumptions C20_supplied_option_validated.

Theorem C20_omitted_option_gets_default : forall orc es extra items out e d,
  validate orc (SDict es extra) (PDict items) = Ret (PDict out) -> In e es -> de_default e = Some d ->
  has_key (de_key e) items = false ->
  exists s y, lookup_schema extra es (PStr (de_key e)) = Some s /\ validate orc s d = Ret y /\ In (PStr (de_key e), y) out.
Proof. exact omitted_option_gets_default. Qed.
Print Assumptions C20_omitted_option_gets_default.

Theorem C20_exposed_entries_are_validated_inputs : forall orc es extra items out k y,
  validate orc (SDict es extra) (PDict items) = Ret (PDict out) -> In (k, y) out ->
  exists s x, In (k, x) (items ++ defaults_for es items) /\ lookup_schema extra es k = Some s /\ validate orc s x = Ret y.
Proof. exact accepted_entries_origin. Qed.
Print Assumptions C20_exposed_entries_are_validated_inputs.

Theorem C20_filters_return_their_input : forall orc s, is_filter s = true ->
  forall v v', validate orc s v = Ret v' -> v' = v.
Proof. exact filter_same. Qed.
Print Assumptions C20_filters_return_their_input.

Theorem C20_kwargs_dict_equiv : forall orc s registered kw,
  init_config orc s registered None kw = init_config orc s registered (Some (PDict kw)) [].
Proof. exact kwargs_dict_equiv. Qed.
Print Assumptions C20_kwargs_dict_equiv.

(* ---------------------------------------------------------------------------------------------- *)
(* re-validation                                                                                    *)
(* ---------------------------------------------------------------------------------------------- *)
Theorem C20_revalidation_idempotent_mapping : forall orc es extra,
  Forall (fun e => Idem orc (de_schema e)) es -> opt_idem orc extra -> Idem orc (SDict es extra).
Proof. exact idem_dict. Qed.
Print Assumptions C20_revalidation_idempotent_mapping.

Theorem C20_answers_normal_form_is_fixed_point : forall orc es sok,
  Idem orc (SDict es None) -> lookup_schema None es (PStr (zs "ok")) = Some sok ->
  (forall y, In y ok_values -> validate orc sok y = Ret y) ->
  Idem orc (SSingleAnswer (SDict es None)).
Proof. exact idem_single_answer. Qed.
Print Assumptions C20_answers_normal_form_is_fixed_point.

(* every class of the library, every configuration, every default comparer: validating the validated configuration
   again returns it unchanged (PercentageString is assumed to return a string it maps to itself) *)
Theorem C20_revalidation_idempotent_every_class : forall orc,
  (forall v v', orc 1%Z v = Ret v' -> orc 1%Z v' = Ret v') ->
  forall name tags sch dc cfg cfg',
    In (name, tags, sch) Schemas.gen_classes ->
    validate_config orc (sch dc) cfg = Ret cfg' -> validate_config orc (sch dc) cfg' = Ret cfg'.
Proof. exact class_config_idem. Qed.
Print Assumptions C20_revalidation_idempotent_every_class.

(* the regenerated combinators, for every parameter (through Bridge/Schemas.v) *)
Theorem C20_number_range_idempotent : forall orc t, Idem orc (Schemas.gen_NumberRange t).
Proof. exact gen_number_range_idem. Qed.
Print Assumptions C20_number_range_idempotent.

Theorem C20_shape_specification_idempotent : forall orc lo hi, Idem orc (Schemas.gen_is_shape_specification lo hi).
Proof. exact gen_shape_specification_idem. Qed.
Print Assumptions C20_shape_specification_idempotent.

Theorem C20_tuple_of_type_idempotent : forall orc ts, Idem orc (Schemas.gen_TupleOfType ts None).
Proof. exact gen_tuple_of_type_idem. Qed.
Print Assumptions C20_tuple_of_type_idempotent.

(* ---------------------------------------------------------------------------------------------- *)
(* defaults and domains of the regenerated schemas                                                  *)
(* ---------------------------------------------------------------------------------------------- *)
Theorem C20_defaults_match_documentation : forallb doc_row_ok (doc_table gen_obj) = true.
Proof. exact defaults_match_documentation. Qed.
Print Assumptions C20_defaults_match_documentation.

Theorem C20_every_class_documented :
  forallb (fun row => existsb (fun d => str_eqb (fst (fst d)) (fst (fst row))) (doc_table gen_obj)
                      || existsb (str_eqb (fst (fst row))) positional_classes) Schemas.gen_classes = true.
Proof. exact every_class_documented. Qed.
Print Assumptions C20_every_class_documented.

Theorem C20_positive_int_domain : forall orc v,
  accepts orc (Schemas.gen_Positive TInt) v <-> (exists z, v = PInt z /\ (1 <= z)%Z) \/ v = PBool true.
Proof. exact positive_int_domain. Qed.
Print Assumptions C20_positive_int_domain.

Theorem C20_nonnegative_int_domain : forall orc v,
  accepts orc (Schemas.gen_NonNegative TInt) v <-> (exists z, v = PInt z /\ (0 <= z)%Z) \/ (exists b, v = PBool b).
Proof. exact nonnegative_int_domain. Qed.
Print Assumptions C20_nonnegative_int_domain.

Theorem C20_formula_samples_is_positive_int : forall dc,
  option_schema (Schemas.gen_schema_FormulaGrader dc) "samples" = Some (Schemas.gen_Positive TInt).
Proof. exact formula_samples_is_positive_int. Qed.
Print Assumptions C20_formula_samples_is_positive_int.

Theorem C20_string_min_length_is_nonnegative_int : forall dc,
  option_schema (Schemas.gen_schema_StringGrader dc) "min_length" = Some (Schemas.gen_NonNegative TInt).
Proof. exact string_min_length_is_nonnegative_int. Qed.
Print Assumptions C20_string_min_length_is_nonnegative_int.

Theorem C20_linear_credit_after_is_positive_int : forall dc,
  option_schema (Schemas.gen_schema_LinearCredit dc) "decrease_credit_after" = Some (Schemas.gen_Positive TInt).
Proof. exact linear_credit_after_is_positive_int. Qed.
Print Assumptions C20_linear_credit_after_is_positive_int.

(* ---------------------------------------------------------------------------------------------- *)
(* the error class of a refusal                                                                     *)
(* ---------------------------------------------------------------------------------------------- *)
(* FULL: for every class of the library, every value given as configuration, every default comparer: a refusal
   by validate_config is voluptuous.Error (a validation error).  (Range/Length report unorderable/unsized
   values as Invalid since fix 9e7ee91; number ranges admit reals only since 49c25d3.)  The ConfigErrors of the
   cross-option rules are the theorems of the next section. *)
Theorem C20_guarded_schema_refusal_is_validation_error : forall orc,
  (forall id v e, orc id v = Raise e -> e = EInvalid) ->
  forall s v e, guarded s = true -> validate_config orc s v = Raise e -> e = EVError.
Proof. exact guarded_refusal_is_validation_error. Qed.
Print Assumptions C20_guarded_schema_refusal_is_validation_error.

Theorem C20_refusal_is_validation_error : forall orc name tags sch dc cfg e,
  (forall id v e, orc id v = Raise e -> e = EInvalid) ->
  In (name, tags, sch) Schemas.gen_classes ->
  validate_config orc (sch dc) cfg = Raise e -> e = EVError.
Proof. exact class_refusal_is_validation_error. Qed.
Print Assumptions C20_refusal_is_validation_error.

(* the witnesses of the repaired defects, kept as regression cases *)
Example C20_ex_repaired_witnesses_are_validation_errors :
  validate_config doc_orc (Schemas.gen_schema_LinearComparer PNone) (PDict [(PStr (zs "equals"), PStr (zs "a"))]) = Raise EVError
  /\ validate_config doc_orc (Schemas.gen_schema_NumericalGrader PNone) (PDict [(PStr (zs "variables"), PInt 5)]) = Raise EVError
  /\ validate_config doc_orc (Schemas.gen_schema_FormulaGrader PNone) (PDict [(PStr (zs "tolerance"), a_complex_number)]) = Raise EVError
  /\ validate_config doc_orc (Schemas.gen_schema_RealInterval PNone) (PDict [(PStr (zs "start"), a_complex_number)]) = Raise EVError
  /\ validate_config doc_orc (Schemas.gen_schema_RealInterval PNone) (PList [a_complex_number; PInt 2]) = Raise EVError.
Proof. exact repaired_witnesses_are_validation_errors. Qed.
Print Assumptions C20_ex_repaired_witnesses_are_validation_errors.

(* ---------------------------------------------------------------------------------------------- *)
(* cross-option rules                                                                               *)
(* ---------------------------------------------------------------------------------------------- *)
Theorem C20_math_rules_accept_iff : forall orc dfuncs dvars sf_default sf_value c uc out dvars' c1 sup,
  cfg_get "user_constants" c = PDict uc ->
  dvars' = filter (fun d => negb (name_in d (removed_constants uc))) dvars ->
  c1 = dict_set (zs "user_constants") (PDict (kept_constants uc)) c ->
  sup = truthy (cfg_get "suppress_warnings" c1) ->
  (math_rules orc dfuncs dvars sf_default sf_value (PDict c) = Ret out <->
   whitelist_blacklist_ok dfuncs (cfg_get "blacklist" c) (cfg_get "whitelist" c) = true
   /\ override_ok sup (cfg_get "variables" c1) dvars' = true
   /\ override_ok sup (cfg_get "numbered_vars" c1) dvars' = true
   /\ override_ok sup (cfg_get "user_constants" c1) dvars' = true
   /\ override_ok sup (cfg_get "user_functions" c1) dfuncs = true
   /\ no_collision (cfg_get "variables" c1) (cfg_get "user_constants" c1) = true
   /\ exists sf, validate orc (sample_from_schema sf_default sf_value
                                 (names_of (cfg_get "variables" c1) ++ names_of (cfg_get "numbered_vars" c1)))
                          (cfg_get "sample_from" c1) = Ret sf
                 /\ out = PDict (dict_set (zs "sample_from") sf c1)).
Proof. exact math_rules_accept_iff. Qed.
Print Assumptions C20_math_rules_accept_iff.

Theorem C20_exposed_user_constants_have_no_none : forall orc dfuncs dvars sf_default sf_value c uc out,
  cfg_get "user_constants" c = PDict uc ->
  math_rules orc dfuncs dvars sf_default sf_value (PDict c) = Ret out ->
  exists c', out = PDict c' /\ cfg_get "user_constants" c' = PDict (kept_constants uc)
             /\ forall k v, In (k, v) (kept_constants uc) -> v <> PNone /\ In (k, v) uc.
Proof. exact math_rules_prunes_none_constants. Qed.
Print Assumptions C20_exposed_user_constants_have_no_none.

Theorem C20_whitelist_blacklist_spec : forall dfuncs bl wl,
  whitelist_blacklist_ok dfuncs bl wl = true <->
  (~ (truthy bl = true /\ truthy wl = true))
  /\ (forall f, In f (names_of bl) -> name_in f dfuncs = true)
  /\ (py_eqb wl (PList [PNone]) = true \/ forall f, In f (names_of wl) -> name_in f dfuncs = true).
Proof. exact whitelist_blacklist_spec. Qed.
Print Assumptions C20_whitelist_blacklist_spec.

Theorem C20_no_simultaneous_whitelist_and_blacklist : forall orc dfuncs dvars sf_default sf_value c,
  truthy (cfg_get "blacklist" c) = true -> truthy (cfg_get "whitelist" c) = true ->
  math_rules orc dfuncs dvars sf_default sf_value (PDict c) = Raise EConfig.
Proof. exact both_lists_is_config_error. Qed.
Print Assumptions C20_no_simultaneous_whitelist_and_blacklist.

Theorem C20_override_needs_suppress_spec : forall suppress entries defaults,
  override_ok suppress entries defaults = true <->
  (suppress = true \/ forall d, In d defaults -> name_in d (names_of entries) = false).
Proof. exact override_spec. Qed.
Print Assumptions C20_override_needs_suppress_spec.

Theorem C20_no_collisions_spec : forall a b,
  no_collision a b = true <-> forall x, In x (names_of a) -> name_in x (names_of b) = false.
Proof. exact no_collision_spec. Qed.
Print Assumptions C20_no_collisions_spec.

Theorem C20_unordered_lists_only_with_single_subgrader : forall cl c norm out first rest sl,
  list_rules cl (PDict c) norm = Ret out ->
  shape_of_answers (cfg_get "answers" c) = ALists (first :: rest) ->
  cfg_get "subgraders" c = PList sl ->
  truthy (cfg_get "ordered" c) = true /\ List.length sl = py_length first
  /\ forall l, In l rest -> py_length l = py_length first.
Proof. exact list_rules_unordered_single_subgrader. Qed.
Print Assumptions C20_unordered_lists_only_with_single_subgrader.

Theorem C20_single_answer_list_refused : forall cl c norm a,
  cfg_get "answers" c = PList [a] -> list_rules cl (PDict c) norm = Raise EConfig.
Proof. exact list_rules_single_answer_refused. Qed.
Print Assumptions C20_single_answer_list_refused.

Theorem C20_grouping_contiguous_spec : forall g,
  grouping_contiguous g = true <->
  (forall z, In z g -> (1 <= z)%Z) /\ (forall k, (1 <= k <= zmax_list g)%Z -> In k g).
Proof. exact grouping_contiguous_spec. Qed.
Print Assumptions C20_grouping_contiguous_spec.

Theorem C20_accepted_grouping_is_checked : forall cl c norm out g0 g,
  list_rules cl (PDict c) norm = Ret out -> cfg_get "grouping" c = PList (g0 :: g) ->
  grouping_ok cl (truthy (cfg_get "ordered" c)) (cfg_get "subgraders" c) (group_numbers (g0 :: g)) = true.
Proof. exact list_rules_grouping. Qed.
Print Assumptions C20_accepted_grouping_is_checked.

Theorem C20_grouping_matches_subgraders : forall cl ordered subs g,
  grouping_ok cl ordered subs g = true ->
  grouping_contiguous g = true
  /\ (ordered = false -> all_same_nat (group_sizes g) = true)
  /\ match subs with
     | PList sl => List.length (group_sizes g) = List.length sl
                   /\ forall n s, In (n, s) (combine (group_sizes g) sl) -> (n <= 1)%nat \/ has_tag cl s = true
     | s => has_tag cl s = true
     end.
Proof. exact grouping_ok_spec. Qed.
Print Assumptions C20_grouping_matches_subgraders.

Theorem C20_nested_delimiters_distinct_spec : forall chain seen,
  delimiters_distinct seen chain = true <->
  forall pre d post, chain = pre ++ d :: post -> name_in d (seen ++ pre) = false.
Proof. exact delimiters_distinct_spec. Qed.
Print Assumptions C20_nested_delimiters_distinct_spec.

Theorem C20_same_nested_delimiter_refused : forall cl c tags sc,
  cfg_get "subgrader" c = PObj tags (PDict sc) -> existsb (Z.eqb cl) tags = true ->
  py_eqb (cfg_get "delimiter" sc) (cfg_get "delimiter" c) = true ->
  single_list_rules cl (PDict c) = Raise EConfig.
Proof. exact same_delimiter_refused. Qed.
Print Assumptions C20_same_nested_delimiter_refused.

(* rebuilding from the exposed configuration: REFUTED at constructor level.  FormulaGrader(variables=['pi'],
   user_constants={'pi': None}) is accepted; the configuration it exposes has lost the None entry and is refused *)
Example C20_rebuild_from_config_refuted_deleted_constant :
  match gen_math_rules cfg_deleted_constant with
  | Ret out => gen_math_rules out = Raise EConfig
  | Raise _ => False
  end.
Proof. exact deleted_constant_not_rebuildable. Qed.
Print Assumptions C20_rebuild_from_config_refuted_deleted_constant.

(* ---------------------------------------------------------------------------------------------- *)
(* non-vacuity                                                                                      *)
(* ---------------------------------------------------------------------------------------------- *)
Example C20_ex_answers_normal_form :
  string_grader_answers (PTuple [PStr (zs "cat");
                                 PDict [(PStr (zs "expect"), PTuple [PStr (zs "a"); PStr (zs "b")]);
                                        (PStr (zs "grade_decimal"), PFloat (1 # 2))]])
  = Some (PTuple [PDict [(PStr (zs "expect"), PTuple [PStr (zs "cat")]); (PStr (zs "ok"), PBool true);
                         (PStr (zs "grade_decimal"), PInt 1); (PStr (zs "msg"), PStr [])];
                  PDict [(PStr (zs "expect"), PTuple [PStr (zs "a"); PStr (zs "b")]);
                         (PStr (zs "grade_decimal"), PFloat (1 # 2));
                         (PStr (zs "msg"), PStr []); (PStr (zs "ok"), PStr (zs "partial"))]]).
Proof. exact answers_normal_form_example. Qed.
Print Assumptions C20_ex_answers_normal_form.

Example C20_ex_unknown_option :
  validate_config doc_orc (Schemas.gen_schema_StringGrader PNone) (PDict [(PStr (zs "not_an_option"), PInt 1)]) = Raise EVError.
Proof. exact unknown_option_example. Qed.
Print Assumptions C20_ex_unknown_option.
