From Coq Require Import ZArith List.
From Verif.Model Require Import Result Lexer Parser Eval.
From Verif.Bridge Require Import EvalTables.
Theorem C03_placeholder : True.
Proof. exact I. Qed.
