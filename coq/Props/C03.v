(* Props/C03.v -- formula strings evaluate to the value mathematics assigns them.
   Only statements, `exact lemma`, Print Assumptions and Examples.  All theorems are about the executable
   model (Model/Lexer.v, Model/Parser.v, Model/Eval.v), which is tied to MathParser / evaluator() by the
   differential correspondence of harness/props/c03.py on every run, and to the declarative tables of the
   source by Gen/EvalTables.v + Bridge/EvalTables.v. *)
From Coq Require Import ZArith QArith List Bool.
From Verif.Model Require Import Result Lexer Parser Eval EvalSpec ParserGrammar EvalTables.
From Verif.Gen Require EvalTables.
From Verif.Bridge Require Import EvalTables.
From Verif.Proofs Require Import ParserRoundTrip EvalFlatten ParserSound ParserReject EvalFrontDoor LexerLemmas LexerPrint RenderString.
Import ListNotations.

(* ---- the grammar assigns the documented structure ------------------------------------------------
   For EVERY derivation e of the documented grammar (any size, any nesting): parsing its rendering -- which
   contains only the parentheses that the documented precedence and associativity require, plus the explicit
   redundant ones of e -- yields exactly flatten e: '^' tightest and right-associative with an optional sign
   on the exponent, then unary minus, then '||', then '*' '/' (left), then '+' '-' (left). *)
Theorem C03_parse_render : forall e, wf_expr e = true -> parse_tokens (render e) = Some (flatten e).
Proof. exact parse_render. Qed.
Print Assumptions C03_parse_render.

(* the parser is a left inverse of printing on every tree the grammar can produce *)
Theorem C03_parse_print : forall t, wfb t = true -> parse_tokens (print t) = Some t.
Proof. exact parse_print. Qed.
Print Assumptions C03_parse_print.

(* ---- evaluating the flat tree gives the documented recursive semantics ----------------------------
   (same successful values; only which of two errors is reported first may differ) *)
Theorem C03_eval_flatten : forall E e v, wf_expr e = true ->
  (eval E (flatten e) = Ok v <-> denote E e = Ok v).
Proof. exact (fun E e v H => eval_flatten E e H v). Qed.
Print Assumptions C03_eval_flatten.

Theorem C03_eval_parse_render : forall E e v, wf_expr e = true ->
  ((exists t, parse_tokens (render e) = Some t /\ eval E t = Ok v) <-> denote E e = Ok v).
Proof. exact eval_parse_render. Qed.
Print Assumptions C03_eval_parse_render.

(* redundant parentheses do not change the value *)
Theorem C03_redundant_parentheses : forall E e, denote E (strip_parens e) = denote E e.
Proof. exact denote_strip_parens. Qed.
Print Assumptions C03_redundant_parentheses.

(* ---- THE STRING-LEVEL STATEMENT ---------------------------------------------------------------------
   For every derivation e of the documented grammar (numbers in any literal format the lexer produces, with
   or without suffix; plain / subscripted / tensor-indexed / primed names; functions; arrays; + - * / ^ ||,
   unary minus, parentheses), every scope E in which its names are defined, and EVERY rendering s of e --
   the canonical tokens (only the parentheses the documented precedence and associativity require, plus any
   redundant ones e carries), arbitrary TAB / LF / CR runs before, between and after the tokens, spaces
   anywhere (also inside tokens) -- the front door evaluates s to exactly the documented value of e. *)
Theorem C03_evaluator_rendering : forall E e seps s v,
  wf_expr e = true -> Forall valid_token (render e) -> Forall (fun w => forallb is_ws w = true) seps ->
  strip_spaces (py_strip s) = spaced seps (render e) ->
  check_scope E (flatten e) = None ->
  (evaluator E None (Some s) = OVal v <-> denote E e = Ok v).
Proof. exact evaluator_rendering. Qed.
Print Assumptions C03_evaluator_rendering.

Theorem C03_parse_formula_rendering : forall t seps s,
  wfb t = true -> Forall valid_token (print t) -> Forall (fun w => forallb is_ws w = true) seps ->
  strip_spaces s = spaced seps (print t) -> parse_formula s = PTree t.
Proof. exact parse_formula_rendering. Qed.
Print Assumptions C03_parse_formula_rendering.

(* tabs and line breaks between tokens: the lexer gives back the very tokens *)
Theorem C03_tabs_between_tokens : forall ts seps,
  Forall (fun w => forallb is_ws w = true) seps -> Forall valid_token ts -> sep_ok ts = true ->
  lex (spaced seps ts) = Some ts.
Proof. exact lex_spaced. Qed.
Print Assumptions C03_tabs_between_tokens.

(* a character outside the formula alphabet, anywhere in a string of any length: no tree *)
Theorem C03_reject_foreign_char : forall s1 c s2,
  lex_char_ok c = false -> c <> ch_space ->
  parse_formula (s1 ++ c :: s2) = PUnparsable \/ exists e, parse_formula (s1 ++ c :: s2) = PUnbalanced e.
Proof. exact parse_formula_foreign. Qed.
Print Assumptions C03_reject_foreign_char.

(* ---- the accepted token lists are exactly the prints of well-formed trees (no ambiguity) --------- *)
Theorem C03_parse_tokens_iff : forall ts t, parse_tokens ts = Some t <-> (ts = print t /\ wfb t = true).
Proof. exact parse_tokens_iff. Qed.
Print Assumptions C03_parse_tokens_iff.

(* ---- spaces anywhere; blank input; the front door ------------------------------------------------ *)
Theorem C03_spaces_irrelevant : forall E md s s',
  strip_spaces s = strip_spaces s' -> evaluator E md (Some s) = evaluator E md (Some s').
Proof. exact evaluator_spaces. Qed.
Print Assumptions C03_spaces_irrelevant.

Theorem C03_insert_spaces_anywhere : forall a b n,
  parse_formula (a ++ repeat ch_space n ++ b) = parse_formula (a ++ b).
Proof. exact parse_formula_insert_spaces. Qed.
Print Assumptions C03_insert_spaces_anywhere.

Theorem C03_redundant_parens_tokens : forall E ts t, parse_tokens ts = Some t ->
  parse_tokens (TLP :: ts ++ [TRP]) = Some (Paren t) /\ eval E (Paren t) = eval E t.
Proof. exact redundant_parens_tokens. Qed.
Print Assumptions C03_redundant_parens_tokens.

Theorem C03_front_door_none : forall E md, evaluator E md None = ONan.
Proof. exact evaluator_none. Qed.
Print Assumptions C03_front_door_none.

Theorem C03_front_door_blank : forall E md s, forallb is_pyspace s = true -> evaluator E md (Some s) = ONan.
Proof. exact evaluator_blank. Qed.
Print Assumptions C03_front_door_blank.

Theorem C03_front_door_max_array_dim : forall E d s c r t v,
  py_strip s = c :: r -> parse_formula (c :: r) = PTree t -> check_scope E t = None -> eval E t = Ok v ->
  evaluator E (Some d) (Some s) = if (d <? max_dim_used E t)%nat then OParseError PETooManyDims else OVal v.
Proof. exact evaluator_max_array_dim. Qed.
Print Assumptions C03_front_door_max_array_dim.

Theorem C03_front_door_unparsable : forall E md s c r,
  py_strip s = c :: r -> parse_formula (c :: r) = PUnparsable -> evaluator E md (Some s) = OParseError PEUnparsable.
Proof. exact evaluator_unparsable. Qed.
Print Assumptions C03_front_door_unparsable.

(* ---- names resolve exactly (case-sensitively); numbers and suffixes ------------------------------- *)
Theorem C03_undefined_variable_rejected : forall E t n,
  In n (vars_of t) -> venv E n = None -> check_scope E t = Some EUndefVar.
Proof. exact undefined_variable_rejected. Qed.
Print Assumptions C03_undefined_variable_rejected.

Theorem C03_undefined_function_rejected : forall E t n,
  forallb (defined (venv E)) (vars_of t) = true ->
  In n (funcs_of t) -> fenv E n = None -> check_scope E t = Some EUndefFun.
Proof. exact undefined_function_rejected. Qed.
Print Assumptions C03_undefined_function_rejected.

Theorem C03_names_case_sensitive : forall (A : Type) (l : list (str * A)) m n v,
  m <> n -> assoc ((m, v) :: l) n = assoc l n.
Proof. exact assoc_other_name. Qed.
Print Assumptions C03_names_case_sensitive.

Theorem C03_suffix_scaling : forall E x u q m,
  numeral_value x = Some q -> senv E u = Some m -> cfinite (creal (Qred (q * m))) = true ->
  eval E (Num x (Some u)) = Ok (VS (creal (Qred (q * m)))).
Proof. exact suffix_scaling. Qed.
Print Assumptions C03_suffix_scaling.

(* ---- strings outside the grammar are rejected (token lists of ANY length) --------------------------- *)
Theorem C03_accepted_tokens_ok : forall ts t, parse_tokens ts = Some t -> tokens_ok ts = true.
Proof. exact accepted_tokens_ok. Qed.
Print Assumptions C03_accepted_tokens_ok.

Theorem C03_reject_double_binop : forall ts1 ts2 o1 o2,
  is_binop o1 = true -> is_binop o2 = true -> o2 <> TMinus -> (o1, o2) <> (TPipe, TPipe) ->
  parse_tokens (ts1 ++ o1 :: o2 :: ts2) = None.
Proof. exact reject_double_binop. Qed.
Print Assumptions C03_reject_double_binop.

Theorem C03_reject_trailing_op : forall ts o, is_binop o = true -> parse_tokens (ts ++ [o]) = None.
Proof. exact reject_trailing_op. Qed.
Print Assumptions C03_reject_trailing_op.

Theorem C03_reject_leading_binop : forall ts o, is_binop o = true -> o <> TMinus -> o <> TPlus ->
  parse_tokens (o :: ts) = None.
Proof. exact reject_leading_binop. Qed.
Print Assumptions C03_reject_leading_binop.

Theorem C03_reject_juxtaposition : forall ts1 ts2 a b,
  operand_end a = true -> atom_start b = true -> (forall n, (a, b) <> (TName n, TLP)) ->
  parse_tokens (ts1 ++ a :: b :: ts2) = None.
Proof. exact reject_juxtaposition. Qed.
Print Assumptions C03_reject_juxtaposition.

Theorem C03_reject_empty_parens : forall ts1 ts2, parse_tokens (ts1 ++ TLP :: TRP :: ts2) = None.
Proof. exact reject_empty_parens. Qed.
Print Assumptions C03_reject_empty_parens.

Theorem C03_reject_empty_array : forall ts1 ts2, parse_tokens (ts1 ++ TLB :: TRB :: ts2) = None.
Proof. exact reject_empty_array. Qed.
Print Assumptions C03_reject_empty_array.

Theorem C03_reject_empty_args : forall ts1 ts2 a b,
  (a, b) = (TLP, TComma) \/ (a, b) = (TLB, TComma) \/ (a, b) = (TComma, TComma)
  \/ (a, b) = (TComma, TRP) \/ (a, b) = (TComma, TRB) ->
  parse_tokens (ts1 ++ a :: b :: ts2) = None.
Proof. exact reject_empty_args. Qed.
Print Assumptions C03_reject_empty_args.

Theorem C03_reject_double_sign : forall ts, parse_tokens (TMinus :: TMinus :: ts) = None.
Proof. exact reject_double_sign_leading. Qed.
Print Assumptions C03_reject_double_sign.

Theorem C03_reject_double_sign_on_exponent : forall x s n ts,
  parse_tokens (TNum x s :: TCaret :: TMinus :: TMinus :: ts) = None
  /\ parse_tokens (TName n :: TCaret :: TMinus :: TMinus :: ts) = None.
Proof. exact (fun x s n ts => conj (reject_double_sign_exponent_num x s ts) (reject_double_sign_exponent_name n ts)). Qed.
Print Assumptions C03_reject_double_sign_on_exponent.

Theorem C03_reject_empty_input : parse_tokens [] = None.
Proof. exact reject_empty. Qed.
Print Assumptions C03_reject_empty_input.

(* ---- tie A: the grammar regenerated from the source has the documented precedence chain ------------ *)
Theorem C03_precedence_chain_of_source :
  precedence_chain Gen.EvalTables.gen_grammar = documented_levels.
Proof. exact precedence_chain_bridge. Qed.
Print Assumptions C03_precedence_chain_of_source.

(* ---- non-vacuity: concrete strings through the whole model (lexer, parser, evaluator) ------------ *)
From Verif.Proofs Require Import EvalExamples.
(* -2^2 *)
Example C03_ex_neg_pow : value_of [45;50;94;50]%Z = Some ((-4)#1, 0).
Proof. exact ex_neg_pow. Qed.
(* 2^-2^2 *)
Example C03_ex_pow_right_assoc_signed : value_of [50;94;45;50;94;50]%Z = Some (1#16, 0).
Proof. exact ex_pow_right_assoc_signed. Qed.
(* 2^3^2 *)
Example C03_ex_pow_right_assoc : value_of [50;94;51;94;50]%Z = Some (512#1, 0).
Proof. exact ex_pow_right_assoc. Qed.
(* 8/4*2 *)
Example C03_ex_product_left_assoc : value_of [56;47;52;42;50]%Z = Some (4#1, 0).
Proof. exact ex_product_left_assoc. Qed.
(* 10-4-3 *)
Example C03_ex_sum_left_assoc : value_of [49;48;45;52;45;51]%Z = Some (3#1, 0).
Proof. exact ex_sum_left_assoc. Qed.
(* 1--1 *)
Example C03_ex_minus_minus : value_of [49;45;45;49]%Z = Some (2#1, 0).
Proof. exact ex_minus_minus. Qed.
(* 2*-3^2 *)
Example C03_ex_times_neg_pow : value_of [50;42;45;51;94;50]%Z = Some ((-18)#1, 0).
Proof. exact ex_times_neg_pow. Qed.
(* 3*2||2 *)
Example C03_ex_parallel_binds_tighter_than_product : value_of [51;42;50;124;124;50]%Z = Some (3#1, 0).
Proof. exact ex_parallel_binds_tighter_than_product. Qed.
(* 4||-2 *)
Example C03_ex_parallel_weaker_than_negation : value_of [52;124;124;45;50]%Z = Some ((-4)#1, 0).
Proof. exact ex_parallel_weaker_than_negation. Qed.
(* 0||5 *)
Example C03_ex_parallel_zero : value_of [48;124;124;53]%Z = Some (0#1, 0).
Proof. exact ex_parallel_zero. Qed.
(* (1+2)*3 *)
Example C03_ex_parens_override : value_of [40;49;43;50;41;42;51]%Z = Some (9#1, 0).
Proof. exact ex_parens_override. Qed.
(* 7\u20142 *)
Example C03_ex_emdash_is_minus : value_of [55;8212;50]%Z = Some (5#1, 0).
Proof. exact ex_emdash_is_minus. Qed.
(*  1 0 +\t2\n *)
Example C03_ex_spaces_tabs : value_of [32;49;32;48;32;43;9;50;10]%Z = Some (12#1, 0).
Proof. exact ex_spaces_tabs. Qed.
(* 1.5e-1+2E1+.5+5. *)
Example C03_ex_scientific : value_of [49;46;53;101;45;49;43;50;69;49;43;46;53;43;53;46]%Z = Some (513#20, 0).
Proof. exact ex_scientific. Qed.
(* 50% *)
Example C03_ex_percent : value_of [53;48;37]%Z = Some (1#2, 0).
Proof. exact ex_percent. Qed.
(* 2k+3m *)
Example C03_ex_metric : value_of [50;107;43;51;109]%Z = Some (2000003#1000, 0).
Proof. exact ex_metric. Qed.
(* x+X *)
Example C03_ex_names_case : value_of [120;43;88]%Z = Some (8#1, 0).
Proof. exact ex_names_case. Qed.
(* i^2 *)
Example C03_ex_complex_unit : value_of [105;94;50]%Z = Some ((-1)#1, 0).
Proof. exact ex_complex_unit. Qed.
(* z*z *)
Example C03_ex_complex_binding : value_of [122;42;122]%Z = Some ((-3)#1, 4#1).
Proof. exact ex_complex_binding. Qed.
(* f(x,2) *)
Example C03_ex_function_call : value_of [102;40;120;44;50;41]%Z = Some (7#1, 0).
Proof. exact ex_function_call. Qed.
(* T_{1}^{2}'+1 *)
Example C03_ex_tensor_name : value_of [84;95;123;49;125;94;123;50;125;39;43;49]%Z = Some (10#1, 0).
Proof. exact ex_tensor_name. Qed.
(* 1++2 *)
Example C03_ex_rejected_0 : rejected [49;43;43;50]%Z = true.
Proof. exact ex_rejected_0. Qed.
(* 1**2 *)
Example C03_ex_rejected_1 : rejected [49;42;42;50]%Z = true.
Proof. exact ex_rejected_1. Qed.
(* 2(3) *)
Example C03_ex_rejected_2 : rejected [50;40;51;41]%Z = true.
Proof. exact ex_rejected_2. Qed.
(* (2)(3) *)
Example C03_ex_rejected_3 : rejected [40;50;41;40;51;41]%Z = true.
Proof. exact ex_rejected_3. Qed.
(* x\ty *)
Example C03_ex_rejected_4 : rejected [120;9;121]%Z = true.
Proof. exact ex_rejected_4. Qed.
(* () *)
Example C03_ex_rejected_5 : rejected [40;41]%Z = true.
Proof. exact ex_rejected_5. Qed.
(* f() *)
Example C03_ex_rejected_6 : rejected [102;40;41]%Z = true.
Proof. exact ex_rejected_6. Qed.
(* f(1,) *)
Example C03_ex_rejected_7 : rejected [102;40;49;44;41]%Z = true.
Proof. exact ex_rejected_7. Qed.
(* [1,,2] *)
Example C03_ex_rejected_8 : rejected [91;49;44;44;50;93]%Z = true.
Proof. exact ex_rejected_8. Qed.
(* 1+ *)
Example C03_ex_rejected_9 : rejected [49;43]%Z = true.
Proof. exact ex_rejected_9. Qed.
(* *1 *)
Example C03_ex_rejected_10 : rejected [42;49]%Z = true.
Proof. exact ex_rejected_10. Qed.
(* --1 *)
Example C03_ex_rejected_11 : rejected [45;45;49]%Z = true.
Proof. exact ex_rejected_11. Qed.
(* 2^--2 *)
Example C03_ex_rejected_12 : rejected [50;94;45;45;50]%Z = true.
Proof. exact ex_rejected_12. Qed.
(* 1#2 *)
Example C03_ex_rejected_13 : rejected [49;35;50]%Z = true.
Proof. exact ex_rejected_13. Qed.
(* 1 $ *)
Example C03_ex_rejected_14 : rejected [49;32;36]%Z = true.
Proof. exact ex_rejected_14. Qed.
(* (1 *)
Example C03_ex_rejected_15 : rejected [40;49]%Z = true.
Proof. exact ex_rejected_15. Qed.
(* 1) *)
Example C03_ex_rejected_16 : rejected [49;41]%Z = true.
Proof. exact ex_rejected_16. Qed.
(* (1] *)
Example C03_ex_rejected_17 : rejected [40;49;93]%Z = true.
Proof. exact ex_rejected_17. Qed.
(* x_{1 *)
Example C03_ex_rejected_18 : rejected [120;95;123;49]%Z = true.
Proof. exact ex_rejected_18. Qed.
(* 1|2 *)
Example C03_ex_rejected_19 : rejected [49;124;50]%Z = true.
Proof. exact ex_rejected_19. Qed.
(* 2\t3 *)
Example C03_ex_rejected_20 : rejected [50;9;51]%Z = true.
Proof. exact ex_rejected_20. Qed.
(* 1.2.3 *)
Example C03_ex_rejected_21 : rejected [49;46;50;46;51]%Z = true.
Proof. exact ex_rejected_21. Qed.
(* \xd72 *)
Example C03_ex_rejected_22 : rejected [215;50]%Z = true.
Proof. exact ex_rejected_22. Qed.
Example C03_ex_case_undefined : evaluator ex_env None (Some [90;43;49]%Z) = OError EUndefVar.
Proof. exact ex_case_undefined. Qed.
Example C03_ex_blank_is_nan : evaluator ex_env None (Some [32;9;32]%Z) = ONan.
Proof. exact ex_blank_is_nan. Qed.
Example C03_ex_matrix_forbidden : evaluator ex_env (Some 1%nat) (Some [91;91;49;44;50;93;44;91;51;44;52;93;93]%Z) = OParseError PETooManyDims.
Proof. exact ex_matrix_forbidden. Qed.
Example C03_ex_division_by_zero : evaluator ex_env None (Some [49;47;40;120;45;51;41]%Z) = OError EDivZero.
Proof. exact ex_division_by_zero. Qed.
Example C03_ex_render : wf_expr ex_expr = true /\ print_tokens (render ex_expr) = [50;42;45;120;94;45;50;94;51;45;52;124;124;40;49;43;51;41]%Z.
Proof. exact ex_render. Qed.

(* the hypotheses of C03_evaluator_rendering are satisfiable with rich leaf texts:
   " 2.5 E-1%<TAB>*<LF> -x_{ 1}'^2<CR> "  is a rendering of  2.5E-1% * -(x_{1}' ^ 2) *)
Example C03_ex_rendering_hypotheses :
  wf_expr ex_r_expr = true /\ Forall valid_token (render ex_r_expr)
  /\ Forall (fun w => forallb is_ws w = true) ex_r_seps
  /\ strip_spaces (py_strip ex_r_string) = spaced ex_r_seps (render ex_r_expr).
Proof. exact ex_r_valid. Qed.
