(* Props/C16.v -- Each built-in comparer accepts exactly its documented equivalence class.
   Only statements, `exact lemma`, Examples.  Model: Model/Comparers.v (tied to the source by differential
   correspondence, harness/props/c16.py); numbers are Gaussian rationals; norm comparisons are made on squares
   (C16_norm_le_*_root / C16_mag_close_root say why that is the documented comparison);
   numpy.linalg.lstsq enters as its documented residual field `lstsq_spec` (an oracle in the model, recorded and
   checked against this specification on every run).  dist2 a b = |a - b|^2, norm2 a = |a|^2,
   tol2 tl r = (effective tolerance)^2 where a percentage tolerance is relative to a reference of squared norm r.

   All sub-statements are positive theorems of the code as repaired by the fix commits 2b5e28f (between: np.real),
   70bde6b (congruence: compares one modulus up and down), 8b36db6 (span: residual from the returned coefficients),
   c7560ea (LinearComparer equals/offset: norm of the difference), 521d2fc (LinearComparer: no checkable mode -> no
   credit); the earlier `_refuted` theorems about these defects are gone.  vector_span/phase take lstsq's returned
   coefficients as an argument; completeness is stated under lstsq's contract `minimiser` (soundness needs nothing). *)
From Coq Require Import ZArith QArith Qabs List Bool.
From Verif.Lib Require Import QRound.
From Verif.Model Require Import Result Comparers.
From Verif.Gen Require Comparers.
From Verif.Bridge Require Import Comparers.
From Verif.Proofs Require Import ComparersLA Comparers ComparersCredit ComparersDim.
Import ListNotations.
Open Scope Q_scope.

(* ------------------------------------------------------------------------------------------ *)
(* tolerance: comparing squares is comparing norms                                              *)
(* ------------------------------------------------------------------------------------------ *)
Theorem C16_norm_le_abs_root : forall x t ref2, 0 <= x ->
  (norm_le (TAbs t) ref2 (x * x) = true <-> 0 <= t /\ x <= t).
Proof. exact norm_le_abs_root. Qed.

Theorem C16_norm_le_pct_root : forall x n p, 0 <= x -> 0 <= n ->
  (norm_le (TPct p) (n * n) (x * x) = true <-> 0 <= p /\ x <= n * p).
Proof. exact norm_le_pct_root. Qed.

Theorem C16_mag_close_root : forall x y t, 0 <= x -> 0 <= y -> 0 <= t ->
  (mag_close (x * x) (y * y) (t * t) = true <-> Qabs (x - y) <= t).
Proof. exact mag_close_root. Qed.

(* ------------------------------------------------------------------------------------------ *)
(* between_comparer: accepted iff real and within the closed bounds                             *)
(* ------------------------------------------------------------------------------------------ *)
Theorem C16_between_iff : forall lo hi n,
  between_cmp lo hi n = CBool true <-> (snd (num_c n) == 0 /\ lo <= fst (num_c n) <= hi).
Proof. exact between_iff. Qed.

Theorem C16_between_nonreal_rejected : forall lo hi a b, ~ b == 0 ->
  between_cmp lo hi (NCplx a b) = CRaise (XInputType MsgMustBeReal).
Proof. exact between_nonreal. Qed.

(* ------------------------------------------------------------------------------------------ *)
(* congruence_comparer: accepted iff equal to the target modulo the modulus, within tolerance   *)
(* ------------------------------------------------------------------------------------------ *)
Theorem C16_congruence_iff : forall tl t m x, ~ m == 0 ->
  (cong_accept tl t m x <->
   tol_ok tl = true /\
   exists k : Z, (x - (t + inject_Z k * m)) * (x - (t + inject_Z k * m)) <= tol2 tl (qmod t m * qmod t m)).
Proof. exact congruence_iff. Qed.

Theorem C16_congruence_iff_abs : forall tau t m x, ~ m == 0 -> 0 <= tau ->
  (cong_accept (TAbs tau) t m x <-> exists k : Z, Qabs (x - (t + inject_Z k * m)) <= tau).
Proof. exact congruence_iff_abs. Qed.

Theorem C16_congruence_shift_invariant : forall tl t m x k, ~ m == 0 ->
  (cong_accept tl t m (x + inject_Z k * m) <-> cong_accept tl t m x).
Proof. exact congruence_shift_invariant. Qed.

Theorem C16_congruence_exact_members : forall tl t m k, ~ m == 0 -> tol_ok tl = true ->
  cong_accept tl t m (t + inject_Z k * m).
Proof. exact congruence_exact_members. Qed.

(* ------------------------------------------------------------------------------------------ *)
(* eigenvector_comparer: a nonzero v with M v = lambda v, under any rescaling                   *)
(* ------------------------------------------------------------------------------------------ *)
Theorem C16_eigenvector_model : forall d tl m lam v, length v = length m ->
  eigenvector_cmp (Some d) tl m lam (VVec v) = eigen_core tl m lam v.
Proof. exact eigen_cmp_core. Qed.

(* accepted iff not "zero within tolerance" and |M v - lambda v| within tolerance (percentage: of |M v|) *)
Theorem C16_eigenvector_iff : forall tl m lam v,
  eigen_accept tl m lam v <->
  norm_le tl 0 (norm2 v) = false /\ tol_ok tl = true /\
  dist2 (matvec m v) (cvscale lam v) <= tol2 tl (norm2 (matvec m v)).
Proof. exact eigenvector_iff. Qed.

Theorem C16_eigenvector_iff_exact : forall m lam v,
  eigen_accept (TAbs 0) m lam v <-> 0 < norm2 v /\ veq (matvec m v) (cvscale lam v).
Proof. exact eigenvector_iff_exact. Qed.

Theorem C16_eigenvector_exact_members_any_scale : forall tl m lam v c, tol_ok tl = true ->
  dist2 (matvec m v) (cvscale lam v) == 0 ->
  norm_le tl 0 (norm2 (cvscale c v)) = false ->
  eigen_accept tl m lam (cvscale c v).
Proof. exact eigenvector_exact_members. Qed.

Theorem C16_eigenvector_scale_invariant_pct : forall p m lam v c, 0 < cabs2 c ->
  (eigen_accept (TPct p) m lam (cvscale c v) <-> eigen_accept (TPct p) m lam v).
Proof. exact eigenvector_scale_invariant_pct. Qed.

(* ------------------------------------------------------------------------------------------ *)
(* least squares: the documented residual is the squared distance to the complex span            *)
(* ------------------------------------------------------------------------------------------ *)
Theorem C16_lstsq_residual_is_minimum : forall ws v,
  (forall cs : list C, cres2 ws v <= dist2 v (lincomb cs ws)) /\
  (exists cs : list C, dist2 v (lincomb cs ws) == cres2 ws v).
Proof. intros ws v. split; [exact (cres2_min_lincomb ws v) | exact (cres2_attained_lincomb ws v)]. Qed.

(* ------------------------------------------------------------------------------------------ *)
(* vector_span_comparer: a nonzero vector in the span, any complex coefficients                  *)
(* ------------------------------------------------------------------------------------------ *)
Theorem C16_rank_at_most_dimension : forall ws n, (forall w, In w ws -> (length w <= n)%nat) -> (crank ws <= n)%nat.
Proof. exact crank_le_dim. Qed.

Theorem C16_full_rank_spans_everything : forall ws v n, (forall w, In w ws -> (length w <= n)%nat) ->
  (length v <= n)%nat -> crank ws = n -> cres2 ws v == 0.
Proof. exact full_rank_square_spans. Qed.

Theorem C16_span_model : forall d tl lstsq (ws : list cvec) (v : cvec), ws <> [] ->
  Forall (fun w => length w = length v) ws ->
  vector_span_cmp (Some d) tl lstsq (map VVec ws) (VVec v) = span_core tl ws (lstsq ws v) v.
Proof. exact span_cmp_core. Qed.

(* FULL STATEMENT, for every family of spanning vectors -- dependent or not, any number of them -- under lstsq's
   contract (the returned coefficients minimise the residual; such coefficients always exist) *)
Theorem C16_span_iff : forall tl ws coeffs v, minimiser ws coeffs v ->
  (span_accept tl ws coeffs v <->
   norm_le tl 0 (norm2 v) = false /\ tol_ok tl = true /\
   exists cs : list C, dist2 v (lincomb cs ws) <= tol2 tl (norm2 v)).
Proof. exact span_iff. Qed.

Theorem C16_span_minimiser_exists : forall ws v, exists coeffs, minimiser ws coeffs v.
Proof. exact minimiser_exists. Qed.

(* whatever lstsq returns, nothing outside the class is accepted *)
Theorem C16_span_sound : forall tl ws coeffs v, span_accept tl ws coeffs v ->
  norm_le tl 0 (norm2 v) = false /\ tol_ok tl = true /\
  exists cs : list C, dist2 v (lincomb cs ws) <= tol2 tl (norm2 v).
Proof. exact span_sound. Qed.

Theorem C16_span_members : forall tl ws coeffs v cs, minimiser ws coeffs v -> tol_ok tl = true ->
  norm_le tl 0 (norm2 v) = false -> veq v (lincomb cs ws) -> span_accept tl ws coeffs v.
Proof. exact span_members. Qed.

(* ------------------------------------------------------------------------------------------ *)
(* vector_phase_comparer: the target times a unit-modulus phase                                  *)
(* ------------------------------------------------------------------------------------------ *)
Theorem C16_phase_model : forall d tl lstsq (t v : cvec), length v = length t ->
  vector_phase_cmp (Some d) tl lstsq [VVec t] (VVec v) = CBool (phase_decision tl t (lstsq [t] v) v).
Proof. exact phase_cmp_decision. Qed.

Theorem C16_phase_iff_exact : forall t coeffs v, minimiser [t] coeffs v -> 0 < norm2 t ->
  (phase_decision (TAbs 0) t coeffs v = true <-> exists u : C, cabs2 u == 1 /\ veq v (cvscale u t)).
Proof. exact phase_iff_exact. Qed.

Theorem C16_phase_members : forall tl t coeffs v u, minimiser [t] coeffs v -> tol_ok tl = true -> cabs2 u == 1 ->
  veq v (cvscale u t) -> phase_decision tl t coeffs v = true.
Proof. exact phase_members. Qed.

(* within tolerance: full statement would be accepted <-> exists unit u, |v - u t| <= tol; the implementation
   tests distance to the complex line and the magnitudes separately, each with its own tolerance: *)
Theorem C16_phase_sound_partial : forall tl t coeffs v, phase_decision tl t coeffs v = true ->
  tol_ok tl = true /\ mag_close (norm2 t) (norm2 v) (tol2 tl (norm2 t)) = true /\
  (norm_le tl 0 (norm2 v) = true \/ exists c : C, dist2 v (cvscale c t) <= tol2 tl (norm2 v)).
Proof. exact phase_sound. Qed.

(* ------------------------------------------------------------------------------------------ *)
(* MatrixEntryComparer                                                                          *)
(* ------------------------------------------------------------------------------------------ *)
Theorem C16_entry_model : forall d tl pc tr ss,
  Forall (fun es => shape_eqb (shape_of (fst es)) (shape_of (snd es)) = true) ss ->
  matrix_entry_cmp (Some d) tl pc tr ss = entry_credit pc (entry_summary tl (map (fun es => (tr (fst es), tr (snd es))) ss)).
Proof. exact entry_cmp_valid_shape. Qed.

Theorem C16_entry_summary_spec : forall tl ss n, ss <> [] ->
  Forall (fun es => length (flat (fst es)) = n /\ length (flat (snd es)) = n) ss ->
  entry_summary tl ss = map (entry_match tl ss) (seq 0 n).
Proof. exact entry_summary_spec. Qed.

Theorem C16_entry_credit_spec : forall pc locs, locs <> [] ->
  (all_match locs = true -> entry_credit pc locs = CBool true) /\
  (none_match locs = true -> entry_credit pc locs = CDict 0 (MsgEntries locs)) /\
  (all_match locs = false -> none_match locs = false ->
     entry_credit pc locs = CDict (partial_value pc locs) (MsgEntries locs)).
Proof. exact entry_credit_spec. Qed.

Theorem C16_entry_proportional_strict : forall locs, all_match locs = false -> none_match locs = false ->
  0 < partial_value PCProp locs < 1.
Proof. exact entry_proportional_strict. Qed.

Theorem C16_entry_full_iff : forall pc locs, locs <> [] -> strictly_partial pc ->
  ((exists g, cgrade (entry_credit pc locs) = Some g /\ g == 1) <-> all_match locs = true).
Proof. exact entry_full_iff. Qed.

Theorem C16_entry_zero_iff : forall pc locs, locs <> [] -> strictly_partial pc ->
  ((exists g, cgrade (entry_credit pc locs) = Some g /\ g == 0) <-> none_match locs = true).
Proof. exact entry_zero_iff. Qed.

(* ------------------------------------------------------------------------------------------ *)
(* LinearComparer                                                                               *)
(* ------------------------------------------------------------------------------------------ *)
Theorem C16_linear_model : forall d tl cfg e s ss, shape_eqb (shape_of e) (shape_of s) = true ->
  linear_cmp (Some d) tl cfg ((e, s) :: ss) = linear_cmp None tl cfg ((e, s) :: ss).
Proof. exact linear_cmp_valid_shape. Qed.

Theorem C16_linear_best_mode : forall tl cfg ss g mk,
  (forall m c, credit_of cfg m = Some c -> 0 <= c) ->
  linear_cmp None tl cfg ss = CDict g mk ->
  let ms := valid_modes cfg (comparing_zero tl ss) in
  (forall m, In m ms -> holds tl ss m -> credit_or_0 cfg m <= g) /\
  0 <= g /\
  (g = 0 \/ exists m, In m ms /\ holds tl ss m /\ g = credit_or_0 cfg m).
Proof. exact linear_best_mode. Qed.

(* no proportional or linear credit when either side is zero: the result is that of the comparer with these two
   modes switched off, and a result (possibly without credit) is always returned *)
Theorem C16_linear_zero_rule : forall dv tl cfg ss, comparing_zero tl ss = true ->
  linear_cmp dv tl cfg ss = linear_cmp dv tl (mkL (l_equals cfg) None (l_offset cfg) None) ss.
Proof. exact linear_zero_rule. Qed.

Theorem C16_linear_zero_total : forall tl cfg ss, (3 <= length ss)%nat -> comparing_zero tl ss = true ->
  exists g, linear_cmp None tl cfg ss = CDict g MsgOther.
Proof. exact linear_zero_total. Qed.

(* what "the relation holds" means (x = student samples, y = expected samples, flattened; complex samples included) *)
Theorem C16_equals_holds_iff : forall tl ref2 (x y : cvec),
  mode_holds tl ref2 x y LEquals = Some true <-> tol_ok tl = true /\ dist2 x y <= tol2 tl ref2.
Proof. exact equals_holds_iff. Qed.

Theorem C16_proportional_holds_iff : forall tl ref2 (x y : cvec), vzero x = false ->
  (mode_holds tl ref2 x y LProportional = Some true <->
   tol_ok tl = true /\ exists a : C, dist2 y (cvscale a x) <= tol2 tl ref2).
Proof. exact proportional_holds_iff. Qed.

Theorem C16_offset_holds_iff : forall x y : cvec, length x = length y -> (0 < length x)%nat -> forall tl ref2,
  (mode_holds tl ref2 x y LOffset = Some true <->
   tol_ok tl = true /\ exists b : C, dist2 (vadd x (cvscale b (ones (length x)))) y <= tol2 tl ref2).
Proof. exact offset_holds_iff. Qed.

Theorem C16_linear_holds_iff : forall tl ref2 (x y : cvec), Nat.eqb (crank [ones (length x); x]) 1 = false ->
  (mode_holds tl ref2 x y LLinear = Some true <->
   tol_ok tl = true /\ exists a b : C, dist2 y (vadd (cvscale a x) (cvscale b (ones (length x)))) <= tol2 tl ref2).
Proof. exact linear_holds_iff. Qed.

(* ------------------------------------------------------------------------------------------ *)
(* wrong shapes are reported according to the mismatch policy, never graded                      *)
(* ------------------------------------------------------------------------------------------ *)
(* `c` ranges over ALL configurations of the comparers, in particular over every transform of EqualityComparer /
   MatrixEntryComparer (CmpEquality tr, CmpEntry pc tr with tr : value -> value arbitrary -- shape-preserving,
   shape-collapsing like norm/trace/sum, shape-changing like transpose): the shape of the RAW submission is
   validated against the RAW expected value before any transform is applied. *)
Theorem C16_shape_mismatch_policy : forall p tl c ag failable s ss exp,
  expected_shape c (s_params s) = Some exp ->
  shape_eqb exp (shape_of (s_student s)) = false ->
  grade (GMatrix p) tl c ag failable (s :: ss) = mismatch_outcome p exp (shape_of (s_student s)).
Proof. exact shape_mismatch_policy. Qed.

(* EqualityComparer: right shape -> both sides transformed, then within_tolerance; wrong shape -> the transform is
   never consulted *)
Theorem C16_equality_model : forall d tl tr e s, shape_eqb (shape_of e) (shape_of s) = true ->
  equality_cmp (Some d) tl tr e s = CBool (within tl (flat (tr e)) (flat (tr s))).
Proof. exact equality_cmp_valid_shape. Qed.

Theorem C16_equality_wrong_shape_ignores_transform : forall d tl tr tr' e s,
  shape_eqb (shape_of e) (shape_of s) = false ->
  equality_cmp (Some d) tl tr e s = equality_cmp (Some d) tl tr' e s.
Proof. exact equality_cmp_wrong_shape. Qed.

(* answer [3,0,4] compared through the norm: [0,5,0] is accepted; the scalar 5 (same norm) is a shape mismatch *)
Example C16_ex_transform :
  let nrm := fun v => match v with VVec [(a, _); (b, _); (c, _)] => VNum (NReal (if Qeq_bool (a*a+b*b+c*c) 25 then 5 else 0))
                                 | VNum n => VNum n | v => v end in
  let e := VVec [(3, 0); (0, 0); (4, 0)] in
  grade (GMatrix (mkPolicy false true DType)) (TPct (1 # 10000)) (CmpEquality nrm) 1 0 [mkS [e] (VVec [(0, 0); (5, 0); (0, 0)]) []]
    = ORes OkTrue 1 MsgNone /\
  grade (GMatrix (mkPolicy false true DType)) (TPct (1 # 10000)) (CmpEquality nrm) 1 0 [mkS [e] (VNum (NReal 5)) []]
    = ORaise (XInputType (MsgShape (SMExpected 1 [] 0 [] false))).
Proof. vm_compute. split; reflexivity. Qed.

(* ------------------------------------------------------------------------------------------ *)
(* on the definitions REGENERATED from the source (Gen/Comparers.v), through the bridge          *)
(* ------------------------------------------------------------------------------------------ *)
(* LinearComparer: when comparing with zero only 'equals' and 'offset' survive get_valid_modes *)
Theorem C16_gen_zero_rule : forall cfg m, In m (Gen.Comparers.gen_valid_modes cfg true) -> m = LEquals \/ m = LOffset.
Proof. exact gen_zero_rule. Qed.

Theorem C16_gen_valid_modes_is_model : forall cfg z, Gen.Comparers.gen_valid_modes cfg z = valid_modes cfg z.
Proof. exact valid_modes_bridge. Qed.

(* MatrixEntryComparer's if/elif chain on percent_correct *)
Theorem C16_gen_entry_credit_spec : forall pc locs, locs <> [] ->
  (all_match locs = true -> Gen.Comparers.gen_entry_credit (Gen.Comparers.gen_percent_correct locs) pc locs = CBool true) /\
  (none_match locs = true ->
     Gen.Comparers.gen_entry_credit (Gen.Comparers.gen_percent_correct locs) pc locs = CDict 0 (MsgEntries locs)) /\
  (all_match locs = false -> none_match locs = false ->
     Gen.Comparers.gen_entry_credit (Gen.Comparers.gen_percent_correct locs) pc locs
     = CDict (partial_value pc locs) (MsgEntries locs)).
Proof. exact gen_entry_credit_spec. Qed.

(* MatrixGrader.check_response: what becomes of a shape-mismatch InputTypeError *)
Theorem C16_gen_mismatch_policy : forall p exp inp,
  Gen.Comparers.gen_input_type_policy p (MsgShape (shape_msg (p_detail p) exp inp)) = mismatch_outcome p exp inp.
Proof. exact gen_policy_spec. Qed.

Theorem C16_gen_defaults : Gen.Comparers.gen_default_credits = mkL (Some 1) (Some (1 # 2)) None None
  /\ Gen.Comparers.gen_all_modes = all_modes.
Proof. exact (conj default_credits_bridge all_modes_bridge). Qed.

(* ------------------------------------------------------------------------------------------ *)
(* non-vacuity                                                                                  *)
(* ------------------------------------------------------------------------------------------ *)
Definition ex_w1 : cvec := [(1, 0); (1, 0); (0, 0)].
Definition ex_w2 : cvec := [(0, 0); (1, 0); (2, 0)].
(* 2 w1 + 3i w2 = [2, 2+3i, 6i] is accepted with the coefficients (2, 3i), which are a minimiser; [2, 2+3i, 6] is
   rejected (shown with the same coefficients; by C16_span_sound no coefficients can make it accepted).
   Formerly refuted: the dependent vectors [1,1,0],[2,2,0] no longer accept [0,0,1] *)
Example C16_ex_span :
  minimiser [ex_w1; ex_w2] [(2, 0); (0, 3)] [(2, 0); (2, 3); (0, 6)] /\
  span_core (TPct (1 # 10000)) [ex_w1; ex_w2] [(2, 0); (0, 3)] [(2, 0); (2, 3); (0, 6)] = CBool true /\
  span_core (TPct (1 # 10000)) [ex_w1; ex_w2] [(2, 0); (0, 3)] [(2, 0); (2, 3); (6, 0)] = CBool false /\
  minimiser [[(1, 0); (1, 0); (0, 0)]; [(2, 0); (2, 0); (0, 0)]] [(0, 0); (0, 0)] [(0, 0); (0, 0); (1, 0)] /\
  span_core (TPct (1 # 10000)) [[(1, 0); (1, 0); (0, 0)]; [(2, 0); (2, 0); (0, 0)]] [(0, 0); (0, 0)] [(0, 0); (0, 0); (1, 0)] = CBool false.
Proof. vm_compute. repeat split. Qed.

(* phase: (3+4i)/5 * [1, i] accepted, 2 * [1, i] rejected *)
Example C16_ex_phase :
  phase_decision (TPct (1 # 10000)) [(1, 0); (0, 1)] [(3 # 5, 4 # 5)] [(3 # 5, 4 # 5); (- (4 # 5), 3 # 5)] = true /\
  phase_decision (TPct (1 # 10000)) [(1, 0); (0, 1)] [(2, 0)] [(2, 0); (0, 2)] = false.
Proof. vm_compute. split; reflexivity. Qed.

(* [[2,1],[1,2]] with eigenvalue 3: (1+i)*[1,1] accepted, [1,-1] and [0,0] rejected *)
Example C16_ex_eigen :
  eigen_core (TAbs (1 # 1000)) [[(2, 0); (1, 0)]; [(1, 0); (2, 0)]] (3, 0) [(1, 1); (1, 1)] = CBool true /\
  eigen_core (TAbs (1 # 1000)) [[(2, 0); (1, 0)]; [(1, 0); (2, 0)]] (3, 0) [(1, 0); (- (1), 0)] = CBool false /\
  eigen_core (TAbs (1 # 1000)) [[(2, 0); (1, 0)]; [(1, 0); (2, 0)]] (3, 0) [(0, 0); (0, 0)] = CDict 0 MsgEigenNonzero.
Proof. vm_compute. repeat split. Qed.

(* entries: 3 of 4 match -> proportional 3/4, flat 1/5 *)
Example C16_ex_entry :
  let e := VMat [[(1, 0); (2, 0)]; [(3, 0); (4, 0)]] in
  let s := VMat [[(1, 0); (2, 0)]; [(3, 0); (5, 0)]] in
  matrix_entry_cmp (Some DType) (TPct (1 # 10000)) PCProp (fun v => v) [(e, s); (e, s)] = CDict (3 # 4) (MsgEntries [true; true; true; false]) /\
  matrix_entry_cmp (Some DType) (TPct (1 # 10000)) (PCFlat (1 # 5)) (fun v => v) [(e, s)] = CDict (1 # 5) (MsgEntries [true; true; true; false]).
Proof. vm_compute. split; reflexivity. Qed.

(* linear: student = 2 * expected gets the proportional credit; student = expected + 1 gets the offset credit *)
Example C16_ex_linear :
  let cfg := mkL (Some 1) (Some (1 # 2)) (Some (7 # 10)) (Some (3 # 10)) in
  let mk := fun f => map (fun q => (VNum (NReal q), VNum (NReal (f q)))) [2; 3; 5; 7] in
  linear_cmp None (TPct (1 # 10000)) cfg (mk (fun q => 2 * q)) = CDict (1 # 2) MsgOther /\
  linear_cmp None (TPct (1 # 10000)) cfg (mk (fun q => q + 1)) = CDict (7 # 10) MsgOther /\
  linear_cmp None (TPct (1 # 10000)) cfg (mk (fun q => q)) = CDict 1 MsgOther /\
  linear_cmp None (TPct (1 # 10000)) cfg (mk (fun q => 2 * q + 1)) = CDict (3 # 10) MsgOther /\
  linear_cmp None (TPct (1 # 10000)) cfg (mk (fun q => q * q)) = CDict 0 MsgOther.
Proof. vm_compute. repeat split. Qed.

(* shape policy: a scalar where a vector of length 3 is expected *)
Example C16_ex_shape :
  let s := mkS [VVec ex_w1; VVec ex_w2] (VNum (NReal 5)) [] in
  grade (GMatrix (mkPolicy false true DType)) (TPct (1 # 10000)) CmpSpan 1 0 [s]
    = ORaise (XInputType (MsgShape (SMExpected 1 [] 0 [] false))) /\
  grade (GMatrix (mkPolicy false false DShape)) (TPct (1 # 10000)) CmpSpan 1 0 [s]
    = ORes OkFalse 0 (MsgShape (SMExpected 1 [3%Z] 0 [] false)) /\
  grade (GMatrix (mkPolicy true true DShape)) (TPct (1 # 10000)) CmpSpan 1 0 [s] = ORes OkFalse 0 MsgNone.
Proof. vm_compute. repeat split. Qed.

(* the former wrap-around witness is accepted now; a value 1/5 away is not *)
Example C16_ex_congruence :
  congruence_cmp (TAbs (1 # 10)) 0 1 (NReal (- (1 # 100))) = CBool true /\
  congruence_cmp (TAbs (1 # 10)) 0 1 (NReal (1 # 100)) = CBool true /\
  congruence_cmp (TAbs (1 # 10)) (1 # 2) 1 (NReal (7 # 2)) = CBool true /\
  congruence_cmp (TAbs (1 # 10)) 0 1 (NReal (- (1 # 5))) = CBool false.
Proof. vm_compute. repeat split. Qed.

(* the former defects of between and LinearComparer, now behaving as the property says *)
Example C16_ex_repaired :
  between_cmp 1 3 (NCplx 2 0) = CBool true /\
  linear_cmp None (TPct (1 # 10000)) lc_zero_cfg lc_zero_samples = CDict 0 MsgOther /\
  linear_cmp None (TPct (1 # 10000)) (mkL (Some 1) (Some (1 # 2)) None None) lc_cplx_samples = CDict 0 MsgOther.
Proof. vm_compute. repeat split. Qed.
