(* Props/C18.v -- StringGrader matches exactly the inputs equal after the configured cleaning.
   Only statements, `exact lemma`, and Print Assumptions.

   gclean / gcheck / gmessage / gexpect are the definitions REGENERATED on every run from
   mitxgraders/stringgrader.py (clean_input, check_response, construct_message, __call__) by translate/strgrader.py;
   Bridge/StrGrader.v ties them to the model the lemmas are proved about.
   T : tables  -- str.lower / str.isspace / re's \d \w per character (oracles; `tables_ok T` is checked by the harness over
                  all of Unicode on every run).   rm / rf -- re.match / re.fullmatch as oracles (any functions; rm is unused by the code since 976ea10), rf instantiated
                  by the regex model (parser from pattern text + matcher) where the statement speaks about languages.
   Strings are lists of code points of ANY length; cfg ranges over all configurations (all 16 flag combinations). *)
From Coq Require Import ZArith QArith List Bool.
From Verif.Model Require Import Result StrGrader StrRegex.
From Verif.Gen Require StrGrader.
From Verif.Bridge Require Import StrGrader.
From Verif.Proofs Require Import StrGrader StrRegex StrGraderGen.
Import ListNotations.
Open Scope Z_scope.

(* ------------------------------------------------------------------------------------------------ *)
(* the configured normalisation                                                                      *)
(* ------------------------------------------------------------------------------------------------ *)
(* clean_input is the declarative normaliser `norm`: tabs and line breaks -> spaces (`breaks`), fold iff case_sensitive
   is off, trim iff strip, delete every space iff strip_all, squeeze runs of spaces iff clean_spaces *)
Theorem C18_clean_is_the_declarative_normaliser : forall T cfg s, gclean T cfg s = norm T cfg s.
Proof. exact g_clean_spec. Qed.
Print Assumptions C18_clean_is_the_declarative_normaliser.

(* `breaks s` reads s as symbols: CRLF, LFCR, a lone tab / CR / LF each become ONE space, every other character is
   copied unchanged, and a CR is never left next to an LF as two separate line breaks *)
Theorem C18_tabs_and_line_breaks_become_spaces : forall s, reading None s (breaks s).
Proof. exact breaks_reading. Qed.
Print Assumptions C18_tabs_and_line_breaks_become_spaces.

(* strip removes exactly a whitespace prefix and a whitespace suffix and leaves a trimmed string *)
Theorem C18_strip_removes_outer_whitespace_only : forall T s,
  exists l r, s = l ++ py_strip T s ++ r /\ all_ws T l /\ all_ws T r /\ trimmed T (py_strip T s).
Proof. exact strip_spec. Qed.
Print Assumptions C18_strip_removes_outer_whitespace_only.

(* clean_spaces replaces every maximal run of spaces by one space (and nothing else) *)
Theorem C18_runs_of_spaces_collapse_to_one : forall s,
  squeezed s (re_sub_spaces s) /\ no_double_space (re_sub_spaces s).
Proof. exact (fun s => conj (squeeze_spec s) (squeeze_no_double s)). Qed.
Print Assumptions C18_runs_of_spaces_collapse_to_one.

(* no other character is ever ignored or altered: the non-whitespace characters of the cleaned string are exactly those
   of the input, in order, folded iff case_sensitive is off *)
Theorem C18_no_other_character_ignored_or_altered : forall T cfg s, tables_ok T ->
  content T (gclean T cfg s) = content T (if cfg_case_sensitive cfg then s else py_lower T s).
Proof. exact g_nonspace_preserved. Qed.
Print Assumptions C18_no_other_character_ignored_or_altered.

Theorem C18_cleaning_is_idempotent : forall T cfg s, tables_ok T -> gclean T cfg (gclean T cfg s) = gclean T cfg s.
Proof. exact g_clean_idempotent. Qed.
Print Assumptions C18_cleaning_is_idempotent.

(* with strip on, any whitespace (spaces, tabs, line breaks, ...) added at either end changes nothing *)
Theorem C18_outer_whitespace_ignored_when_strip : forall T cfg l s r, tables_ok T -> cfg_strip cfg = true ->
  all_ws T l -> all_ws T r -> gclean T cfg (l ++ s ++ r) = gclean T cfg s.
Proof. exact g_outer_whitespace. Qed.
Print Assumptions C18_outer_whitespace_ignored_when_strip.

(* with strip_all on, the cleaned string depends only on the input without its tabs, line breaks and spaces (`core`):
   spaces -- and tabs and line breaks, which have become spaces -- are ignored wherever they stand *)
Theorem C18_strip_all_ignores_every_space : forall T cfg s, tables_ok T -> cfg_strip_all cfg = true ->
  gclean T cfg s =
  (let x := core s in
   let x := if cfg_case_sensitive cfg then x else py_lower T x in
   if cfg_strip cfg then py_strip T x else x).
Proof. exact g_strip_all_core. Qed.
Print Assumptions C18_strip_all_ignores_every_space.

Theorem C18_strip_all_space_inserted_anywhere : forall T cfg a b, tables_ok T -> cfg_strip_all cfg = true ->
  gclean T cfg (a ++ 32 :: b) = gclean T cfg (a ++ b).
Proof. exact g_strip_all_spaces. Qed.
Print Assumptions C18_strip_all_space_inserted_anywhere.

(* with clean_spaces on, repeating a space anywhere changes nothing *)
Theorem C18_clean_spaces_repeated_space_ignored : forall T cfg a b, tables_ok T -> cfg_clean_spaces cfg = true ->
  gclean T cfg (a ++ 32 :: 32 :: b) = gclean T cfg (a ++ 32 :: b).
Proof. exact g_repeated_space. Qed.
Print Assumptions C18_clean_spaces_repeated_space_ignored.

(* ------------------------------------------------------------------------------------------------ *)
(* a submission matches an expected string exactly when the two are identical after the normalisation *)
(* ------------------------------------------------------------------------------------------------ *)
Theorem C18_match_iff_identical_after_normalisation : forall T rm rf cfg a e s,
  cfg_validation_pattern cfg = None -> accept_any_mode cfg = false ->
  (norm T cfg s = norm T cfg e -> gcheck T rm rf cfg a e s = Ret (credit_of a)) /\
  (norm T cfg s <> norm T cfg e -> gcheck T rm rf cfg a e s = Ret zero_entry).
Proof. exact g_match_iff. Qed.
Print Assumptions C18_match_iff_identical_after_normalisation.

Theorem C18_credited_submission_has_the_expected_characters : forall T rm rf cfg a e s, tables_ok T ->
  cfg_validation_pattern cfg = None -> accept_any_mode cfg = false ->
  gcheck T rm rf cfg a e s <> Ret zero_entry ->
  content T (if cfg_case_sensitive cfg then s else py_lower T s)
  = content T (if cfg_case_sensitive cfg then e else py_lower T e).
Proof. exact g_match_same_characters. Qed.
Print Assumptions C18_credited_submission_has_the_expected_characters.

(* ------------------------------------------------------------------------------------------------ *)
(* accept_any / accept_nonempty                                                                      *)
(* ------------------------------------------------------------------------------------------------ *)
(* meets_minimums: at least min_len characters (min_length, at least 1 for accept_nonempty) and at least min_words
   words after cleaning.  Met -> the answer's credit; not met -> refused as explain_minimums prescribes *)
Theorem C18_accept_any_accepts_exactly_what_meets_the_minimums : forall T rm rf cfg a e s,
  cfg_validation_pattern cfg = None -> accept_any_mode cfg = true -> 0 <= cfg_min_length cfg ->
  (meets_minimums T cfg (norm T cfg s) -> gcheck T rm rf cfg a e s = Ret (credit_of a)) /\
  (~ meets_minimums T cfg (norm T cfg s) ->
     exists m, m <> [] /\ gcheck T rm rf cfg a e s = refusal cfg (cfg_explain_minimums cfg) m).
Proof. exact g_accept_any. Qed.
Print Assumptions C18_accept_any_accepts_exactly_what_meets_the_minimums.

(* the three policies: 'err' raises InvalidInput(msg), 'msg' grades wrong with the message, None grades wrong silently
   (with the message when debug is on) *)
Theorem C18_refusal_policies : forall cfg m how, gmessage cfg m how = refusal cfg how m.
Proof. exact g_message. Qed.
Print Assumptions C18_refusal_policies.

(* the word count used for min_words: maximal runs of non-whitespace characters *)
Theorem C18_words_are_runs_of_non_whitespace : forall T s, length (py_split T s) = word_starts T true s.
Proof. exact split_count. Qed.
Print Assumptions C18_words_are_runs_of_non_whitespace.

(* __call__ hands an empty expect to ItemGrader.__call__ exactly for accept_any / accept_nonempty graders *)
Theorem C18_call_supplies_empty_expect_for_accept_any : forall cfg,
  gexpect cfg None = if accept_any_mode cfg then Some [] else None.
Proof. exact g_call_expect. Qed.
Print Assumptions C18_call_supplies_empty_expect_for_accept_any.

(* ------------------------------------------------------------------------------------------------ *)
(* validation_pattern                                                                                *)
(* ------------------------------------------------------------------------------------------------ *)
(* whatever re.fullmatch is: a submission failing the test `re.fullmatch(p, cleaned)` is refused as explain_validation
   prescribes, in accept_any, accept_nonempty and normal mode; one passing it is graded as if there were no pattern *)
Theorem C18_failed_validation_is_refused_in_every_mode : forall T rm rf cfg p a e s,
  cfg_validation_pattern cfg = Some p ->
  rf p (norm T cfg s) = false ->
  (accept_any_mode cfg = true \/ rf p (norm T cfg e) = true) ->
  gcheck T rm rf cfg a e s = refusal cfg (cfg_explain_validation cfg) (cfg_invalid_msg cfg).
Proof. exact g_validation_refusal. Qed.
Print Assumptions C18_failed_validation_is_refused_in_every_mode.

Theorem C18_passed_validation_grades_as_without_pattern : forall T rm rf cfg p a e s,
  cfg_validation_pattern cfg = Some p ->
  rf p (norm T cfg s) = true ->
  (accept_any_mode cfg = true \/ rf p (norm T cfg e) = true) ->
  gcheck T rm rf cfg a e s = gcheck T rm rf (without_pattern cfg) a e s.
Proof. exact g_validation_pass. Qed.
Print Assumptions C18_passed_validation_grades_as_without_pattern.

(* the regex model: the executable matcher decides membership in the language of the parsed pattern *)
Theorem C18_matcher_decides_the_match_relation : forall T r s,
  (re_fullmatch T r s = true <-> in_language T r s) /\ (re_match T r s = true <-> exists j, Match T s r O j).
Proof. exact (fun T r s => conj (re_fullmatch_spec T r s) (re_match_spec T r s)). Qed.
Print Assumptions C18_matcher_decides_the_match_relation.

(* the re.fullmatch oracle on the pattern text IS membership in the language of the pattern *)
Theorem C18_fullmatch_on_the_pattern_text_is_the_language : forall T p r x, parse p = Some r ->
  (re_fullmatch_text T p x = true <-> in_language T r x).
Proof. exact fullmatch_text_is_language. Qed.
Print Assumptions C18_fullmatch_on_the_pattern_text_is_the_language.

(* FULL STATEMENT: a validation_pattern must match the ENTIRE cleaned submission, otherwise the response is refused in the
   way explain_validation prescribes, in every mode -- for every pattern p of the modelled subset (top-level alternation,
   anchors, groups, classes, quantifiers), parse p = Some r; `in every mode`: accept_any / accept_nonempty, or normal mode
   with an expected string that the pattern itself matches entirely (otherwise: next theorem).
   (Before /repo commit 976ea10 this was refuted: "a|b" accepted "ab", "^" accepted anything.) *)
Theorem C18_validation_fullmatch : forall T rm cfg p r a e s,
  cfg_validation_pattern cfg = Some p -> parse p = Some r ->
  (accept_any_mode cfg = true \/ in_language T r (norm T cfg e)) ->
  (~ in_language T r (norm T cfg s) ->
     gcheck T rm (re_fullmatch_text T) cfg a e s = refusal cfg (cfg_explain_validation cfg) (cfg_invalid_msg cfg)) /\
  (in_language T r (norm T cfg s) ->
     gcheck T rm (re_fullmatch_text T) cfg a e s = gcheck T rm (re_fullmatch_text T) (without_pattern cfg) a e s).
Proof. exact g_validation_fullmatch. Qed.
Print Assumptions C18_validation_fullmatch.

(* normal mode with an expected string the pattern does not match entirely: an author error (ConfigError) *)
Theorem C18_expect_outside_the_pattern_is_a_config_error : forall T rm cfg p r a e s,
  cfg_validation_pattern cfg = Some p -> parse p = Some r -> accept_any_mode cfg = false ->
  ~ in_language T r (norm T cfg e) ->
  gcheck T rm (re_fullmatch_text T) cfg a e s = RaiseConfig.
Proof. exact g_validation_expect_outside_language. Qed.
Print Assumptions C18_expect_outside_the_pattern_is_a_config_error.

(* why the code must not append "$" to the pattern TEXT: it anchors the whole pattern only when there is no top-level bar *)
Theorem C18_dollar_anchors_whole_pattern_without_top_level_bar : forall p r,
  parse p = Some r -> top_level_alternation p = false -> parse (p ++ [36]) = Some (Cat r Eol).
Proof. exact parse_dollar_no_alternation. Qed.
Print Assumptions C18_dollar_anchors_whole_pattern_without_top_level_bar.

(* regression: the three witnesses that refuted C18_validation_fullmatch before the repair are now refused with the
   InvalidInput error ("a|b" vs "ab"; "^" vs "x"; normal mode "a|b", expect "a", submission "ax") *)
Example C18_regression_alternation_witness :
  gcheck T_plain (re_match_text T_plain) (re_fullmatch_text T_plain) (cfg_any [97; 124; 98]) inferred_answer [] [97; 98]
  = RaiseInvalid [98; 97; 100].
Proof. exact g_regression_alternation. Qed.

Example C18_regression_trailing_caret_witness :
  gcheck T_plain (re_match_text T_plain) (re_fullmatch_text T_plain) (cfg_any [94]) inferred_answer [] [120]
  = RaiseInvalid [98; 97; 100].
Proof. exact g_regression_trailing_caret. Qed.

Example C18_regression_normal_mode_witness :
  gcheck T_plain (re_match_text T_plain) (re_fullmatch_text T_plain) (cfg_normal [97; 124; 98]) inferred_answer [97] [97; 120]
  = RaiseInvalid [98; 97; 100]
  /\ gcheck T_plain (re_match_text T_plain) (re_fullmatch_text T_plain) (cfg_normal [97; 124; 98]) inferred_answer [97] [97]
  = Ret (credit_of inferred_answer)
  /\ gcheck T_plain (re_match_text T_plain) (re_fullmatch_text T_plain) (cfg_normal [97; 124; 98]) inferred_answer [97] [98]
  = Ret zero_entry.
Proof. exact g_regression_normal_mode. Qed.

(* ------------------------------------------------------------------------------------------------ *)
(* examples: the hypotheses are satisfiable, the flags matter                                        *)
(* ------------------------------------------------------------------------------------------------ *)
Example C18_ex_tables_hypotheses_satisfiable : tables_ok T_plain.
Proof. exact T_plain_ok. Qed.

Example C18_ex_default_cleaning :
  gclean T_plain (cfg_flags true true false true) [32; 32; 72; 101; 108; 108; 111; 9; 87; 111; 114; 108; 100; 13; 10]
  = [72; 101; 108; 108; 111; 32; 87; 111; 114; 108; 100].
Proof. exact ex_clean_default. Qed.

Example C18_ex_strip_off_keeps_leading_space :
  gclean T_plain (cfg_flags true false false true) [32; 97] <> gclean T_plain (cfg_flags true false false true) [97].
Proof. exact ex_strip_off_keeps_space. Qed.

Example C18_ex_inner_and_repeated_spaces_matter_when_flags_off :
  gclean T_plain (cfg_flags true true false true) [97; 32; 98] <> gclean T_plain (cfg_flags true true false true) [97; 98]
  /\ gclean T_plain (cfg_flags true true false false) [97; 32; 32; 98] <> gclean T_plain (cfg_flags true true false false) [97; 32; 98].
Proof. exact ex_inner_space_matters. Qed.

Example C18_ex_line_breaks_without_clean_spaces :
  gclean T_plain (cfg_flags true true false false) [97; 13; 10; 98] = [97; 32; 98] /\
  gclean T_plain (cfg_flags true true false false) [97; 13; 13; 98] = [97; 32; 32; 98] /\
  gclean T_plain (cfg_flags true true false false) [97; 10; 13; 10; 13; 98] = [97; 32; 32; 32; 98].
Proof. exact ex_runs_kept. Qed.

Example C18_ex_accept_nonempty :
  (exists m, gcheck T_plain (re_match_text T_plain) (re_fullmatch_text T_plain) cfg_nonempty inferred_answer [] [32] = RaiseInvalid m)
  /\ gcheck T_plain (re_match_text T_plain) (re_fullmatch_text T_plain) cfg_nonempty inferred_answer [] [120] = Ret (credit_of inferred_answer).
Proof. exact ex_accept_nonempty. Qed.

Example C18_ex_documented_pattern_in_subset :
  exists r, parse [92; 40; 91; 48; 45; 57; 93; 43; 92; 41] = Some r
            /\ re_fullmatch T_plain r [40; 52; 50; 41] = true /\ re_fullmatch T_plain r [40; 52; 50; 41; 120] = false.
Proof. exact ex_documented_pattern. Qed.

Example C18_ex_dollar_binds_to_last_alternative :
  parse [97; 124; 98; 36] = Some (Alt (Cat Eps (lit 97)) (Cat (Cat Eps (lit 98)) Eol))
  /\ top_level_alternation [97; 124; 98] = true.
Proof. exact ex_dollar_binds_to_last_alternative. Qed.
