(* Props/C08.v -- Among alternative answers the student always receives the best-scoring one.
   Only statements, `exact lemma`, Print Assumptions, and closed Examples.

   Model: Model/ItemCheck.v  (canon = schema_answers/validate_single_answer/validate_expect_tuple,
   check = ItemGrader.check), tied to mitxgraders/baseclasses.py by the differential correspondence of
   harness/props/c08.py (every ItemGrader.check invocation observed -- at top level, inside ListGrader,
   inside SingleListGrader -- is re-run in Coq on the recorded check_response results).

   Every theorem is for an ARBITRARY check_response oracle `cr : single -> input -> entry + exception`
   (String/Formula/Numerical/Matrix/SingleList graders are instances), arbitrary types of expect values,
   inputs and exceptions, and any number of alternatives with expect tuples of any length.

   Vocabulary (Proofs/ItemCheck.v):
     earns cr l x s r            the single alternative s of the configured answers l, on input x, gives result r
     no_specific_feedback ...    every result tied at the best grade has an empty message
     reordered l l'              l' lists the alternatives of l in another order, and/or the values inside
                                 expect tuples in another order          (raw_reordered: same, as written by the author)
     same_alternatives l l'      l and l' offer the same SET of single alternatives (weaker than reordered)
     same_verdict o o'           both return, with equal grade and equally long message -- or neither returns *)
From Coq Require Import ZArith QArith List Bool Permutation.
From Verif.Lib Require Import QRound.
From Verif.Model Require Import Result ItemCheck ItemCheckAgree.
From Verif.Proofs Require Import ItemCheck ItemCheckEx.
Import ListNotations.
Open Scope Q_scope.

Section C08.
  Variables E I X : Type.
  Variable cr : single E -> I -> entry + X.

  (* --- the returned grade is the maximum credit the input earns against any single alternative --- *)
  Theorem C08_grade_is_max_over_alternatives : forall wm l x r, check cr wm l x = Ret r ->
    (exists s r0, earns cr l x s r0 /\ e_grade r = e_grade r0) /\
    (forall s r', earns cr l x s r' -> e_grade r' <= e_grade r).
  Proof. exact (check_grade_is_max E I X cr). Qed.

  (* the same, with "earns against a single alternative" read as: the grade given by the grader that is
     configured with that alternative alone (this is the harness's differential oracle, verbatim);
     the message is the longest among the single graders tied at the top, or wrong_msg *)
  Theorem C08_grade_is_max_of_single_alternative_graders : forall wm l x r, check cr wm l x = Ret r ->
    (forall s, In s (flatten l) -> exists rs, check cr [] (alone s) x = Ret rs /\ e_grade rs <= e_grade r) /\
    (exists s rs, In s (flatten l) /\ check cr [] (alone s) x = Ret rs /\ e_grade rs = e_grade r /\
       (forall s' rs', In s' (flatten l) -> check cr [] (alone s') x = Ret rs' -> e_grade rs' == e_grade r ->
                       (length (e_msg rs') <= length (e_msg rs))%nat) /\
       e_msg r = if is_empty (e_msg rs) && Qeq_bool (e_grade rs) 0 then wm else e_msg rs).
  Proof. exact (check_is_max_of_single_graders E I X cr). Qed.

  (* the same once more, for the configuration as the author writes it: one grader per value of every
     alternative (raw_singles), exactly what harness/props/c08.py builds for its `singles` oracle *)
  Theorem C08_grade_is_max_of_single_alternative_graders_as_written : forall wm (l : list (raw_answer E)) x r,
    grade_raw cr wm (RTuple l) x = Out (Ret r) ->
    (forall a rs, In a l -> In rs (raw_singles E a) ->
       exists r', grade_raw cr [] (RTuple [rs]) x = Out (Ret r') /\ e_grade r' <= e_grade r) /\
    (exists a rs r', In a l /\ In rs (raw_singles E a) /\ grade_raw cr [] (RTuple [rs]) x = Out (Ret r') /\
       e_grade r' = e_grade r /\
       (forall b rs' r'', In b l -> In rs' (raw_singles E b) -> grade_raw cr [] (RTuple [rs']) x = Out (Ret r'') ->
          e_grade r'' == e_grade r -> (length (e_msg r'') <= length (e_msg r'))%nat) /\
       e_msg r = if is_empty (e_msg r') && Qeq_bool (e_grade r') 0 then wm else e_msg r').
  Proof. exact (grade_raw_is_max_of_single_graders E I X cr). Qed.

  (* --- independent of the order in which alternatives (and the values of an expect tuple) are listed,
         stated for the configuration as the author writes it --- *)
  Theorem C08_order_independent : forall wm (l l' : list (raw_answer E)) x, raw_reordered l l' ->
    match grade_raw cr wm (RTuple l) x, grade_raw cr wm (RTuple l') x with
    | ConfigInvalid, ConfigInvalid => True
    | Out o, Out o' => same_verdict o o'
    | _, _ => False
    end.
  Proof. exact (grade_raw_order_independent E I X cr). Qed.

  Theorem C08_order_independent_canonical : forall wm l l' x, reordered l l' ->
    same_verdict (check cr wm l x) (check cr wm l' x).
  Proof. exact (check_order_independent E I X cr). Qed.

  (* stronger: only the SET of single alternatives matters (regrouping into tuples, repetitions); and the
     message TEXT is order independent too whenever equally long best messages coincide *)
  Theorem C08_same_alternatives_same_verdict : forall wm l l' x, same_alternatives l l' ->
    ((exists r, check cr wm l x = Ret r) <-> (exists r', check cr wm l' x = Ret r')) /\
    forall r r', check cr wm l x = Ret r -> check cr wm l' x = Ret r' ->
      e_grade r == e_grade r' /\ length (e_msg r) = length (e_msg r') /\
      ((forall s1 q1 s2 q2, earns cr l x s1 q1 -> earns cr l x s2 q2 ->
          e_grade q1 == e_grade r -> e_grade q2 == e_grade r ->
          length (e_msg q1) = length (e_msg q2) -> e_msg q1 = e_msg q2) -> e_msg r = e_msg r').
  Proof. exact (check_set_invariant E I X cr). Qed.

  (* --- among alternatives tied at that maximum the one with the longest message is reported --- *)
  Theorem C08_longest_message_among_best : forall wm l x r, check cr wm l x = Ret r ->
    exists s0 r0, earns cr l x s0 r0 /\ e_grade r0 = e_grade r /\ e_ok r0 = e_ok r /\
      (forall s r', earns cr l x s r' -> e_grade r' == e_grade r ->
                    (length (e_msg r') <= length (e_msg r0))%nat) /\
      (e_msg r = e_msg r0 \/ (e_msg r0 = [] /\ e_grade r == 0 /\ e_msg r = wm)).
  Proof. exact (check_msg_longest_among_best E I X cr). Qed.

  (* --- wrong_msg is shown exactly when that best grade is zero and no specific feedback applies --- *)
  Theorem C08_wrong_msg_iff : forall wm l x r, check cr wm l x = Ret r ->
    ((e_grade r == 0 /\ no_specific_feedback cr l x (e_grade r)) -> e_msg r = wm) /\
    (~ (e_grade r == 0 /\ no_specific_feedback cr l x (e_grade r)) ->
       exists s0 r0, earns cr l x s0 r0 /\ e_grade r0 = e_grade r /\ e_msg r = e_msg r0 /\
                     (e_grade r == 0 -> e_msg r <> [])).
  Proof. exact (check_wrong_msg_iff E I X cr). Qed.

  (* as an equivalence on the displayed text, when wrong_msg differs from every specific message *)
  Theorem C08_wrong_msg_shown_iff : forall wm l x r, check cr wm l x = Ret r ->
    (forall s r', earns cr l x s r' -> e_msg r' <> wm) ->
    (e_msg r = wm <-> (e_grade r == 0 /\ no_specific_feedback cr l x (e_grade r))).
  Proof. exact (check_wrong_msg_shown_iff E I X cr). Qed.

  (* as an equivalence on the branch taken by the code, and its independence of the listing order *)
  Theorem C08_wrong_msg_branch_iff : forall l x s, check_select cr l x = Some s ->
    (sel_subst s = true <-> (sel_best s == 0 /\ no_specific_feedback cr l x (sel_best s))).
  Proof. exact (subst_iff E I X cr). Qed.

  Theorem C08_wrong_msg_branch_order_independent : forall l l' x s s', same_alternatives l l' ->
    check_select cr l x = Some s -> check_select cr l' x = Some s' ->
    sel_best s == sel_best s' /\ sel_subst s = sel_subst s'.
  Proof. exact (subst_order_independent E I X cr). Qed.

  Theorem C08_result_is_selection : forall wm l x r, check cr wm l x = Ret r <->
    exists s, l <> [] /\ check_select cr l x = Some s /\ r = final wm s.
  Proof. exact (check_ret_select E I X cr). Qed.

  (* --- when a grade is returned at all; which error otherwise --- *)
  Theorem C08_returns_iff : forall wm l x,
    (exists r, check cr wm l x = Ret r) <->
    (flatten l <> [] /\ forall s, In s (flatten l) -> exists r, cr s x = inl r).
  Proof. exact (check_returns_iff E I X cr). Qed.

  Theorem C08_no_answers_is_config_error : forall wm l x, check cr wm l x = NoAnswers <-> l = [].
  Proof. exact (check_no_answers_iff E I X cr). Qed.

  Theorem C08_raises_iff_some_alternative_raises : forall wm l x,
    (exists e, check cr wm l x = Raised e) <-> (exists s e, In s (flatten l) /\ cr s x = inr e).
  Proof. exact (check_raises_iff E I X cr). Qed.

  Theorem C08_first_exception_escapes : forall wm l x e, check cr wm l x = Raised e ->
    exists pre s post, flatten l = pre ++ s :: post /\ cr s x = inr e /\
      forall s', In s' pre -> exists r, cr s' x = inl r.
  Proof. exact (check_raised E I X cr). Qed.

  (* --- canonicalisation of the alternatives --- *)
  Theorem C08_canonical_alternatives : forall (r : raw_answers E) l, canon r = Some l ->
    Forall (fun a => 0 <= a_credit a <= 1 /\ (~ a_credit a == 1 -> a_ok a = grade_to_ok (a_credit a))) l.
  Proof. exact (canon_sound E). Qed.

  Theorem C08_canonicalisation_keeps_the_listing : forall (rl : list (raw_answer E)) l,
    canon (RTuple rl) = Some l ->
    Forall2 (fun r a => canon_answer r = Some a /\
                        a_expects a = expects_of (match r with RBare e => e | RDict e _ _ _ => e end)) rl l.
  Proof. exact (canon_tuple_listing E). Qed.

  Theorem C08_canonicalisation_idempotent : forall (r : raw_answers E) l,
    canon r = Some l -> canon (RTuple (map embed l)) = Some l.
  Proof. exact (canon_idempotent E). Qed.

  Theorem C08_canonicalisation_commutes_with_reordering : forall l l' : list (raw_answer E), raw_reordered l l' ->
    match canon (RTuple l), canon (RTuple l') with
    | Some a, Some a' => reordered a a'
    | None, None => True
    | _, _ => False
    end.
  Proof. exact (canon_reordered E). Qed.
End C08.

(* the property leaves open which of several equally long best messages is reported; the code takes the
   first listed among the best results of maximal message length *)
Theorem C08_tie_break_is_first_listed : forall rs s, select rs = Some s ->
  exists pre post, filter (fun r => Qeq_bool (e_grade r) (sel_best s)) rs = pre ++ sel_chosen s :: post /\
    forall r, In r pre -> (length (e_msg r) < length (e_msg (sel_chosen s)))%nat.
Proof. exact select_first. Qed.

Print Assumptions C08_grade_is_max_over_alternatives.
Print Assumptions C08_order_independent.
Print Assumptions C08_wrong_msg_iff.

(* --- closed examples (vm_compute): non-vacuity, ties, errors, canonical forms --- *)
Example C08_ex_tie_longest_every_order :
  forallb (fun l => ret_is (check (table_cr tbl12) s_wrong l tt) (1#2) s_nicely) (orders3 alt1 alt2 alt3) = true.
Proof. exact c08_ex_tie_longest_every_order. Qed.

Example C08_ex_best_wins_every_order :
  forallb (fun l => ret_is (check (table_cr tbl123) s_wrong l tt) 1 []) (orders3 alt1 alt2 alt3) = true.
Proof. exact c08_ex_best_wins_every_order. Qed.

Example C08_ex_equal_length_tie_follows_listing_order :
  check (table_cr tbl_abcd) [] [alt_ab; alt_cd] tt = Ret (mkEntry OkTrue 1 s_ab) /\
  check (table_cr tbl_abcd) [] [alt_cd; alt_ab] tt = Ret (mkEntry OkTrue 1 s_cd).
Proof. exact c08_ex_equal_length_tie_follows_listing_order. Qed.

Example C08_ex_wrong_msg :
  check (table_cr [(3%Z, miss); (2%Z, miss)]) s_wrong [alt3; alt_zero] tt = Ret (mkEntry OkFalse 0 s_wrong) /\
  check (table_cr [(3%Z, miss); (2%Z, hit alt_zero)]) s_wrong [alt3; alt_zero] tt = Ret (mkEntry OkFalse 0 s_hint) /\
  check (table_cr [(3%Z, hit alt3); (2%Z, miss)]) s_wrong [alt3; alt_zero] tt = Ret (mkEntry OkTrue 1 []).
Proof. exact c08_ex_wrong_msg. Qed.

Example C08_ex_errors :
  check (table_cr []) s_wrong [] tt = NoAnswers /\
  check (table_cr []) s_wrong [mkAnswer [] 1 [] OkTrue] tt = NoResults /\
  check (table_cr [(1%Z, hit alt1); (2%Z, inr (true, 7%Z)); (3%Z, inr (false, 9%Z))]) s_wrong [alt1; alt2; alt3] tt
    = Raised (true, 7%Z) /\
  check (table_cr [(1%Z, hit alt1); (2%Z, inr (true, 7%Z)); (3%Z, inr (false, 9%Z))]) s_wrong [alt3; alt2; alt1] tt
    = Raised (false, 9%Z).
Proof. exact c08_ex_errors. Qed.

Example C08_ex_canon :
  canon (RSingle (RBare (ROne 1%Z))) = Some [mkAnswer [1%Z] 1 [] OkTrue] /\
  canon (RSingle (RBare (RMany [1%Z; 2%Z]))) = Some [mkAnswer [1%Z] 1 [] OkTrue; mkAnswer [2%Z] 1 [] OkTrue] /\
  canon (RTuple [RDict (RMany [1%Z; 2%Z]) (Some (1#2)) (Some s_ok_) None; RBare (RMany [3%Z; 4%Z])])
    = Some [mkAnswer [1%Z; 2%Z] (1#2) s_ok_ OkPartial; mkAnswer [3%Z; 4%Z] 1 [] OkTrue] /\
  canon (RSingle (RDict (ROne 1%Z) None None (Some RFalse))) = Some [mkAnswer [1%Z] 1 [] OkFalse] /\
  canon (RSingle (RDict (ROne 1%Z) (Some (1#2)) None (Some RTrue))) = Some [mkAnswer [1%Z] (1#2) [] OkPartial] /\
  canon (RTuple [RBare (ROne 1%Z); RDict (ROne 2%Z) (Some (3#2)) None None]) = None.
Proof. exact c08_ex_canon. Qed.

Example C08_ex_reordered :
  raw_reordered (TE:=Z)
    [RDict (RMany [1%Z; 2%Z]) (Some (1#2)) (Some s_ok_) None; RBare (ROne 3%Z)]
    [RBare (ROne 3%Z); RDict (RMany [2%Z; 1%Z]) (Some (1#2)) (Some s_ok_) None].
Proof. exact c08_ex_reordered. Qed.
