"""
mathfuncs_gen.py -- C15: deterministic case generators (all randomness from the rng handed in).

A case is {'table': 'formula'|'numerical'|'matrix', 'fname': str, 'args': [encoded args], 'stream': str}
with the argument encoding of mathfuncs_oracle (['r', x], ['c', re, im], ['v', ...], ['m', ...], ['t', ...]).
"""
import math

from harness import mathfuncs_oracle as O

REAL_GRID = [0.0, -0.0]
for _m in [1e-300, 1e-160, 1e-20, 1e-9, 0.1, 0.25, 0.5, 0.9999999, 1, 1.0000001, 1.5, 2, math.pi / 2, math.pi, 3, 10,
           100, 300, 700, 710, 745, 1e3, 1e8, 1e20, 1e150, 1e300]:
    REAL_GRID += [float(_m), -float(_m)]

COMPLEX_GRID = []
for _a in [0, 0.5, -0.5, 1, -1, 2, -2]:
    for _b in [0.0, 0.5, -0.5, 1, -1, 2, -2, 1e-12, -1e-12, -0.0]:
        for _p in ((_a, _b), (_b, _a)):
            if _p not in COMPLEX_GRID:
                COMPLEX_GRID.append(_p)
for _s in [1e-9, -1e-9]:      # neighbourhoods of the poles and branch points +-1, +-i, 0
    COMPLEX_GRID += [(0, 1 + _s), (0, -1 + _s), (1 + _s, 0), (-1 + _s, 0), (_s, 1), (_s, -1), (1, _s), (-1, _s), (_s, _s)]
COMPLEX_GRID += [(1e10, 1e10), (-1e10, 1e-10), (1e150, -1e150), (1e-150, 1e-150), (1e300, 1e300), (0, 1e300), (0, 700),
                 (700, 1), (1, 700), (-710, 3), (3, -710), (1e-300, 1e-300), (0, 1e-300), (math.pi / 2, 1e-9),
                 (math.pi, -1e-9), (0, math.pi / 2), (1e-9, math.pi)]


def rand_real(rng):
    k = rng.random()
    if k < 0.5:
        return rng.uniform(-10, 10)
    if k < 0.7:
        return rng.uniform(-1.2, 1.2)
    return rng.choice([-1, 1]) * 10 ** rng.uniform(-30, 30)


def rand_complex(rng):
    k = rng.random()
    if k < 0.6:
        return (rng.uniform(-3, 3), rng.uniform(-3, 3))
    if k < 0.7:       # next to the real or the imaginary axis (branch cuts)
        t = rng.choice([1e-13, -1e-13, 1e-7, -1e-7])
        x = rng.uniform(-3, 3)
        return (x, t) if rng.random() < 0.5 else (t, x)
    r = 10 ** rng.uniform(-20, 20)
    t = rng.uniform(-math.pi, math.pi)
    return (r * math.cos(t), r * math.sin(t))


def scalar1_cases(names_by_table, rng, n_random):
    out = []
    for table, names in names_by_table:
        for f in names:
            pts = [['r', x] for x in REAL_GRID] + [['r', rand_real(rng)] for _ in range(n_random)]
            pts += [['c', float(a), float(b)] for a, b in COMPLEX_GRID] + [['c'] + list(rand_complex(rng)) for _ in range(n_random)]
            for a in pts:
                out.append({'table': table, 'fname': f, 'args': [a], 'stream': 'scalar'})
    return out


# ---------------------------------------------------------------------------------------------
PALETTE = [0, 1, -1, 2, -2, 3, 0.5, -0.5, 0.25, 1.5, -3, 4, 7, -0.0]


def pal_real(rng):
    return ['r', float(rng.choice(PALETTE))]


def pal_scalar(rng, pc=0.3):
    if rng.random() < pc:
        return ['c', float(rng.choice(PALETTE)), float(rng.choice(PALETTE))]
    return pal_real(rng)


def float_scalar(rng, pc=0.3):
    if rng.random() < pc:
        return ['c', rng.uniform(-5, 5), rng.uniform(-5, 5)]
    return ['r', rng.uniform(-5, 5)]


def make_array(rng, shape, exact=True, pc=0.3):
    cplx = rng.random() < pc
    g = (lambda: pal_scalar(rng, 0.6 if cplx else 0.0)) if exact else (lambda: float_scalar(rng, 0.6 if cplx else 0.0))
    if len(shape) == 1:
        return ['v', [g() for _ in range(shape[0])]]
    if len(shape) == 2:
        return ['m', [[g() for _ in range(shape[1])] for _ in range(shape[0])]]

    def rec(sh):
        return g() if not sh else [rec(sh[1:]) for _ in range(sh[0])]
    return ['t', rec(list(shape))]


def multi_cases(tables, rng, n_random):
    out = []

    def add(table, f, args, stream):
        out.append({'table': table, 'fname': f, 'args': args, 'stream': stream})
    for table in tables:
        # min / max
        for f in ('min', 'max'):
            fixed = [[1, 2], [2, 1], [2, 2.0], [-0.0, 0.0], [3, 1, 2], [1, 1, 1], [-5, 5, 0, 2.5], [1e300, -1e300], [1e-300, 0],
                     [0.1, 0.2, 0.30000000000000004, 0.3], [7, 7, 3, 3, 9]]
            for vals in fixed:
                add(table, f, [['r', float(v)] for v in vals], 'multi')
            add(table, f, [['r', 1.0], ['c', 2.0, 0.0]], 'multi')
            add(table, f, [['c', 1.0, 1.0], ['r', 2.0]], 'multi')
            add(table, f, [['c', 1.0, 0.0], ['c', 2.0, 3.0], ['r', 1.0]], 'multi')
            for _ in range(n_random):
                k = rng.randint(2, 6)
                add(table, f, [['r', rand_real(rng)] if rng.random() < 0.5 else pal_real(rng) for _ in range(k)], 'multi')
        # arctan2: axes, quadrants, origin, signed zeros, magnitudes
        pts = [(1, 0), (0, 1), (-1, 0), (0, -1), (1, 1), (-1, 1), (-1, -1), (1, -1), (0, 0), (0.0, -0.0), (-0.0, 0.0),
               (-0.0, -0.0), (2, 0.5), (-2, 0.5), (1e-300, 1e-300), (-1e300, 1e300), (1e300, 1), (-1, 1e-300), (-1, -1e-300),
               (-1, -0.0), (-1, 0.0), (3, -4), (1e-9, -1), (5, 5e-324)]
        for x, y in pts:
            add(table, 'arctan2', [['r', float(x)], ['r', float(y)]], 'multi')
        add(table, 'arctan2', [['r', 1.0], ['c', 0.0, 1.0]], 'multi')
        add(table, 'arctan2', [['c', 1.0, 2.0], ['r', 1.0]], 'multi')
        add(table, 'arctan2', [['c', 1.0, 0.0], ['r', 1.0]], 'multi')
        for _ in range(n_random):
            add(table, 'arctan2', [['r', rand_real(rng)], ['r', rand_real(rng)]], 'multi')
        # kronecker
        for x, y in [(1, 1), (1, 2), (0, 0), (0.0, -0.0), (2, 2.0), (0.1 + 0.2, 0.3), (-3, -3), (1e300, 1e300), (5, -5)]:
            add(table, 'kronecker', [['r', float(x)], ['r', float(y)]], 'multi')
        add(table, 'kronecker', [['c', 1.0, 0.0], ['r', 1.0]], 'multi')
        add(table, 'kronecker', [['c', 1.0, 2.0], ['c', 1.0, 2.0]], 'multi')
        add(table, 'kronecker', [['c', 1.0, 2.0], ['c', 1.0, -2.0]], 'multi')
        for _ in range(n_random):
            a = pal_scalar(rng)
            b = a if rng.random() < 0.4 else pal_scalar(rng)
            add(table, 'kronecker', [a, list(b)], 'multi')
        # re / im / conj on scalars (arrays below for the matrix table; the functions are the same objects)
        for f in ('re', 'im', 'conj'):
            for a in [['r', 2.0], ['r', -0.0], ['c', 1.0, 2.0], ['c', -3.5, -0.25], ['c', 0.0, 1e300], ['c', 1e-300, -1e-300]]:
                add(table, f, [a], 'array')
            for _ in range(n_random):
                add(table, f, [float_scalar(rng, 0.7)], 'array')
            for sh in [(1,), (3,), (2, 2), (2, 3), (2, 2, 2)]:
                add(table, f, [make_array(rng, sh, exact=True, pc=0.8)], 'array')
                add(table, f, [make_array(rng, sh, exact=False, pc=0.8)], 'array')
    return out


def matrix_cases(rng, n_random):
    out = []

    def add(f, args, stream='matrix'):
        out.append({'table': 'matrix', 'fname': f, 'args': args, 'stream': stream})
    shapes_any = [(1,), (2,), (3,), (5,), (1, 1), (2, 2), (2, 3), (3, 2), (3, 3), (4, 4), (1, 3), (2, 2, 2), (2, 1, 3)]
    for f in ('norm', 'trans', 'ctrans', 'adj', 'abs'):
        for a in [['r', 2.0], ['r', -3.0], ['c', 3.0, 4.0], ['c', 0.0, -2.0], ['r', 0.0]]:
            add(f, [a])
        for sh in shapes_any:
            for exact in (True, False):
                for _ in range(max(1, n_random // 4)):
                    add(f, [make_array(rng, sh, exact=exact)])
    add('norm', [['v', [['r', 3e200], ['r', 4e200]]]])
    add('norm', [['v', [['r', 3e-200], ['r', 4e-200]]]])
    add('abs', [['v', [['r', 3.0], ['r', 4.0]]]])
    add('abs', [['v', [['c', 0.0, 1.0], ['r', 1.0]]]])
    # det / trace
    fixed = [[[1, 2], [3, 4]], [[0, 0], [0, 0]], [[1, 0], [0, 1]], [[2, 0, 0], [0, 3, 0], [0, 0, 4]], [[1, 2, 3], [4, 5, 6], [7, 8, 9]],
             [[0, 1], [1, 0]], [[5]], [[0, 1, 0], [0, 0, 1], [1, 0, 0]], [[1, 2, 3], [0, 4, 5], [0, 0, 6]],
             [[2, 1, 0, 0], [1, 2, 1, 0], [0, 1, 2, 1], [0, 0, 1, 2]], [[1, 1], [1, 1]]]
    for m in fixed:
        enc = ['m', [[['r', float(x)] for x in row] for row in m]]
        add('det', [enc])
        add('trace', [enc])
    cm = ['m', [[['c', 1.0, 1.0], ['c', 0.0, 2.0]], [['r', 3.0], ['c', -1.0, 0.5]]]]
    add('det', [cm])
    add('trace', [cm])
    for k in (1, 2, 3, 4, 5):
        for exact in (True, False):
            for _ in range(max(1, n_random // 3)):
                a = make_array(rng, (k, k), exact=exact)
                add('det', [a])
                add('trace', [list(a)])
    # non-square / non-matrix arguments of det, trace
    for f in ('det', 'trace'):
        for a in [['r', 2.0], ['c', 1.0, 1.0], make_array(rng, (2,)), make_array(rng, (3,)), make_array(rng, (2, 3)),
                  make_array(rng, (3, 2)), make_array(rng, (1, 2)), make_array(rng, (2, 2, 2))]:
            add(f, [a], 'shape')
    # cross
    units = [[1, 0, 0], [0, 1, 0], [0, 0, 1]]
    for u in units:
        for v in units:
            add('cross', [['v', [['r', float(x)] for x in u]], ['v', [['r', float(x)] for x in v]]])
    add('cross', [['v', [['c', 0.0, 1.0], ['r', 2.0], ['r', 0.0]]], ['v', [['r', 1.0], ['c', 1.0, 1.0], ['r', -1.0]]]])
    for exact in (True, False):
        for _ in range(n_random):
            add('cross', [make_array(rng, (3,), exact=exact), make_array(rng, (3,), exact=exact)])
    v3, v2, v4 = make_array(rng, (3,)), make_array(rng, (2,)), make_array(rng, (4,))
    for args in [[v3, v2], [v2, v3], [v2, v2], [v4, v4], [['r', 1.0], v3], [v3, ['r', 2.0]], [['r', 1.0], ['r', 2.0]],
                 [make_array(rng, (3, 3)), v3], [v3, make_array(rng, (1, 3))], [make_array(rng, (3, 1)), make_array(rng, (3, 1))],
                 [v3, make_array(rng, (3, 1, 1))]]:
        add('cross', args, 'shape')
    return out


def r_(x):
    return ['r', float(x)]


def vec_(*xs):
    return ['v', [r_(x) for x in xs]]


def mat_(rows):
    return ['m', [[r_(x) for x in row] for row in rows]]


# what a hidden parameter of the underlying callable would swallow: ord / axis / axes / keepdims / out / offset / k
SURPLUS = [r_(0), r_(1), r_(2), r_(-1), vec_(1, 0), vec_(0, 1), mat_([[1, 0], [0, 1]]), ['c', 0.0, 1.0], r_(0.5)]


def natural_args(table, f, rng):
    """argument lists of the documented count and of plausible types, several variants"""
    if f == 'cross':
        return [[vec_(1, 2, 3), vec_(0, 1, -1)], [make_array(rng, (3,)), make_array(rng, (3,))]]
    if f in ('det', 'trace'):
        return [[mat_([[1, 2], [3, 4]])], [make_array(rng, (3, 3))]]
    if f in ('norm', 'trans', 'ctrans', 'adj') or (f == 'abs' and table == 'matrix'):
        return [[vec_(3, 4)], [mat_([[1, 2], [3, 4]])], [r_(2)], [make_array(rng, (2, 3))] if f != 'abs' else [vec_(1, 2, 2)]]
    if f in ('re', 'im', 'conj'):
        return [[['c', 1.0, 2.0]], [vec_(3, 4)], [mat_([[1, 2], [3, 4]])]]
    if f in ('min', 'max', 'arctan2', 'kronecker'):
        return [[r_(1), r_(2)], [pal_real(rng), pal_real(rng)]]
    return [[r_(0.5)], [pal_scalar(rng, 0.3)]]


def wrong_count_cases(table, f, rng):
    """n-1, n+1, n+2 arguments (documented n; min/max: fewer than 2), surplus arguments of every plausible kind"""
    out = []
    kind, n = O.documented_arity(f)
    for base in natural_args(table, f, rng):
        if n - 1 >= 1:
            out.append({'table': table, 'fname': f, 'args': [list(a) for a in base[:n - 1]], 'stream': 'arity'})
        if kind == 'at_least':
            continue
        for extra in (1, 2):
            for k, s in enumerate(SURPLUS):
                if extra == 2 and k % 3 != 0:
                    continue
                args = [list(a) for a in base] + [list(s)] + ([list(SURPLUS[(k + 4) % len(SURPLUS)])] if extra == 2 else [])
                out.append({'table': table, 'fname': f, 'args': args, 'stream': 'arity'})
    return out


def arity_shape_cases(table_names, rng):
    """EVERY table entry (factorial included: its count rule needs no scipy) x wrong argument counts; every
    non-excluded entry x wrong argument shapes"""
    out = []
    for table, names in table_names:
        for f in names:
            out += wrong_count_cases(table, f, rng)
            if f in O.EXCLUDED:
                continue
            right = {'min': (2,), 'max': (2,), 'arctan2': (2,), 'kronecker': (2,), 'cross': (2,)}.get(f, (1,))
            scalar_only = (f in O.SCALAR1 and not (f == 'abs' and table == 'matrix')) or f in ('min', 'max', 'arctan2', 'kronecker')
            if scalar_only:
                n = right[0]
                for sh in [(1,), (2,), (3,), (2, 2), (2, 3), (2, 2, 2)]:
                    for pos in range(n):
                        args = [pal_scalar(rng, 0.2) for _ in range(n)]
                        args[pos] = make_array(rng, sh)
                        out.append({'table': table, 'fname': f, 'args': args, 'stream': 'shape'})
                if n == 2:
                    out.append({'table': table, 'fname': f, 'args': [make_array(rng, (2,)), make_array(rng, (2,))], 'stream': 'shape'})
            if f == 'abs' and table == 'matrix':
                for sh in [(2, 2), (1, 1), (2, 3), (2, 2, 2)]:
                    out.append({'table': table, 'fname': f, 'args': [make_array(rng, sh)], 'stream': 'shape'})
    return out
