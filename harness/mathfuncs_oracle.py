"""
mathfuncs_oracle.py -- C15: independent executable statement of the property, applied to what the implementation returned.

The reference never uses numpy: forward functions come from Python's math/cmath (CPython's own complex library),
exact functions (floor, ceil, min, max, re, im, conj, kronecker, trans, ctrans, trace, det, cross, norm^2) from
Fraction arithmetic.  Inverse functions are judged by the identity  f(f_inverse(z)) = z  (forward function from cmath,
tolerance widened by the conditioning |f'(w)|*|w|*ulp) and, on real arguments inside the real domain, by realness and
the principal range -- so that no branch convention of the reference is imposed.

What is demanded (and nothing more):
  * in the domain: a finite value of the right shape within a mixed tolerance (1e-9 absolute + 1e-9 relative);
  * at exact poles / for un-orderable or complex arguments of floor, ceil, min, max, arctan2 / for wrong arity or
    shape: a StudentFacingError;
  * 'either' regions (real arguments outside the real domain of a function for which the property does not state a
    complex continuation, complex-typed values with zero imaginary part given to real-only functions, magnitudes where
    the value or an intermediate leaves the normal double range): a correct value or a StudentFacingError;
  * never: nan, a numpy RuntimeWarning/ComplexWarning, a non-student-facing exception, a wrong-shaped value;
  * a number-like (one-element) array at a scalar position is, by the library's design, the number it holds: the call
    must give exactly what the call on that number gives -- a NUMBER, not a one-element array or a bare ndarray.
"""
import cmath
import math
import warnings
from fractions import Fraction

EPS = 2.0 ** -52
ATOL = 1e-9
RTOL = 1e-9
BIG = 1e150          # beyond this the identity/forward reference may overflow: value-or-error accepted
PI = math.pi

FORWARD = {
    'sin': cmath.sin, 'cos': cmath.cos, 'tan': cmath.tan,
    'sec': lambda z: 1 / cmath.cos(z), 'csc': lambda z: 1 / cmath.sin(z), 'cot': lambda z: 1 / cmath.tan(z),
    'sinh': cmath.sinh, 'cosh': cmath.cosh, 'tanh': cmath.tanh,
    'sech': lambda z: 1 / cmath.cosh(z), 'csch': lambda z: 1 / cmath.sinh(z), 'coth': lambda z: 1 / cmath.tanh(z),
    'exp': cmath.exp,
}
# derivative of the forward function (for the conditioning of the identity check)
DERIV = {
    'sin': cmath.cos, 'cos': lambda w: -cmath.sin(w), 'tan': lambda w: 1 + cmath.tan(w) ** 2,
    'sec': lambda w: cmath.tan(w) / cmath.cos(w), 'csc': lambda w: -1 / (cmath.tan(w) * cmath.sin(w)),
    'cot': lambda w: -(1 + 1 / cmath.tan(w) ** 2),
    'sinh': cmath.cosh, 'cosh': cmath.sinh, 'tanh': lambda w: 1 - cmath.tanh(w) ** 2,
    'sech': lambda w: -cmath.tanh(w) / cmath.cosh(w), 'csch': lambda w: -1 / (cmath.tanh(w) * cmath.sinh(w)),
    'coth': lambda w: 1 - 1 / cmath.tanh(w) ** 2,
}
INVERSE_OF = {'arcsin': 'sin', 'arccos': 'cos', 'arctan': 'tan', 'arcsec': 'sec', 'arccsc': 'csc', 'arccot': 'cot',
              'arcsinh': 'sinh', 'arccosh': 'cosh', 'arctanh': 'tanh', 'arcsech': 'sech', 'arccsch': 'csch',
              'arccoth': 'coth'}
# principal range of the real inverse on its real domain: (lo, hi) closed, checked with a 1e-9 slack
REAL_RANGE = {'arcsin': (-PI / 2, PI / 2), 'arccos': (0, PI), 'arctan': (-PI / 2, PI / 2), 'arcsec': (0, PI),
              'arccsc': (-PI / 2, PI / 2), 'arccot': (-PI / 2, PI),      # both textbook conventions admitted
              'arcsinh': (-math.inf, math.inf), 'arccosh': (0, math.inf), 'arctanh': (-math.inf, math.inf),
              'arcsech': (0, math.inf), 'arccsch': (-math.inf, math.inf), 'arccoth': (-math.inf, math.inf)}
LOGS = {'ln': 1.0, 'log10': math.log(10), 'log2': math.log(2)}
SCALAR1 = set(FORWARD) | set(INVERSE_OF) | set(LOGS) | {'sqrt', 'abs', 'floor', 'ceil'}
EXCLUDED = {'fact', 'factorial'}


# ------------------------------------------------------------------------------------------------
# argument encoding (JSON-able, replayable):  ['r', x] ['c', re, im] ['v', [s..]] ['m', [[s..]..]] ['t', nested]
# where s is ['r', x] or ['c', re, im]
# ------------------------------------------------------------------------------------------------
def is_scalar(a):
    return a[0] in ('r', 'c')


def sc(a):
    return float(a[1]) if a[0] == 'r' else complex(a[1], a[2])


def is_complex_typed(a):
    return a[0] == 'c'


def nested(a):
    """python nested lists of numbers for array args"""
    if a[0] == 'v':
        return [sc(x) for x in a[1]]
    if a[0] == 'm':
        return [[sc(x) for x in row] for row in a[1]]
    if a[0] == 't':
        def rec(x):
            return sc(x) if isinstance(x[0], str) else [rec(y) for y in x]
        return rec(a[1])
    raise ValueError(a)


def shape_of(a):
    if is_scalar(a):
        return ()
    if a[0] == 'v':
        return (len(a[1]),)
    if a[0] == 'm':
        return (len(a[1]), len(a[1][0]))
    x, sh = a[1], []
    while not isinstance(x[0], str):
        sh.append(len(x))
        x = x[0]
    return tuple(sh)


def flat(a):
    if is_scalar(a):
        return [sc(a)]
    out = []

    def rec(x):
        if isinstance(x, list):
            for y in x:
                rec(y)
        else:
            out.append(x)
    rec(nested(a))
    return out


def to_python(a):
    from mitxgraders.helpers.calc.math_array import MathArray
    return sc(a) if is_scalar(a) else MathArray(nested(a))


def fr(x):
    """exact Gaussian rational (re, im) of a python number"""
    z = complex(x)
    return Fraction(z.real), Fraction(z.imag)


# ------------------------------------------------------------------------------------------------
# running the implementation
# ------------------------------------------------------------------------------------------------
def tables():
    from mitxgraders import FormulaGrader, NumericalGrader, MatrixGrader
    return {'formula': FormulaGrader.default_functions, 'numerical': NumericalGrader.default_functions,
            'matrix': MatrixGrader.default_functions}


# ---- numpy floating-point error state (process-wide): snapshot, comparison after every implementation call, restore
FP_BASELINE = {}
FP_LEAKS = []          # (label, before, after) for every call after which the state differed; drained by the harness


def fp_state():
    import numpy as np
    cb = np.geterrcall()
    return dict(np.geterr()), getattr(cb, '__name__', repr(cb))


def fp_capture_baseline():
    """the state the library configures at import (expressions.py): taken once, at the start of a run"""
    import numpy as np
    import mitxgraders.helpers.calc.expressions      # noqa -- the import configures the state
    FP_BASELINE['err'] = dict(np.geterr())
    FP_BASELINE['call'] = np.geterrcall()
    del FP_LEAKS[:]
    return fp_state()


def fp_restore():
    import numpy as np
    if FP_BASELINE:
        np.seterr(**FP_BASELINE['err'])
        np.seterrcall(FP_BASELINE['call'])


def fp_check(label):
    """after an implementation call: has the process-wide error state changed?  If so note it (the harness turns it into
    a witness naming the call) and put the known-good state back, so that a leak cannot poison the rest of the run."""
    import numpy as np
    if not FP_BASELINE:
        return None
    now_err, now_call = dict(np.geterr()), np.geterrcall()
    if now_err != FP_BASELINE['err'] or now_call is not FP_BASELINE['call']:
        leak = (label, {'geterr': FP_BASELINE['err'], 'geterrcall': getattr(FP_BASELINE['call'], '__name__', None)},
                {'geterr': now_err, 'geterrcall': getattr(now_call, '__name__', repr(now_call))})
        FP_LEAKS.append(leak)
        fp_restore()
        return leak
    return None


def run_impl(table, fname, args, formula=None, functions=None, max_array_dim=None):
    """Evaluate f(args) through the real evaluator.  Returns a dict:
    status 'ret' | 'exc', value, exc (class name), student_facing, msg, warnings (list of category:text),
    fp_changed (the numpy error state differed after the call; it has been restored)."""
    from mitxgraders.helpers.calc.expressions import evaluator
    from mitxgraders.helpers.calc.mathfuncs import DEFAULT_VARIABLES
    from mitxgraders.exceptions import StudentFacingError
    variables = dict(DEFAULT_VARIABLES)
    names = []
    for k, a in enumerate(args):
        variables['a%d' % k] = to_python(a)
        names.append('a%d' % k)
    text = formula if formula is not None else '%s(%s)' % (fname, ','.join(names))
    obs = {'formula': text}
    try:
        with warnings.catch_warnings(record=True) as wlist:
            warnings.simplefilter('always')
            try:
                value = evaluator(text, variables=variables, functions=functions if functions is not None else tables()[table],
                                  max_array_dim=max_array_dim)[0]
                obs.update(status='ret', value=value)
            except Exception as e:     # noqa
                obs.update(status='exc', exc=type(e).__name__, student_facing=isinstance(e, StudentFacingError), msg=str(e))
        obs['warnings'] = ['%s:%s' % (w.category.__name__, w.message) for w in wlist
                           if not issubclass(w.category, (DeprecationWarning, PendingDeprecationWarning))]
    finally:
        obs['fp_changed'] = fp_check('evaluator(%r) on the %s table with %r' % (text, table, args))
    return obs


# ------------------------------------------------------------------------------------------------
# the property
# ------------------------------------------------------------------------------------------------
def close(a, b, scale=None, extra=0.0):
    s = max(abs(b), abs(a)) if scale is None else scale
    return abs(a - b) <= ATOL + RTOL * s + extra


def finite(v):
    z = complex(v)
    return not (math.isnan(z.real) or math.isnan(z.imag) or math.isinf(z.real) or math.isinf(z.imag))


def is_number(v):
    import numbers
    return isinstance(v, numbers.Number) and not isinstance(v, bool)


def as_scalar(v):
    """a python/numpy scalar or 0-d array -> python complex, else None"""
    try:
        import numpy as np
        if isinstance(v, np.ndarray):
            if v.shape != ():
                return None
            v = v.item()
    except ImportError:
        pass
    return complex(v) if is_number(v) else None


def real_domain(fname, x):
    """for a real argument x: 'in' | 'pole' | 'out' (outside the real domain, no pole)"""
    if fname in ('cot', 'csc', 'coth', 'csch'):
        return 'pole' if x == 0 else 'in'
    if fname in LOGS:
        return 'pole' if x == 0 else 'in'           # negative reals: complex continuation is part of the statement
    if fname in ('arcsin', 'arccos'):
        return 'in' if abs(x) <= 1 else 'out'
    if fname in ('arcsec', 'arccsc'):
        return 'pole' if x == 0 else ('in' if abs(x) >= 1 else 'out')
    if fname == 'arccosh':
        return 'in' if x >= 1 else 'out'
    if fname == 'arctanh':
        return 'pole' if abs(x) == 1 else ('in' if abs(x) < 1 else 'out')
    if fname == 'arcsech':
        return 'pole' if x == 0 else ('in' if 0 < x <= 1 else 'out')
    if fname == 'arccsch':
        return 'pole' if x == 0 else 'in'
    if fname == 'arccoth':
        return 'pole' if abs(x) == 1 else ('in' if abs(x) > 1 else 'out')
    return 'in'


def complex_pole(fname, z):
    if fname in ('cot', 'csc', 'coth', 'csch', 'arcsec', 'arccsc', 'arcsech', 'arccsch') or fname in LOGS:
        return z == 0
    if fname in ('arctan', 'arccot'):
        return z == 1j or z == -1j
    if fname in ('arctanh', 'arccoth'):
        return z == 1 or z == -1
    return False


def overflow_region(fname, z):
    """the value, its reciprocal or an intermediate of the textbook formula leaves the normal double range"""
    z = complex(z)
    if abs(z) > BIG or (z != 0 and abs(z) < 1 / BIG):
        return True
    if fname in ('exp', 'sinh', 'cosh', 'sech', 'csch', 'tanh', 'coth'):
        return abs(z.real) > 300
    if fname in ('sin', 'cos', 'sec', 'csc', 'tan', 'cot'):
        return abs(z.imag) > 300
    return False


def judge_scalar1(fname, a, obs):
    """one-argument scalar functions; returns None (satisfied) or a string (violation)"""
    z = sc(a)
    cplx = is_complex_typed(a)
    # --- what is demanded here
    if fname in ('floor', 'ceil'):
        mode = 'in' if not cplx else ('either' if z.imag == 0 else 'error')
    elif cplx:
        mode = 'error' if complex_pole(fname, z) else 'in'
        if fname == 'arccoth' and z == 0:
            mode = 'either'      # on the cut [-1, 1]; the defining formula arctanh(1/z) passes through infinity
    else:
        d = real_domain(fname, z)
        mode = {'in': 'in', 'pole': 'error', 'out': 'either'}[d]
    if mode == 'in' and overflow_region(fname, z):
        mode = 'either'
    if obs['status'] == 'exc':
        if not obs['student_facing']:
            return 'non-student-facing %s: %s' % (obs['exc'], obs['msg'][:120])
        if mode == 'in':
            return 'in-domain argument raised %s: %s' % (obs['exc'], obs['msg'][:120])
        return None
    if mode == 'error':
        return 'argument outside the domain returned %r instead of a student-facing error' % (obs['value'],)
    w = as_scalar(obs['value'])
    if w is None:
        return 'returned a non-scalar %r' % (obs['value'],)
    if not finite(w):
        return 'returned non-finite %r' % (obs['value'],)
    return check_value(fname, z, cplx, w, mode)


def identity_holds(fwd, w, back, z):
    """f(w) = z up to the mixed tolerance widened by the conditioning of f at w; next to a pole of f (|z| large) the
    comparison is made on the reciprocals (chordal distance), where the double nearest to the exact preimage lands"""
    cond = 64 * EPS * abs(DERIV[fwd](w)) * max(abs(w), 1e-300)
    if close(back, z, extra=cond):
        return True
    if z != 0 and back != 0:
        rb, rz = 1 / back, 1 / z
        if abs(rb - rz) <= ATOL + RTOL * max(abs(rb), abs(rz)) + cond / abs(back) ** 2:
            return True
    return False


def check_value(fname, z, cplx, w, mode):
    z = complex(z)
    try:
        if fname in FORWARD:
            ref = FORWARD[fname](z)
            if not close(w, ref):
                return 'value %r, textbook value %r' % (w, ref)
            return None
        if fname == 'abs':
            ref = math.hypot(z.real, z.imag)
            if w.imag != 0 or not close(w.real, ref):
                return 'value %r, textbook value %r' % (w, ref)
            return None
        if fname in ('floor', 'ceil'):
            ref = math.floor(z.real) if fname == 'floor' else math.ceil(z.real)
            if w != ref:
                return 'value %r, textbook value %r' % (w, ref)
            return None
        if fname == 'sqrt':
            if not close(w * w, z, extra=8 * EPS * abs(z)):
                return 'sqrt: %r squared is %r, not %r' % (w, w * w, z)
            if w.real < 0 or (w.real == 0 and w.imag < 0 and z.imag == 0 and not math.copysign(1, z.imag) < 0):
                return 'sqrt: %r is not the principal root' % (w,)
            if not cplx and z.real >= 0 and w.imag != 0:
                return 'sqrt of a non-negative real is not real: %r' % (w,)
            return None
        if fname in LOGS:
            base = LOGS[fname]
            back = cmath.exp(w * base)
            cond = 16 * EPS * abs(z) * max(1.0, abs(w * base))
            if not close(back, z, extra=cond):
                return '%s: base**%r = %r, not %r' % (fname, w, back, z)
            if not (-PI - 1e-9 <= w.imag * base <= PI + 1e-9):
                return '%s: imaginary part of %r outside the principal strip' % (fname, w)
            if not cplx and z.real > 0 and w.imag != 0:
                return '%s of a positive real is not real: %r' % (fname, w)
            if z.imag == 0 and z.real < 0 and not (math.copysign(1, z.imag) < 0) and w.imag < 0:
                return '%s of a negative real: %r is not on the principal branch (+pi)' % (fname, w)
            return None
        if fname in INVERSE_OF:
            fwd = INVERSE_OF[fname]
            back = FORWARD[fwd](w)
            if not identity_holds(fwd, w, back, z):
                return '%s: %s(%r) = %r, not %r' % (fname, fwd, w, back, z)
            if fname == 'arccot' and z == 0 and not close(w, PI / 2):
                return 'arccot(0) = %r, textbook value pi/2 (in either convention)' % (w,)
            if not cplx and real_domain(fname, z.real) == 'in':
                lo, hi = REAL_RANGE[fname]
                if abs(w.imag) > 0:
                    return '%s of a real argument in the real domain is not real: %r' % (fname, w)
                if not (lo - 1e-9 <= w.real <= hi + 1e-9):
                    return '%s: %r outside the principal range [%r, %r]' % (fname, w.real, lo, hi)
            return None
    except (OverflowError, ZeroDivisionError, ValueError):
        return None          # the reference itself cannot be evaluated here: only finiteness was demanded
    return 'no reference for %s' % fname


def documented_arity(fname):
    """('exactly', n) | ('at_least', n) -- docs/grading_math/functions_and_constants.md"""
    if fname in ('min', 'max'):
        return ('at_least', 2)
    if fname in ('arctan2', 'kronecker', 'cross'):
        return ('exactly', 2)
    return ('exactly', 1)


def wrong_count(fname, n):
    kind, k = documented_arity(fname)
    return n < k if kind == 'at_least' else n != k


def scalar_domain(fname, table):
    return (fname in SCALAR1 and not (fname == 'abs' and table == 'matrix')) or fname in ('min', 'max', 'arctan2', 'kronecker')


def numberlike_item(a):
    """['v'|'m'|'t', ...] with exactly one element -> that element as a scalar argument; anything else unchanged"""
    if is_scalar(a):
        return a
    sh = shape_of(a)
    if len(sh) >= 1 and all(d == 1 for d in sh):
        x = a[1]
        while not isinstance(x[0], str):
            x = x[0]
        return list(x)
    return a


def judge(case, obs):
    """case: {'table','fname','args'}; returns None or a violation text.  Demands exactly the property."""
    fname, args, table = case['fname'], case['args'], case['table']
    if obs.get('fp_changed'):
        return 'the call left the numpy floating-point error state changed: %r -> %r' % (obs['fp_changed'][1], obs['fp_changed'][2])
    if obs['warnings']:
        return 'warning emitted: %s' % obs['warnings'][0][:160]
    if obs['status'] == 'exc' and not obs['student_facing']:
        return 'non-student-facing %s: %s' % (obs['exc'], obs['msg'][:120])
    if obs['status'] == 'ret':
        v = obs['value']
        try:
            import numpy as np
            if np.any(np.isnan(np.asarray(v, dtype=complex))):
                return 'returned nan: %r' % (v,)
        except (TypeError, ValueError):
            return 'returned a non-numeric value %r' % (v,)
    n = len(args)
    is_matrix_table = (table == 'matrix')
    if scalar_domain(fname, table):
        # a number-like (one-element) array stands for the number it holds (library design: is_numberlike_array);
        # the call must then behave exactly like the call on that number -- in particular return a NUMBER
        args = [numberlike_item(a) for a in args]
    shapes = [shape_of(a) for a in args]

    def must_raise(why):
        if obs['status'] == 'ret':
            return '%s: returned %r instead of a student-facing error' % (why, obs['value'])
        return None

    def must_value():
        if obs['status'] == 'exc':
            return 'in-domain call raised %s: %s' % (obs['exc'], obs['msg'][:120])
        return None

    # ---- arity: a count that differs from the documented one raises a student-facing error, whatever the surplus
    # arguments are -- in particular it is never absorbed by a hidden parameter of the underlying callable
    def must_arity():
        if obs['status'] == 'ret':
            return 'wrong number of arguments (%d): returned %r instead of a student-facing error' % (n, obs['value'])
        return None      # which student-facing class it is stays with the correspondence (non-student-facing: rejected above)
    if wrong_count(fname, n):
        return must_arity()

    # ---- per function
    if fname in SCALAR1 and not (fname == 'abs' and is_matrix_table):
        if shapes[0] != ():
            return must_raise('array given to a scalar function')
        return judge_scalar1(fname, args[0], obs)

    if fname in ('min', 'max'):
        if any(s != () for s in shapes):
            return must_raise('array given to %s' % fname)
        vals = [sc(a) for a in args]
        if any(complex(v).imag != 0 for v in vals):
            return must_raise('complex numbers cannot be ordered')
        if any(is_complex_typed(a) for a in args):
            if obs['status'] == 'exc':
                return None
        bad = must_value()
        if bad:
            return bad
        w = as_scalar(obs['value'])
        ref = (min if fname == 'min' else max)(complex(v).real for v in vals)
        if w is None or w != ref:
            return '%s%r = %r, expected %r' % (fname, tuple(vals), obs['value'], ref)
        return None

    if fname == 'arctan2':
        if any(s != () for s in shapes):
            return must_raise('array given to arctan2')
        x, y = sc(args[0]), sc(args[1])
        if complex(x).imag != 0 or complex(y).imag != 0:
            return must_raise('complex argument of arctan2')
        x, y = complex(x).real, complex(y).real
        if x == 0 and y == 0:
            return must_raise('arctan2(0, 0)')
        if any(is_complex_typed(a) for a in args) and obs['status'] == 'exc':
            return None
        bad = must_value()
        if bad:
            return bad
        w = as_scalar(obs['value'])
        if w is None or w.imag != 0:
            return 'arctan2 returned %r' % (obs['value'],)
        r = math.hypot(x, y)
        if abs(r * math.cos(w.real) - x) > 1e-9 * r or abs(r * math.sin(w.real) - y) > 1e-9 * r \
                or not (-PI - 1e-12 <= w.real <= PI + 1e-12):
            return 'arctan2(x=%r, y=%r) = %r is not the angle of the point (x, y)' % (x, y, w.real)
        return None

    if fname == 'kronecker':
        if any(s != () for s in shapes):
            return must_raise('array given to kronecker')
        bad = must_value()
        if bad:
            return bad
        ref = 1 if fr(sc(args[0])) == fr(sc(args[1])) else 0
        w = as_scalar(obs['value'])
        if w is None or w != ref:
            return 'kronecker = %r, expected %r' % (obs['value'], ref)
        return None

    if fname in ('re', 'im', 'conj'):
        bad = must_value()
        if bad:
            return bad
        xs = flat(args[0])
        ref = [{'re': complex(x).real, 'im': complex(x).imag, 'conj': complex(x).conjugate()}[fname] for x in xs]
        return compare_array(fname, obs['value'], shapes[0], ref, exact=True)

    # ---- matrix table
    if fname == 'norm' or (fname == 'abs' and is_matrix_table):
        if fname == 'abs' and len(shapes[0]) > 1:
            return must_raise('abs of a matrix/tensor')
        xs = flat(args[0])
        big = max([abs(x) for x in xs] + [0.0])
        if big > BIG or (0 < big < 1 / BIG):
            return None
        bad = must_value()
        if bad:
            return bad
        sq = sum((Fraction(complex(x).real) ** 2 + Fraction(complex(x).imag) ** 2 for x in xs), Fraction(0))
        w = as_scalar(obs['value'])
        if w is None or w.imag != 0 or w.real < 0:
            return '%s returned %r' % (fname, obs['value'])
        ref = math.sqrt(sq)
        if not close(w.real, ref):
            return '%s = %r, textbook value %r' % (fname, w.real, ref)
        return None

    if fname in ('trans', 'ctrans', 'adj'):
        bad = must_value()
        if bad:
            return bad
        a = args[0]
        cj = (lambda x: complex(x).conjugate()) if fname != 'trans' else (lambda x: x)
        if len(shapes[0]) <= 1:
            return compare_array(fname, obs['value'], shapes[0], [cj(x) for x in flat(a)], exact=True)
        if len(shapes[0]) == 2:
            m = nested(a)
            r, c = shapes[0]
            ref = [cj(m[i][j]) for j in range(c) for i in range(r)]
            return compare_array(fname, obs['value'], (c, r), ref, exact=True)
        return None       # tensors: numpy reverses all axes; the property names no textbook value

    if fname in ('det', 'trace'):
        if len(shapes[0]) != 2 or shapes[0][0] != shapes[0][1]:
            return must_raise('%s of a non-square argument' % fname)
        m = nested(args[0])
        k = shapes[0][0]
        big = max(abs(x) for row in m for x in row)
        if big > 1e30 or (0 < big < 1e-30):
            return None
        bad = must_value()
        if bad:
            return bad
        w = as_scalar(obs['value'])
        if w is None:
            return '%s returned %r' % (fname, obs['value'])
        fm = [[fr(x) for x in row] for row in m]
        if fname == 'trace':
            ref = gsum([fm[i][i] for i in range(k)])
            scale = sum(abs(m[i][i]) for i in range(k))
        else:
            ref = gdet(fm)
            scale = 1.0
            for row in m:
                scale *= math.sqrt(sum(abs(x) ** 2 for x in row)) or 0.0
        refc = complex(float(ref[0]), float(ref[1]))
        if abs(w - refc) > ATOL + RTOL * max(scale, abs(refc)) * k:
            return '%s = %r, textbook value %r' % (fname, w, refc)
        return None

    if fname == 'cross':
        if shapes[0] != (3,) or shapes[1] != (3,):
            return must_raise('cross of arguments that are not 3-vectors')
        bad = must_value()
        if bad:
            return bad
        a, b = [fr(x) for x in flat(args[0])], [fr(x) for x in flat(args[1])]
        ref = [gsub(gmul(a[1], b[2]), gmul(a[2], b[1])), gsub(gmul(a[2], b[0]), gmul(a[0], b[2])),
               gsub(gmul(a[0], b[1]), gmul(a[1], b[0]))]
        scale = max([abs(x) for x in flat(args[0])] + [0]) * max([abs(x) for x in flat(args[1])] + [0])
        if scale > BIG:
            return None
        return compare_array(fname, obs['value'], (3,), [complex(float(r[0]), float(r[1])) for r in ref],
                             exact=False, scale=scale)
    if fname in EXCLUDED:
        return None
    return 'no oracle for table entry %r' % fname


# Gaussian-rational helpers
def gmul(a, b):
    return (a[0] * b[0] - a[1] * b[1], a[0] * b[1] + a[1] * b[0])


def gsub(a, b):
    return (a[0] - b[0], a[1] - b[1])


def gsum(xs):
    return (sum((x[0] for x in xs), Fraction(0)), sum((x[1] for x in xs), Fraction(0)))


def gdet(m):
    """Laplace expansion along the first row, exact"""
    n = len(m)
    if n == 0:
        return (Fraction(1), Fraction(0))
    if n == 1:
        return m[0][0]
    tot = (Fraction(0), Fraction(0))
    for j in range(n):
        minor = [row[:j] + row[j + 1:] for row in m[1:]]
        t = gmul(m[0][j], gdet(minor))
        tot = (tot[0] + t[0], tot[1] + t[1]) if j % 2 == 0 else (tot[0] - t[0], tot[1] - t[1])
    return tot


def compare_array(fname, value, shape, ref_flat, exact, scale=1.0):
    import numpy as np
    arr = np.asarray(value)
    if tuple(arr.shape) != tuple(shape):
        return '%s returned shape %r, expected %r' % (fname, tuple(arr.shape), tuple(shape))
    got = [complex(x) for x in arr.reshape(-1)] if arr.shape != () else [complex(arr.item())]
    for g, r in zip(got, ref_flat):
        r = complex(r)
        if exact:
            if g != r:
                return '%s entry %r, expected %r' % (fname, g, r)
        elif abs(g - r) > ATOL + RTOL * max(scale, abs(r)):
            return '%s entry %r, expected %r' % (fname, g, r)
    return None


CONSTANTS = {'i': 1j, 'j': 1j, 'e': math.e, 'pi': math.pi}


def judge_constant(name, obs):
    if obs['warnings']:
        return 'warning emitted: %s' % obs['warnings'][0]
    if obs['status'] != 'ret':
        return 'constant %s raised %s' % (name, obs.get('exc'))
    v = obs['value']
    if not is_number(v) or complex(v) != complex(CONSTANTS[name]):
        return 'constant %s = %r, standard value %r' % (name, v, CONSTANTS[name])
    return None
