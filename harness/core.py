"""
core.py -- shared machinery of the /verif checks.

Flow of one check (see DESIGN.md section 2.5):
  1. regenerate coq/Gen/*.v from /repo's working tree (translators, fail-closed)
  2. build the closure of coq/Props/<id>.v with make (full .vo build, under timeout)
  3. Print Assumptions for every Theorem of Props/<id>.v, compared with the allowed axiom list
  4. correspondence run (model evaluated by coqc/vm_compute on the inputs the implementation ran)
  5. property oracle on the implementation (search for a concrete failing input)
  6. evidence + VIOLATION / KNOWN-FINDING lines
"""
import ast
import fcntl
import glob
import hashlib
import json
import os
import re
import signal
import subprocess
import sys
import time
import traceback
from concurrent.futures import ThreadPoolExecutor
from fractions import Fraction

VERIF = os.path.dirname(os.path.dirname(os.path.abspath(__file__)))
REPO = os.environ.get('VERIF_REPO', '/repo')
COQ = os.path.join(VERIF, 'coq')
BUILD = os.path.join(VERIF, '_build')
CASES = os.path.join(COQ, 'Cases')
NPROC = 16

FORBIDDEN = re.compile(r'\b(Admitted|admit|Axiom|Axioms|Parameter|Parameters|Conjecture|Conjectures|'
                       r'Admit Obligations|bypass_check|Unset Guard Checking|Unset Positivity Checking|'
                       r'Unset Universe Checking)\b|-type-in-type|-impredicative-set')

# axioms declared by the standard library that a Props file may depend on; each is named in the
# evidence's trusted_base when it occurs.  Everything else makes the obligation undischarged.
ALLOWED_AXIOMS = {
    'ClassicalDedekindReals.sig_forall_dec', 'ClassicalDedekindReals.sig_not_dec',
    'FunctionalExtensionality.functional_extensionality_dep',
    'Classical_Prop.classic', 'Eqdep.Eq_rect_eq.eq_rect_eq',
    'ProofIrrelevance.proof_irrelevance', 'JMeq.JMeq_eq',
    'sig_forall_dec', 'sig_not_dec', 'functional_extensionality_dep', 'classic',
}


# axioms / primitive specifications declared by Coq's standard library, by module prefix as Print Assumptions prints them
ALLOWED_PREFIXES = ('Uint63.', 'PrimInt63.', 'PrimFloat.', 'Sint63.', 'FloatAxioms.', 'SpecFloat.', 'PrimArray.',
                    'ClassicalDedekindReals.', 'FunctionalExtensionality.', 'Classical_Prop.', 'ClassicalEpsilon.',
                    'ProofIrrelevance.', 'Eqdep.', 'JMeq.', 'Raxioms.', 'Rdefinitions.', 'PropExtensionality.',
                    'ChoiceFacts.', 'IndefiniteDescription.', 'ClassicalUniqueChoice.', 'Epsilon.', 'Description.',
                    'Coq.')


def axiom_allowed(a):
    return a in ALLOWED_AXIOMS or a.split('.')[-1] in ALLOWED_AXIOMS or a.startswith(ALLOWED_PREFIXES)


def log(*a):
    print(*a, file=sys.stderr, flush=True)


# ------------------------------------------------------------------------------------------------
# files
# ------------------------------------------------------------------------------------------------
def write_if_changed(path, text):
    os.makedirs(os.path.dirname(path), exist_ok=True)
    try:
        with open(path) as f:
            if f.read() == text:
                return False
    except FileNotFoundError:
        pass
    with open(path, 'w') as f:
        f.write(text)
    return True


def repo_source(rel):
    with open(os.path.join(REPO, rel)) as f:
        return f.read()


class Lock:
    def __init__(self, name='build'):
        os.makedirs(BUILD, exist_ok=True)
        self.path = os.path.join(BUILD, '.%s.lock' % name)

    def __enter__(self):
        self.f = open(self.path, 'w')
        fcntl.flock(self.f, fcntl.LOCK_EX)
        return self

    def __exit__(self, *a):
        fcntl.flock(self.f, fcntl.LOCK_UN)
        self.f.close()


# ------------------------------------------------------------------------------------------------
# Coq literals (all emitted from exact Python values; floats become exact dyadic rationals)
# ------------------------------------------------------------------------------------------------
def zlit(n):
    n = int(n)
    return '(%d)%%Z' % n if n < 0 else '%d%%Z' % n


def natlit(n):
    assert 0 <= int(n) < 5000, 'nat literal too large'
    return '%d%%nat' % int(n)


def qlit(x):
    """exact rational literal; x may be int, float (finite) or Fraction"""
    fr = Fraction(x)
    return '(Qmake %s %d%%positive)' % (zlit(fr.numerator), fr.denominator)


def boollit(b):
    return 'true' if b else 'false'


def listlit(items):
    return '[' + '; '.join(items) + ']'


def strlit(s):
    """Python str -> list Z of code points"""
    return '(' + listlit([zlit(ord(c)) for c in s]) + ' : list Z)' if s else '(@nil Z)'


def optlit(x, f):
    return 'None' if x is None else '(Some %s)' % f(x)


def pairlit(a, b):
    return '(%s, %s)' % (a, b)


# ------------------------------------------------------------------------------------------------
# building
# ------------------------------------------------------------------------------------------------
SUBDIRS = ['Lib', 'Gen', 'Model', 'Bridge', 'Proofs', 'Props']


def coq_files():
    out = []
    for d in SUBDIRS:
        out += sorted(glob.glob(os.path.join(COQ, d, '*.v')))
    return [os.path.relpath(p, COQ) for p in out]


def ensure_makefile():
    files = coq_files()
    text = '-Q . Verif\n-arg -w -arg -all\n' + '\n'.join(files) + '\n'
    changed = write_if_changed(os.path.join(COQ, '_CoqProject'), text)
    if changed or not os.path.exists(os.path.join(COQ, 'Makefile')):
        subprocess.run(['coq_makefile', '-f', '_CoqProject', '-o', 'Makefile'], cwd=COQ, check=True,
                       stdout=subprocess.DEVNULL, stderr=subprocess.DEVNULL)


def make(targets, timeout=1500):
    """Build the given .vo targets (relative to coq/).  Returns (ok, log_text, failed_files)."""
    with Lock('build'):
        ensure_makefile()
        cmd = ['timeout', str(timeout), 'make', '-j%d' % NPROC, '-k'] + targets
        t0 = time.time()
        p = subprocess.run(cmd, cwd=COQ, stdout=subprocess.PIPE, stderr=subprocess.STDOUT, text=True)
    failed = sorted(set(re.findall(r'File "\./([^"]+\.v)", line \d+, characters[^\n]*\n(?:[^\n]*\n)*?Error', p.stdout)))
    if p.returncode != 0 and not failed:
        failed = sorted(set(re.findall(r'\*\*\* \[[^\]]*?([A-Za-z0-9_/]+\.vo)', p.stdout))) or ['make']
    return p.returncode == 0, p.stdout, failed, 'cd coq && ' + ' '.join(cmd), time.time() - t0


NSLOTS = 20      # machine-wide cap on concurrent coqc processes started by checks (each can take > 1 GB)


class Slot:
    """cross-process counting semaphore built from lock files (several checks may run at once)"""
    def __enter__(self):
        os.makedirs(BUILD, exist_ok=True)
        while True:
            for k in range(NSLOTS):
                f = open(os.path.join(BUILD, '.slot_%d' % k), 'w')
                try:
                    fcntl.flock(f, fcntl.LOCK_EX | fcntl.LOCK_NB)
                    self.f = f
                    return self
                except OSError:
                    f.close()
            time.sleep(0.25)

    def __exit__(self, *a):
        fcntl.flock(self.f, fcntl.LOCK_UN)
        self.f.close()


def coqc_file(path, timeout=600):
    """Compile one stand-alone file (a Cases file) against the built development."""
    cmd = ['timeout', str(timeout), 'coqc', '-Q', COQ, 'Verif', '-w', '-all', path]
    with Slot():
        p = subprocess.run(cmd, stdout=subprocess.PIPE, stderr=subprocess.STDOUT, text=True)
    if p.returncode in (137, -9):        # killed (memory pressure): one retry
        time.sleep(2)
        with Slot():
            p = subprocess.run(cmd, stdout=subprocess.PIPE, stderr=subprocess.STDOUT, text=True)
    return p.returncode, p.stdout


def theorems_of(props_rel):
    text = open(os.path.join(COQ, props_rel)).read()
    return re.findall(r'^\s*(?:Theorem|Example)\s+([A-Za-z0-9_\']+)', text, re.M), text


def grep_gate(files):
    bad = []
    for rel in files:
        p = os.path.join(COQ, rel)
        if not os.path.exists(p):
            continue
        txt = re.sub(r'\(\*.*?\*\)', '', open(p).read(), flags=re.S)
        for m in FORBIDDEN.finditer(txt):
            bad.append('%s: %s' % (rel, m.group(0)))
    return bad


def closure_of(props_rel):
    """files (relative to coq/) that Props/<id>.v depends on, by Require lines, transitively"""
    seen, todo = [], [props_rel]
    while todo:
        rel = todo.pop()
        if rel in seen or not os.path.exists(os.path.join(COQ, rel)):
            continue
        seen.append(rel)
        txt = open(os.path.join(COQ, rel)).read()
        for m in re.finditer(r'Verif\.([A-Za-z]+)\.([A-Za-z0-9_]+)', txt):
            todo.append('%s/%s.v' % (m.group(1), m.group(2)))
        for m in re.finditer(r'From\s+Verif\.([A-Za-z]+)\s+Require\s+(?:Import|Export)?\s*([^.]*)\.', txt):
            for name in m.group(2).split():
                todo.append('%s/%s.v' % (m.group(1), name))
        for m in re.finditer(r'From\s+Verif\s+Require\s+(?:Import|Export)?\s*([^.]*(?:\.[A-Za-z][^.\s]*)*)\.', txt):
            for name in m.group(1).split():
                if '.' in name:
                    d, n = name.split('.', 1)
                    todo.append('%s/%s.v' % (d, n))
    return sorted(seen)


def print_assumptions(props_rel, tag):
    """Returns {theorem: [axioms]} (empty list = closed under the global context), raw output."""
    names, _ = theorems_of(props_rel)
    mod = 'Verif.' + props_rel[:-2].replace('/', '.')
    lines = ['Require Import %s.' % mod]
    for n in names:
        lines.append('Goal True. idtac "@@THM %s". exact I. Qed.' % n)
        lines.append('Print Assumptions %s.' % n)
    path = os.path.join(CASES, 'assumptions_%s_%d.v' % (tag, os.getpid()))
    os.makedirs(CASES, exist_ok=True)
    with open(path, 'w') as f:
        f.write('\n'.join(lines) + '\n')
    rc, out = coqc_file(path)
    for ext in ('.v', '.vo', '.vok', '.vos', '.glob'):
        try:
            os.remove(path[:-2] + ext)
        except OSError:
            pass
    try:
        os.remove(os.path.join(CASES, '.' + os.path.basename(path)[:-2] + '.aux'))
    except OSError:
        pass
    res = {}
    if rc != 0:
        return None, out
    chunks = out.split('@@THM ')[1:]
    for ch in chunks:
        name, _, rest = ch.partition('\n')
        name = name.strip()
        if 'Closed under the global context' in rest:
            res[name] = []
        else:
            axs = [a for a in re.findall(r'^([A-Za-z0-9_.\']+)\s*:', rest, re.M) if a != 'Axioms']
            res[name] = axs
    return res, out


def coqchk(props_rel, timeout=1500):
    mod = 'Verif.' + props_rel[:-2].replace('/', '.')
    cmd = ['timeout', str(timeout), 'coqchk', '-silent', '-o', '-Q', COQ, 'Verif', mod]
    t0 = time.time()
    p = subprocess.run(cmd, stdout=subprocess.PIPE, stderr=subprocess.STDOUT, text=True)
    out = p.stdout
    m = re.search(r'\* Axioms:(.*?)(?:\n\s*\n|\* Constants|\Z)', out, re.S)
    axioms = [a.strip() for a in (m.group(1).strip().splitlines() if m else []) if a.strip() and '<none>' not in a]
    return {'ok': p.returncode == 0, 'cmd': ' '.join(cmd), 'axioms_in_loaded_libraries': axioms,
            'tail': out[-1500:], 'wall_s': round(time.time() - t0, 1)}


# ------------------------------------------------------------------------------------------------
# evaluating the model on cases:  one stand-alone .v per shard, vm_compute, results printed by us
# ------------------------------------------------------------------------------------------------
def run_case_files(files, timeout=900):
    """files: list of (name, text).  Each text must print lines via `idtac`/Eval that we parse.
    Returns list of (name, rc, output)."""
    os.makedirs(CASES, exist_ok=True)
    paths = []
    for name, text in files:
        disk = '%s_p%d' % (name, os.getpid())      # several checks (even of one property) may run at once
        p = os.path.join(CASES, disk + '.v')
        with open(p, 'w') as f:
            f.write(text)
        paths.append((name, disk, p))

    def one(np):
        name, disk, p = np
        rc, out = coqc_file(p, timeout)
        return name, rc, out
    with ThreadPoolExecutor(max_workers=NPROC) as ex:
        res = list(ex.map(one, paths))
    for name, disk, p in paths:
        for ext in ('.vo', '.vok', '.vos', '.glob', '.v'):
            try:
                os.remove(p[:-2] + ext)
            except OSError:
                pass
        try:
            os.remove(os.path.join(os.path.dirname(p), '.' + disk + '.aux'))
        except OSError:
            pass
    return res


def failing_indices(out):
    """parse the output of  `Eval vm_compute in (failing <agree> <cases>).`  = list of nat"""
    m = re.search(r'=\s*(\[.*?\]|nil)\s*:\s*list\s+nat', out, re.S)
    if not m:
        return None
    body = m.group(1)
    return [int(x) for x in re.findall(r'\d+', re.sub(r'%nat', '', body))]


def eval_agreement(tag, header, agree_fn, case_terms, shard=400, case_type=None):
    """Evaluate `agree_fn case = true` for every case term inside Coq.
    Returns (n_cases, failing_global_indices, errors)."""
    files = []
    for k in range(0, len(case_terms), shard):
        chunk = case_terms[k:k + shard]
        ty = (' : list (%s)' % case_type) if case_type else ''
        text = (header + '\nRequire Import List. Import ListNotations.\n'
                'Definition verif_cases%s :=\n  [ %s ].\n' % (ty, '\n  ; '.join(chunk)) +
                'Fixpoint verif_failing {A} (f : A -> bool) (l : list A) (i : nat) : list nat :=\n'
                '  match l with nil => nil | x :: r => if f x then verif_failing f r (S i) '
                'else i :: verif_failing f r (S i) end.\n'
                'Eval vm_compute in (verif_failing (%s) verif_cases 0).\n' % agree_fn)
        files.append(('%s_%04d' % (tag, k // shard), text))
    res = run_case_files(files)
    failing, errors = [], []
    for (name, rc, out), k in zip(res, range(0, len(case_terms), shard)):
        idx = failing_indices(out) if rc == 0 else None
        if idx is None:
            errors.append((name, out[-2000:]))
        else:
            failing += [k + i for i in idx]
    return len(case_terms), failing, errors


# ------------------------------------------------------------------------------------------------
# fingerprints of source functions mirrored by hand-written models
# ------------------------------------------------------------------------------------------------
def _strip_doc(node):
    for n in ast.walk(node):
        if isinstance(n, (ast.FunctionDef, ast.ClassDef, ast.Module, ast.AsyncFunctionDef)):
            if n.body and isinstance(n.body[0], ast.Expr) and isinstance(getattr(n.body[0], 'value', None), ast.Constant) \
                    and isinstance(n.body[0].value.value, str):
                n.body = n.body[1:] or [ast.Pass()]
    return node


def find_def(tree, qual):
    parts = qual.split('.')
    node = tree
    for p in parts:
        found = None
        for ch in getattr(node, 'body', []):
            if isinstance(ch, (ast.FunctionDef, ast.ClassDef)) and ch.name == p:
                found = ch
        if found is None:
            # module-level assignment
            for ch in getattr(node, 'body', []):
                if isinstance(ch, ast.Assign) and any(isinstance(t, ast.Name) and t.id == p for t in ch.targets):
                    found = ch
        if found is None:
            return None
        node = found
    return node


def fingerprint(rel, qual):
    try:
        tree = ast.parse(repo_source(rel))
    except (SyntaxError, OSError) as e:
        return 'unparsable:%s' % e
    node = tree if qual in ('', '*') else find_def(tree, qual)
    if node is None:
        return 'missing'
    node = _strip_doc(node)
    return hashlib.sha256(ast.dump(node, include_attributes=False).encode()).hexdigest()[:16]


def fingerprints_changed(pid, mirrored):
    path = os.path.join(VERIF, 'fingerprints.json')
    try:
        stored = json.load(open(path)).get(pid, {})
    except (OSError, ValueError):
        stored = {}
    changed = []
    for rel, qual in mirrored:
        key = '%s::%s' % (rel, qual)
        cur = fingerprint(rel, qual)
        if stored.get(key) != cur:
            changed.append(key)
    return changed


def fingerprints_record(pid, mirrored):
    path = os.path.join(VERIF, 'fingerprints.json')
    try:
        data = json.load(open(path))
    except (OSError, ValueError):
        data = {}
    data[pid] = {'%s::%s' % (rel, qual): fingerprint(rel, qual) for rel, qual in mirrored}
    with open(path, 'w') as f:
        json.dump(data, f, indent=1, sort_keys=True)
        f.write('\n')


# ------------------------------------------------------------------------------------------------
# calling the implementation safely
# ------------------------------------------------------------------------------------------------
class CallTimeout(Exception):
    pass


def _alarm(signum, frame):
    raise CallTimeout()


def guarded(fn, *a, seconds=10, **k):
    """Run fn; returns ('ret', value) or ('exc', exception).  A wall-clock alarm bounds the call."""
    old = signal.signal(signal.SIGALRM, _alarm)
    signal.alarm(seconds)
    try:
        return 'ret', fn(*a, **k)
    except CallTimeout as e:
        return 'timeout', e
    except BaseException as e:      # noqa - the harness must see everything that escapes
        if isinstance(e, (KeyboardInterrupt, SystemExit)):
            raise
        return 'exc', e
    finally:
        signal.alarm(0)
        signal.signal(signal.SIGALRM, old)


# ------------------------------------------------------------------------------------------------
# known findings
# ------------------------------------------------------------------------------------------------
def known_findings(pid):
    try:
        data = json.load(open(os.path.join(VERIF, 'known_findings.json')))
    except (OSError, ValueError):
        return []
    return [e for e in data.get('findings', []) if e.get('property') == pid and e.get('status') == 'known']


def save_replay(pid, payload):
    d = os.path.join(VERIF, 'replays', pid)
    os.makedirs(d, exist_ok=True)
    blob = json.dumps(payload, sort_keys=True, default=repr, indent=1)
    h = hashlib.sha256(blob.encode()).hexdigest()[:12]
    path = os.path.join(d, h + '.json')
    with open(path, 'w') as f:
        f.write(blob + '\n')
    return path


class Result:
    """What a property module hands back to the driver."""
    def __init__(self):
        self.programs = 0              # cases run through model and implementation
        self.disagreements = []        # correspondence disagreements (dicts, replayable)
        self.corr_errors = []          # case files that failed to evaluate
        self.witnesses = []            # concrete impl-level failures of the property: dicts with 'key','what',...
        self.oracle_evals = 0
        self.nontrivial = set()
        self.samples = []
        self.distribution = {}
        self.rule = ''
        self.exhaustive = False
        self.boundary = 0
        self.notes = []
