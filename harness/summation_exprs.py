"""summation_exprs.py -- expression generator and exact reference evaluator used by harness/props/c19.py.

Trees (tuples):
  ('n',)                      the summation variable
  ('var', name)               a sampled variable
  ('c', Fraction)             a rational constant
  ('i',)                      the imaginary unit
  ('fact0',)                  fact(0) = 1 (only its presence matters: it switches the cutoff to infty_val_fact)
  ('add'|'sub'|'mul', a, b)
  ('neg', a)
  ('divc', a, Fraction)       division by a non-zero constant
  ('powc', a, k)              a ** k for a small non-negative integer k
  ('pow', base, exp)          base ** exp, exp an integer-valued tree (a polynomial in n with integer coefficients)
  ('vec', (a, b, ...))        a vector of scalar trees

Values: scalars are pairs (re, im) of Fractions; vectors are tuples of such pairs.
The evaluator is exact; it is the property oracle's independent reference ("a Python reference sum").
"""
from fractions import Fraction

ZERO = (Fraction(0), Fraction(0))


class RefError(Exception):
    """the reference cannot evaluate (division by zero, non-integer exponent ...)"""


def is_vec(v):
    return isinstance(v, tuple) and len(v) > 0 and isinstance(v[0], tuple)


def s_add(a, b):
    return (a[0] + b[0], a[1] + b[1])


def s_sub(a, b):
    return (a[0] - b[0], a[1] - b[1])


def s_mul(a, b):
    return (a[0] * b[0] - a[1] * b[1], a[0] * b[1] + a[1] * b[0])


def s_inv(a):
    d = a[0] * a[0] + a[1] * a[1]
    if d == 0:
        raise RefError('division by zero')
    return (a[0] / d, -a[1] / d)


def s_pow(a, k):
    if k < 0:
        return s_pow(s_inv(a), -k)
    out = (Fraction(1), Fraction(0))
    for _ in range(k):
        out = s_mul(out, a)
    return out


def v_add(a, b):
    if is_vec(a) and is_vec(b):
        if len(a) != len(b):
            raise RefError('shape')
        return tuple(s_add(x, y) for x, y in zip(a, b))
    if is_vec(a) or is_vec(b):
        # number + array is only defined for the number 0 (sum() starts from 0)
        if not is_vec(a) and a == ZERO:
            return b
        if not is_vec(b) and b == ZERO:
            return a
        raise RefError('shape')
    return s_add(a, b)


def v_neg(a):
    if is_vec(a):
        return tuple((-x[0], -x[1]) for x in a)
    return (-a[0], -a[1])


def v_mul(a, b):
    if is_vec(a) and is_vec(b):
        raise RefError('vector*vector not generated')
    if is_vec(a):
        return tuple(s_mul(x, b) for x in a)
    if is_vec(b):
        return tuple(s_mul(a, x) for x in b)
    return s_mul(a, b)


def norm2(a):
    if is_vec(a):
        return sum((x[0] * x[0] + x[1] * x[1] for x in a), Fraction(0))
    return a[0] * a[0] + a[1] * a[1]


def ev(t, n, env):
    k = t[0]
    if k == 'n':
        return (Fraction(n), Fraction(0))
    if k == 'var':
        return (Fraction(env[t[1]]), Fraction(0))
    if k == 'c':
        return (Fraction(t[1]), Fraction(0))
    if k == 'i':
        return (Fraction(0), Fraction(1))
    if k == 'fact0':
        return (Fraction(1), Fraction(0))
    if k == 'add':
        return v_add(ev(t[1], n, env), ev(t[2], n, env))
    if k == 'sub':
        return v_add(ev(t[1], n, env), v_neg(ev(t[2], n, env)))
    if k == 'mul':
        return v_mul(ev(t[1], n, env), ev(t[2], n, env))
    if k == 'neg':
        return v_neg(ev(t[1], n, env))
    if k == 'divc':
        return v_mul(ev(t[1], n, env), (1 / Fraction(t[2]), Fraction(0)))
    if k == 'powc':
        a = ev(t[1], n, env)
        if is_vec(a):
            raise RefError('vector power')
        return s_pow(a, t[2])
    if k == 'pow':
        a = ev(t[1], n, env)
        e = ev(t[2], n, env)
        if is_vec(a) or is_vec(e) or e[1] != 0 or e[0].denominator != 1:
            raise RefError('exponent')
        return s_pow(a, int(e[0]))
    if k == 'vec':
        return tuple(ev(x, n, env) for x in t[1])
    raise RefError('node %r' % (k,))


def subst(t, repl):
    """replace the summation variable by the tree repl"""
    k = t[0]
    if k == 'n':
        return repl
    if k in ('var', 'c', 'i', 'fact0'):
        return t
    if k in ('add', 'sub', 'mul', 'pow'):
        return (k, subst(t[1], repl), subst(t[2], repl))
    if k == 'neg':
        return (k, subst(t[1], repl))
    if k in ('divc', 'powc'):
        return (k, subst(t[1], repl), t[2])
    if k == 'vec':
        return (k, tuple(subst(x, repl) for x in t[1]))
    raise RefError('node %r' % (k,))


def uses(t, name):
    k = t[0]
    if k == 'var':
        return t[1] == name
    if k in ('n', 'c', 'i', 'fact0'):
        return False
    if k == 'vec':
        return any(uses(x, name) for x in t[1])
    return any(uses(x, name) for x in t[1:] if isinstance(x, tuple))


def uses_n(t):
    k = t[0]
    if k == 'n':
        return True
    if k in ('var', 'c', 'i', 'fact0'):
        return False
    if k == 'vec':
        return any(uses_n(x) for x in t[1])
    return any(uses_n(x) for x in t[1:] if isinstance(x, tuple))


def pow2(d):
    d = abs(int(d))
    return d > 0 and d & (d - 1) == 0


def dyadic(t):
    """every constant of the tree is a dyadic rational and every constant divisor a power of two: with integer samples
    all intermediate values are then exactly representable and float evaluation is exact"""
    k = t[0]
    if k == 'c':
        return pow2(Fraction(t[1]).denominator)
    if k in ('n', 'var', 'i', 'fact0'):
        return True
    if k == 'divc':
        q = Fraction(t[2])
        return pow2(q.denominator) and pow2(q.numerator) and dyadic(t[1])
    if k == 'pow':
        return False
    if k == 'vec':
        return all(dyadic(x) for x in t[1])
    return all(dyadic(x) for x in t[1:] if isinstance(x, tuple))


def fr(c):
    c = Fraction(c)
    if c.denominator == 1:
        return '%d' % c.numerator if c >= 0 else '(%d)' % c.numerator
    return '(%d/%d)' % (c.numerator, c.denominator)


def render(t, var):
    k = t[0]
    if k == 'n':
        return var
    if k == 'var':
        return t[1]
    if k == 'c':
        return fr(t[1])
    if k == 'i':
        return 'i'
    if k == 'fact0':
        return 'fact(0)'
    if k == 'add':
        return '(%s + %s)' % (render(t[1], var), render(t[2], var))
    if k == 'sub':
        return '(%s - %s)' % (render(t[1], var), render(t[2], var))
    if k == 'mul':
        return '(%s*%s)' % (render(t[1], var), render(t[2], var))
    if k == 'neg':
        return '(-%s)' % render(t[1], var)
    if k == 'divc':
        return '(%s/%s)' % (render(t[1], var), fr(t[2]))
    if k == 'powc':
        return '(%s^%d)' % (render(t[1], var), t[2])
    if k == 'pow':
        return '(%s^%s)' % (render(t[1], var), render(t[2], var))
    if k == 'vec':
        return '[%s]' % ', '.join(render(x, var) for x in t[1])
    raise RefError('node %r' % (k,))


# ------------------------------------------------------------------------------------------------
# generators
# ------------------------------------------------------------------------------------------------
def gen_scalar(rng, depth, variables, cplx, dyadic):
    """scalar summand; dyadic=True keeps every intermediate value an integer or a dyadic rational"""
    if depth <= 0 or rng.random() < 0.25:
        r = rng.random()
        if r < 0.45:
            return ('n',)
        if r < 0.65 and variables:
            return ('var', rng.choice(variables))
        if r < 0.75 and cplx:
            return ('i',)
        if dyadic:
            return ('c', Fraction(rng.choice([1, 2, 3, -1, -2, 5, 7])) / rng.choice([1, 1, 1, 2, 4]))
        return ('c', Fraction(rng.choice([1, 2, 3, -1, -2, 5, 7])) / rng.choice([1, 1, 2, 3, 5, 10]))
    r = rng.random()
    a = gen_scalar(rng, depth - 1, variables, cplx, dyadic)
    if r < 0.3:
        return ('add', a, gen_scalar(rng, depth - 1, variables, cplx, dyadic))
    if r < 0.45:
        return ('sub', a, gen_scalar(rng, depth - 1, variables, cplx, dyadic))
    if r < 0.7:
        return ('mul', a, gen_scalar(rng, depth - 1, variables, cplx, dyadic))
    if r < 0.8:
        return ('powc', a, rng.choice([2, 2, 3]))
    if r < 0.9:
        return ('divc', a, Fraction(rng.choice([2, 4, -2, 8] if dyadic else [2, 3, -4, 7, 10])))
    return ('neg', a)


def gen_summand(rng, kind, variables, dyadic):
    """kind in real / complex / vector"""
    if kind == 'vector':
        m = rng.choice([2, 3])
        cplx = rng.random() < 0.25
        v = ('vec', tuple(gen_scalar(rng, 1, variables, cplx, dyadic) for _ in range(m)))
        r = rng.random()
        if r < 0.3:
            return ('mul', gen_scalar(rng, 1, variables, False, dyadic), v)
        if r < 0.5:
            return ('add', v, ('vec', tuple(gen_scalar(rng, 0, variables, False, dyadic) for _ in range(m))))
        return v
    t = gen_scalar(rng, rng.choice([1, 2, 2, 3]), variables, kind == 'complex', dyadic)
    if kind == 'complex' and rng.random() < 0.5:
        t = ('add', t, ('mul', ('i',), gen_scalar(rng, 1, variables, False, dyadic)))
    if not uses_n(t):
        t = ('add', t, ('n',))
    return t


def gen_geometric(rng, variables, direction):
    """summand decaying geometrically as n -> +inf (direction=+1) or n -> -inf (direction=-1)"""
    base = rng.choice([Fraction(1, 2), Fraction(-1, 2), Fraction(1, 3), Fraction(2, 5), Fraction(-1, 4), Fraction(3, 5)])
    b = ('c', base)
    if variables and rng.random() < 0.4:
        # x in [1,3] (RealInterval default) : x/5 in [0.2, 0.6]
        b = ('divc', ('var', rng.choice(variables)), Fraction(5))
    expo = ('n',) if direction > 0 else ('neg', ('n',))
    t = ('pow', b, expo)
    r = rng.random()
    if r < 0.3:
        t = ('mul', ('c', Fraction(rng.choice([2, 3, -1]))), t)
    elif r < 0.5:
        t = ('mul', ('add', ('n',), ('c', Fraction(1))), t)
    elif r < 0.6:
        t = ('vec', (t, ('mul', ('c', Fraction(2)), t)))
    return t
