"""C03 -- formula strings evaluate to the value mathematics assigns them.

Tie (B): every generated string is parsed and evaluated by the real MathParser / evaluator(); the string, the
variable table, the recorded I/O of every function called, the implementation's ParseResults (as an S-expression),
its reported name sets and its outcome are written as Coq terms, and Coq (vm_compute) runs Model/Lexer + Parser +
Eval on the very same string and decides agreement (trees and name sets exactly, values within 1e-9 relative).
Tie (A): Gen/EvalTables.v (suffix tables, default constants, operator literals of the five precedence levels)
is regenerated from the source on every run and bridged to the model's tables.

Oracle (independent of the Coq model): derivations of the documented grammar are generated as binary syntax trees,
their value is computed from the documented semantics in exact Gaussian-rational arithmetic (with an error
amplification estimate; ill-conditioned cases are guard-banded), rendered in many ways (spaces anywhere, tabs /
line breaks between tokens, redundant parentheses, em-dash) and evaluated by the implementation; strings that are
invalid by construction must raise UnableToParse / UnbalancedBrackets.
"""
import cmath
import itertools
import math
import random
from fractions import Fraction

from harness import core
from translate import evaltables as tr_tables

ID = 'C03'
PROPS = 'Props/C03.v'
TRANSLATORS = [('Gen/EvalTables.v', tr_tables.generate)]
_EXPR = 'mitxgraders/helpers/calc/expressions.py'
MIRRORED = [(_EXPR, 'BracketValidator.validate'), (_EXPR, 'MathParser.get_grammar'), (_EXPR, 'MathParser.group_if_multiple'),
            (_EXPR, 'MathParser.raw_parse'), (_EXPR, 'MathParser.parse'),
            (_EXPR, 'MathExpression.check_scope'), (_EXPR, 'MathExpression.eval'), (_EXPR, 'MathExpression.eval_node'),
            (_EXPR, 'MathExpression.eval_number'), (_EXPR, 'MathExpression.eval_variable'),
            (_EXPR, 'MathExpression.eval_function'), (_EXPR, 'MathExpression.eval_array'),
            (_EXPR, 'MathExpression.eval_power'), (_EXPR, 'MathExpression.eval_negation'),
            (_EXPR, 'MathExpression.eval_parallel'), (_EXPR, 'MathExpression.eval_product'),
            (_EXPR, 'MathExpression.eval_sum'), (_EXPR, 'evaluator'),
            ('mitxgraders/helpers/calc/robust_pow.py', 'robust_pow')]
REFUTED = []
TRUSTED = [
    'correspondence harness harness/props/c03.py (ParseResults -> S-expression dump, exception -> outcome-class mapping, '
    'function I/O recording wrappers); floats enter Coq as exact dyadic rationals, agreement decided in Coq within 1e-9 relative',
    'translator translate/evaltables.py (suffix tables, default constants, operator literals of get_grammar)',
    'modelled, not verified: pyparsing engine (replaced by lexer + PEG-style precedence parser, DESIGN Appendix A), float() on '
    'numeral text (exact decimal value), IEEE rounding (guard band: cases whose estimated error amplification exceeds 1e4 ulps, '
    'or whose zero tests are decided on inexact data, are compared at tree level only), numpy/Python pow for non-integer exponents '
    'and all function bodies (oracles, their I/O recorded), str.strip() whitespace table (checked exhaustively against Python)',
]
ASSUMPTIONS = ['variable and suffix values are finite numbers; NaN/inf bindings and array arithmetic (C14) are outside the model',
               'value theorems are over exact rationals / Gaussian rationals with integer exponents; functions are arbitrary oracles']

EPS = Fraction(1, 10**9)
AMP_LIMIT = 1e4


# =================================================================================================
# exact Gaussian rationals + error-amplification tracking: the independent oracle's number domain
# =================================================================================================
class Skip(Exception):
    """the oracle declines to predict a value (guard band / outside its domain)"""


class MathErr(Exception):
    """mathematics assigns no value (division by zero, ...)"""


def f_exact(fr):
    """is the rational exactly a double?"""
    try:
        return Fraction(float(fr)) == fr
    except OverflowError:
        return False


# range guard: complex arithmetic squares magnitudes internally, so intermediates beyond 1e+-140 may overflow / underflow
# in floating point although the final value is moderate
RANGE = {'hi': 0.0, 'lo': float('inf')}


def note_magnitude(m):
    if m > RANGE['hi']:
        RANGE['hi'] = m
    if 0 < m < RANGE['lo']:
        RANGE['lo'] = m


def range_reset():
    RANGE['hi'], RANGE['lo'] = 0.0, float('inf')


def range_risky():
    return RANGE['hi'] > 1e140 or RANGE['lo'] < 1e-140


class V(object):
    """value = exact Gaussian rational (re, im) or None, float approximation, amplification in ulps,
    ct = the implementation holds it as a Python complex (signed zeros then decide the side of a branch cut)"""
    __slots__ = ('ex', 'ap', 'amp', 'ct')

    def __init__(self, ex, ap, amp, ct=None):
        if ap.imag == 0:
            ap = complex(ap.real, 0.0)          # the oracle itself never carries a negative zero
        self.ex, self.ap, self.amp = ex, ap, amp
        self.ct = (ap.imag != 0) if ct is None else ct
        note_magnitude(abs(ap))
        if ex is None and ap == 0:
            raise Skip('range')                 # an inexact computation that underflowed to zero

    @staticmethod
    def exact(re, im=Fraction(0), amp=None, ct=None):
        re, im = Fraction(re), Fraction(im)
        if max(abs(re), abs(im)) > Fraction(10)**290:
            raise Skip('range')
        for c in (re, im):
            if c != 0 and abs(c) < Fraction(1, 10**290):
                raise Skip('range')
        if amp is None:
            amp = 0.0 if (f_exact(re) and f_exact(im)) else 0.5
        return V((re, im), complex(float(re), float(im)), amp, ct)

    def mag(self):
        return abs(self.ap)

    def is_real(self):
        return self.ex[1] == 0 if self.ex is not None else self.ap.imag == 0

    def is_zero(self):
        """decide == 0; raises Skip when the decision rests on inexact data"""
        if self.ex is not None:
            z = self.ex[0] == 0 and self.ex[1] == 0
            if z and self.amp > 0:
                raise Skip('zero-test on inexact data')
            if (not z) and self.amp > 0 and self.mag() < 1e-9:
                raise Skip('zero-test on inexact data')
            return z
        if self.mag() < 1e-6:
            raise Skip('zero-test on inexact data')
        return False


def _fin(ap):
    if not (cmath.isfinite(ap)) or abs(ap) > 1e290 or (ap != 0 and abs(ap) < 1e-290):
        raise Skip('range')
    return ap


def _mk(exv, ap_fallback, amp, exact_inputs, ct):
    if exv is not None:
        re, im = exv
        if exact_inputs and f_exact(re) and f_exact(im):
            return V.exact(re, im, 0.0, ct)
        return V.exact(re, im, max(amp, 0.5), ct)
    return V(None, _fin(ap_fallback), amp, ct)


def v_add(a, b, sign=1):
    if _exact_zero(b):
        return V(a.ex, a.ap, a.amp, a.ct or b.ct)
    if _exact_zero(a):
        return V(b.ex, b.ap, b.amp, a.ct or b.ct) if sign == 1 else V(v_neg(b).ex, v_neg(b).ap, b.amp, a.ct or b.ct)
    exv = None
    if a.ex is not None and b.ex is not None:
        exv = (a.ex[0] + sign * b.ex[0], a.ex[1] + sign * b.ex[1])
        rmag = abs(complex(float(exv[0]), float(exv[1])))
    ap = a.ap + sign * b.ap
    if exv is None:
        rmag = abs(ap)
    exact_inputs = a.amp == 0 and b.amp == 0
    ct = a.ct or b.ct
    if rmag == 0:
        if exv is not None and exact_inputs:
            return V.exact(0, 0, 0.0, ct)
        if exv is not None and exv[0] == 0 and exv[1] == 0 and a.mag() == 0 and b.mag() == 0:
            return V.exact(0, 0, 0.0, ct)
        raise Skip('cancellation')
    amp = (a.amp * a.mag() + b.amp * b.mag()) / rmag + 1
    # componentwise cancellation (a complex sum whose real or imaginary part alone cancels) is covered by using the
    # norm: the comparison in the check is in norm as well
    return _mk(exv, ap, amp, exact_inputs, ct)


def v_neg(a):
    if a.ex is not None:
        return V((-a.ex[0], -a.ex[1]), -a.ap, a.amp, a.ct)
    return V(None, -a.ap, a.amp, a.ct)


def _exact_zero(a):
    return a.ex is not None and a.ex[0] == 0 and a.ex[1] == 0 and a.amp == 0


def v_mul(a, b):
    if _exact_zero(a) or _exact_zero(b):
        return V.exact(0, 0, 0.0, a.ct or b.ct)         # 0 * x is exact in floating point as well
    exv = None
    if a.ex is not None and b.ex is not None:
        (p, q), (r, s) = a.ex, b.ex
        exv = (p * r - q * s, p * s + q * r)
    return _mk(exv, a.ap * b.ap, a.amp + b.amp + 2, a.amp == 0 and b.amp == 0, a.ct or b.ct)


def v_inv(b):
    if b.is_zero():
        raise MathErr('divzero')
    exv = None
    if b.ex is not None:
        r, s = b.ex
        d = r * r + s * s
        exv = (r / d, -s / d)
    return _mk(exv, 1 / b.ap, b.amp + 2, b.amp == 0, b.ct)


def v_div(a, b):
    if b.is_zero():
        raise MathErr('divzero')
    if _exact_zero(a):
        return V.exact(0, 0, 0.0, a.ct or b.ct)
    exv = None
    if a.ex is not None and b.ex is not None:
        (p, q), (r, s) = a.ex, b.ex
        d = r * r + s * s
        exv = ((p * r + q * s) / d, (q * r - p * s) / d)
    return _mk(exv, a.ap / b.ap, a.amp + b.amp + 3, a.amp == 0 and b.amp == 0, a.ct or b.ct)


def _gpow(z, n):
    """(re, im) ** n for n >= 0 by squaring"""
    r = (Fraction(1), Fraction(0))
    b = z
    while n:
        if n & 1:
            r = (r[0] * b[0] - r[1] * b[1], r[0] * b[1] + r[1] * b[0])
        b = (b[0] * b[0] - b[1] * b[1], 2 * b[0] * b[1])
        n >>= 1
    return r


def v_pow(a, e):
    """a ** e, principal value"""
    int_like = e.ex is not None and e.ex[1] == 0 and e.ex[0].denominator == 1
    if int_like:
        n = int(e.ex[0])
        exact_e = e.amp == 0
        if a.is_zero():
            if n > 0:
                return V.exact(0, 0, None, a.ct or e.ct)
            if n < 0:
                raise MathErr('divzero')
            if exact_e:
                return V.exact(1, 0, None, a.ct or e.ct)
            raise Skip('zero-test on inexact data')         # 0 ** (something that may or may not be exactly 0)
        if n == 0 and exact_e:
            return V.exact(1, 0, None, a.ct or e.ct)
        # an exponent that is an integer only nominally (computed inexactly) may be off by an ulp in floating point:
        # same value within the tolerance, but a negative base then gives a Python complex -> conservatively complex-typed
        ct = a.ct or e.ct or ((not exact_e) and a.ap.real < 0)
        try:
            extra = 0.0 if exact_e else abs(n) * abs(cmath.log(a.ap)) * e.amp
        except ValueError:
            raise Skip('range')
        if a.ex is not None:
            bits = max(x.numerator.bit_length() + x.denominator.bit_length() for x in a.ex)
            if abs(n) * bits > 20000:
                raise Skip('range')
            z = _gpow(a.ex, abs(n))
            try:
                note_magnitude(abs(complex(float(z[0]), float(z[1]))))
            except OverflowError:
                raise Skip('range')
            if n < 0:
                d = z[0] * z[0] + z[1] * z[1]
                z = (z[0] / d, -z[1] / d)
            return _mk(z, None, abs(n) * (a.amp + 2) + extra, a.amp == 0 and exact_e, ct)
        try:
            big = abs(a.ap) ** abs(n)
            ap = (a.ap ** n) if (a.ct or e.ct) else complex(a.ap.real ** n)
        except (OverflowError, ZeroDivisionError):
            raise Skip('range')
        note_magnitude(big)
        return V(None, _fin(ap), abs(n) * (a.amp + 2) + extra, ct)
    # non-integer exponent: principal value exp(e * log a), in floating point
    if a.is_zero():
        known = e.ex is not None and e.amp == 0
        im_zero = (e.ex[1] == 0) if e.ex is not None else (e.ap.imag == 0)
        if im_zero and e.ap.real > 1e-9:
            return V.exact(0, 0, None, a.ct or e.ct)
        if known or (abs(e.ap.imag) > 1e-6 * abs(e.ap.real) and abs(e.ap) > 1e-9) or (im_zero and e.ap.real < -1e-9):
            raise MathErr('divzero')
        raise Skip('zero-test on inexact data')
    near_cut = a.ap.real < 0 and abs(a.ap.imag) <= 1e-6 * abs(a.ap.real)
    if near_cut and a.ct:
        raise Skip('branch cut')        # a complex on the negative real axis: the sign of its zero imaginary part decides
    try:
        if (not a.ct) and a.ap.real > 0 and (not e.ct):
            ap = complex(math.pow(a.ap.real, e.ap.real))
            ct = False
        else:
            ap = cmath.exp(e.ap * cmath.log(a.ap))
            ct = True
        lg = cmath.log(a.ap)
        la = abs(lg)
        if abs(e.ap.real * lg.real) > 300 or abs(e.ap.imag * lg.imag) > 300:
            raise Skip('range')
    except (OverflowError, ValueError, ZeroDivisionError):
        raise Skip('range')
    amp = abs(e.ap) * a.amp + abs(e.ap) * la * e.amp + 4 + abs(e.ap) * la
    return V(None, _fin(ap), amp, ct)


def v_par(vals):
    """documented n-ary parallel: 0 if an operand is 0, else the reciprocal of the sum of reciprocals"""
    for v in vals:
        if v.is_zero():
            return V.exact(0)
    acc = V.exact(0)
    for v in vals:
        acc = v_add(acc, v_inv(v))
    return v_inv(acc)


# =================================================================================================
# scopes
# =================================================================================================
def _cx(re, im=0):
    return (Fraction(re), Fraction(im))


NAMES = ['x', 'y', 'X', 'z_1', 'a_{1}', 'T_{1}^{2}', "x'", 'b2', 'k', 'phi_{-1}']
VAR_TABLES = {
    'int': dict(zip(NAMES, [_cx(3), _cx(-2), _cx(11), _cx(5), _cx(2), _cx(4), _cx(7), _cx(-3), _cx(6), _cx(13)])),
    'dec': dict(zip(NAMES, [_cx('1.5'), _cx('-0.75'), _cx('2.25'), _cx('0.5'), _cx('3.5'), _cx('-1.25'), _cx('4'),
                            _cx('0.125'), _cx('2.5'), _cx('-6')])),
    'cplx': dict(zip(NAMES, [_cx(1, 2), _cx('-0.5', 1), _cx(3), _cx(2, -1), _cx(0, '1.5'), _cx(-2, '-0.5'), _cx('0.25', 3),
                             _cx(1, 1), _cx(2), _cx(0, -2)])),
}
# bindings that are Python ints (the other tables bind floats / complex): small, large, negative, all exactly
# representable as doubles so that the documented value does not depend on how the conversion rounds
VAR_TABLES['pyint'] = dict(zip(NAMES, [_cx(2), _cx(100), _cx(299792458), _cx(10**10), _cx(-10**10), _cx(3), _cx(-7),
                                       _cx(64), _cx(2**32), _cx(10**19)]))
# bindings of extreme magnitude in both directions (large arguments for exp / hyperbolic functions, denormal and tiny
# arguments for trigonometric functions and products): intermediates underflow silently, the final value is ordinary
VAR_TABLES['extreme'] = dict(zip(NAMES, [_cx(800), _cx(30), _cx(1000), _cx(Fraction(1e-310)), _cx(Fraction(1e-200)),
                                         _cx(Fraction(1e-160)), _cx(-800, 2), _cx(100), _cx(Fraction(5e-324)),
                                         _cx(Fraction(-1e-250))]))
VAR_IDS = {'int': 0, 'dec': 1, 'cplx': 2, 'pyint': 3, 'extreme': 4}
VAR_KEYS = ('int', 'dec', 'cplx', 'pyint', 'extreme')
CONST_NAMES = ['pi', 'e', 'i', 'j']
SUFFIX_IDS = {'default': 0, 'metric': 1}


def _user_f(x):
    return 2 * x + 1


def _user_F(x):
    return x + 1000


def _user_g(x, y):
    return x - 3 * y


def _user_h(x, y, z):
    return x + 10 * y + 100 * z


def _user_fp(x):
    return x * x


USER_FUNCS = {'f': (_user_f, 1), 'F': (_user_F, 1), 'g': (_user_g, 2), 'h': (_user_h, 3), "f'": (_user_fp, 1)}
DEFAULT_USED = ['sqrt', 'abs', 'sin', 'cos', 'exp', 'max', 'min', 're', 'im', 'conj',
                'tan', 'sinh', 'cosh', 'tanh', 'arctan', 'arcsinh', 'sech']
FUNC_NAMES = sorted(USER_FUNCS) + DEFAULT_USED

_IMPL = {}


def impl():
    """lazy import of the implementation (honours VERIF_REPO through sys.path set by ./check)"""
    if not _IMPL:
        from mitxgraders.helpers.calc import expressions as ex
        from mitxgraders.helpers.calc import exceptions as cx
        from mitxgraders.helpers.calc import mathfuncs as mf
        from mitxgraders.helpers.calc.math_array import MathArray
        import pyparsing
        _IMPL.update(ex=ex, cx=cx, mf=mf, MathArray=MathArray, ParseResults=pyparsing.ParseResults,
                     parser=ex.MathParser())
    return _IMPL


def scope(var_key, suf_key):
    I = impl()
    mf = I['mf']
    variables = dict(mf.DEFAULT_VARIABLES)
    for n, (re_, im_) in VAR_TABLES[var_key].items():
        if var_key == 'pyint':
            variables[n] = int(re_)
        else:
            variables[n] = complex(float(re_), float(im_)) if im_ != 0 else float(re_)
    suffixes = dict(mf.DEFAULT_SUFFIXES)
    if suf_key == 'metric':
        suffixes.update(mf.METRIC_SUFFIXES)
    return variables, suffixes


def wrapped_functions(calls):
    """the supplied functions, each wrapped so that every call is recorded: (name, args, ('ret', v) | ('exc', e))"""
    I = impl()
    fns = {}

    def rec(name, fn, args):
        try:
            r = fn(*args)
        except BaseException as e:      # noqa
            calls.append((name, args, ('exc', e)))
            raise
        calls.append((name, args, ('ret', r)))
        return r

    for name, (fn, ar) in USER_FUNCS.items():
        if ar == 1:
            w = (lambda name, fn: lambda a: rec(name, fn, (a,)))(name, fn)
        elif ar == 2:
            w = (lambda name, fn: lambda a, b: rec(name, fn, (a, b)))(name, fn)
        else:
            w = (lambda name, fn: lambda a, b, c: rec(name, fn, (a, b, c)))(name, fn)
        fns[name] = w
    for name in DEFAULT_USED:
        fn = I['mf'].DEFAULT_FUNCTIONS[name]
        if getattr(fn, 'validated', False):
            w = (lambda name, fn: lambda *a: rec(name, fn, a))(name, fn)
            w.validated = True
        else:
            w = (lambda name, fn: lambda a: rec(name, fn, (a,)))(name, fn)
        fns[name] = w
    return fns


# =================================================================================================
# derivations (binary syntax of the documented grammar), rendering, documented semantics
# =================================================================================================
# ('num', text, suffix|None) ('var', n) ('app', f, [args]) ('arr', [items]) ('paren', a)
# ('add'|'sub'|'mul'|'div'|'pow', a, b) ('par', [operands >= 2]) ('neg', a) ('pos', a)
LEVEL = {'add': 0, 'sub': 0, 'pos': 0, 'mul': 1, 'div': 1, 'par': 2, 'neg': 3, 'pow': 4,
         'num': 5, 'var': 5, 'app': 5, 'arr': 5, 'paren': 5}


def tokens(e, need=0):
    """token strings of e in a position that needs precedence level >= need; only necessary parentheses"""
    k = e[0]
    if LEVEL[k] < need:
        return ['('] + tokens(e, 0) + [')']
    if k == 'num':
        return [e[1] + (e[2] or '')]
    if k == 'var':
        return [e[1]]
    if k == 'app':
        out = [e[1], '(']
        for i, a in enumerate(e[2]):
            out += ([','] if i else []) + tokens(a, 0)
        return out + [')']
    if k == 'arr':
        out = ['[']
        for i, a in enumerate(e[1]):
            out += ([','] if i else []) + tokens(a, 0)
        return out + [']']
    if k == 'paren':
        return ['('] + tokens(e[1], 0) + [')']
    if k in ('add', 'sub'):
        return tokens(e[1], 0) + ['+' if k == 'add' else '-'] + tokens(e[2], 1)
    if k in ('mul', 'div'):
        return tokens(e[1], 1) + ['*' if k == 'mul' else '/'] + tokens(e[2], 2)
    if k == 'par':
        out = []
        for i, a in enumerate(e[1]):
            out += (['||'] if i else []) + tokens(a, 3)
        return out
    if k == 'neg':
        return ['-'] + tokens(e[1], 4)
    if k == 'pos':
        return ['+'] + tokens(e[1], 1)
    if k == 'pow':
        ex = e[2]
        if ex[0] == 'neg' and LEVEL[ex[1][0]] >= 4:
            return tokens(e[1], 5) + ['^', '-'] + tokens(ex[1], 4)
        return tokens(e[1], 5) + ['^'] + tokens(ex, 4)
    raise ValueError(k)


def numeral_exact(text):
    """exact decimal value of a numeral text (own parser, not float())"""
    t = text.replace('—', '-')
    mant, exp = t, 0
    for sep in ('e', 'E'):
        if sep in t:
            mant, ex = t.split(sep)
            exp = int(ex)
            break
    if '.' in mant:
        ip, fp = mant.split('.')
    else:
        ip, fp = mant, ''
    val = Fraction(int((ip + fp) or '0'), 10 ** len(fp))
    return val * Fraction(10) ** exp


SUFFIX_VALUES = {'%': Fraction(1, 100), 'k': Fraction(10**3), 'M': Fraction(10**6), 'G': Fraction(10**9),
                 'T': Fraction(10**12), 'm': Fraction(1, 10**3), 'u': Fraction(1, 10**6), 'n': Fraction(1, 10**9),
                 'p': Fraction(1, 10**12)}
CONSTS = {'pi': math.pi, 'e': math.e}


def apply_fn(name, args):
    if name in USER_FUNCS:
        fn, ar = USER_FUNCS[name]
        if len(args) != ar:
            raise MathErr('arity')
        two, three, ten, hundred, thousand = (V.exact(n) for n in (2, 3, 10, 100, 1000))
        if name == 'f':
            return v_add(v_mul(two, args[0]), V.exact(1))
        if name == 'F':
            return v_add(args[0], thousand)
        if name == 'g':
            return v_add(args[0], v_mul(three, args[1]), -1)
        if name == 'h':
            return v_add(v_add(args[0], v_mul(ten, args[1])), v_mul(hundred, args[2]))
        if name == "f'":
            return v_mul(args[0], args[0])
    if name in ('max', 'min'):
        if len(args) < 2:
            raise MathErr('arity')
        if any(a.ct for a in args):
            raise Skip('max/min of a complex-typed value')        # a Python complex is unordered even when real-valued (C15)
        keyed = [(a.ex[0] if a.ex is not None else a.ap.real, a) for a in args]
        ks = sorted(float(k) for k, _ in keyed)
        for p, q in zip(ks, ks[1:]):
            if p != q and abs(p - q) <= 1e-9 * max(abs(p), abs(q)):
                raise Skip('near-tie in max/min')
        return (max if name == 'max' else min)(keyed, key=lambda t: t[0])[1]
    if len(args) != 1:
        raise MathErr('arity')
    a = args[0]
    if name == 'abs':
        if a.ex is not None and a.ex[1] == 0:
            return V((abs(a.ex[0]), Fraction(0)), complex(abs(a.ap)), a.amp, False)
        return V(None, _fin(complex(abs(a.ap))), a.amp + 2, False)
    if name == 're':
        if a.ex is not None:
            if a.ex[0] == 0 and a.amp > 0:
                raise Skip('cancellation')
            return V.exact(a.ex[0], 0, a.amp * (a.mag() / abs(float(a.ex[0]))) if a.ex[0] != 0 else 0.0, False)
        raise Skip('re of inexact')
    if name == 'im':
        if a.ex is not None:
            if a.ex[1] == 0 and a.amp > 0 and a.ex[0] != 0:
                raise Skip('cancellation')
            return V.exact(a.ex[1], 0, a.amp * (a.mag() / abs(float(a.ex[1]))) if a.ex[1] != 0 else 0.0, False)
        raise Skip('im of inexact')
    if name == 'conj':
        if a.ex is not None:
            return V((a.ex[0], -a.ex[1]), a.ap.conjugate(), a.amp, a.ct)
        return V(None, a.ap.conjugate(), a.amp, a.ct)
    if name == 'sqrt':
        if a.ex is not None and a.ex[1] == 0 and a.ex[0] >= 0 and a.amp == 0:
            n, d = a.ex[0].numerator, a.ex[0].denominator
            rn, rd = math.isqrt(n), math.isqrt(d)
            if rn * rn == n and rd * rd == d:
                return V.exact(Fraction(rn, rd), 0, None, a.ct)
        if a.is_zero():
            return V.exact(0, 0, None, a.ct)
        if a.ct and a.ap.real < 0 and abs(a.ap.imag) <= 1e-6 * abs(a.ap.real):
            raise Skip('branch cut')
        r_ = cmath.sqrt(a.ap)
        return V(None, _fin(r_), a.amp / 2 + 2, a.ct or r_.imag != 0)
    if name in ('sin', 'cos', 'exp'):
        z = a.ap
        try:
            fz = getattr(cmath, name)(z)
            dz = {'sin': cmath.cos, 'cos': lambda t: -cmath.sin(t), 'exp': cmath.exp}[name](z)
        except OverflowError:
            raise Skip('range')
        if fz == 0:
            raise Skip('cancellation')
        cond = abs(z * dz / fz)
        return V(None, _fin(fz), a.amp * cond + 2 + cond, a.ct)
    raise ValueError(name)


def denote(e, var_key):
    """the value the documented semantics assigns to derivation e (binary, recursive); raises MathErr / Skip"""
    k = e[0]
    if k == 'num':
        v = numeral_exact(e[1])
        if e[2]:
            m = SUFFIX_VALUES[e[2]]
            # float(text) * suffix: two roundings
            # float(text) * suffix: up to three roundings unless the multiplier is itself a double
            val = V.exact(v * m)
            if val.amp or not f_exact(m):
                val = V(val.ex, val.ap, 2.0, False)
            return val
        return V.exact(v)
    if k == 'var':
        n = e[1]
        if n in CONSTS:
            return V(None, complex(CONSTS[n]), 0.5, False)
        if n in ('i', 'j'):
            return V.exact(0, 1, None, True)
        re_, im_ = VAR_TABLES[var_key][n]
        return V.exact(re_, im_)
    if k == 'paren':
        return denote(e[1], var_key)
    if k == 'app':
        return apply_fn(e[1], [denote(a, var_key) for a in e[2]])
    if k == 'arr':
        raise Skip('array')
    if k == 'neg':
        return v_neg(denote(e[1], var_key))
    if k == 'pos':
        return denote(e[1], var_key)
    if k == 'par':
        return v_par([denote(a, var_key) for a in e[1]])
    a = denote(e[1], var_key)
    b = denote(e[2], var_key)
    if k == 'add':
        return v_add(a, b)
    if k == 'sub':
        return v_add(a, b, -1)
    if k == 'mul':
        return v_mul(a, b)
    if k == 'div':
        return v_div(a, b)
    if k == 'pow':
        return v_pow(a, b)
    raise ValueError(k)


def denote_array(e, var_key):
    """nested lists of V for array literals built from scalar derivations (no arithmetic on arrays)"""
    if e[0] == 'arr':
        return [denote_array(a, var_key) for a in e[1]]
    if e[0] == 'paren' and has_array(e[1]):
        return denote_array(e[1], var_key)
    return denote(e, var_key)


def has_array(e):
    if e[0] == 'arr':
        return True
    for c in e[1:]:
        if isinstance(c, tuple) and has_array(c):
            return True
        if isinstance(c, list) and any(has_array(x) for x in c):
            return True
    return False


def pure_array(e):
    """an array literal (possibly nested / parenthesised) all of whose scalar entries contain no arrays"""
    if e[0] == 'arr':
        return all(pure_array(a) if has_array(a) else True for a in e[1])
    if e[0] == 'paren':
        return pure_array(e[1])
    return False


# =================================================================================================
# renderings
# =================================================================================================
WS_BETWEEN = ['', '', ' ', '\t', '\n', '\r', '  ', ' \t', '\n ', '\t\t']


def join_tokens(toks, rng, style):
    """style: 'canon' | 'spaces' (spaces anywhere, also inside tokens) | 'ws' (tabs / line breaks / spaces between tokens)
    | 'emdash' (minus tokens as U+2014)"""
    if style == 'canon':
        return ''.join(toks)
    if style == 'emdash':
        return ''.join(('—' if (t == '-' and rng.random() < 0.7) else t) for t in toks)
    if style == 'ws':
        out = [rng.choice(WS_BETWEEN)]
        for t in toks:
            out.append(t)
            out.append(rng.choice(WS_BETWEEN))
        return ''.join(out)
    if style == 'spaces':
        s = ''.join(toks)
        out = []
        for ch in s:
            if rng.random() < 0.3:
                out.append(' ' * rng.randint(1, 2))
            out.append(ch)
        if rng.random() < 0.5:
            out.append(' ')
        return ''.join(out)
    raise ValueError(style)


def add_parens(e, rng, p=0.25):
    """wrap random subexpressions in redundant parentheses"""
    k = e[0]
    if k in ('num', 'var'):
        r = e
    elif k == 'app':
        r = ('app', e[1], [add_parens(a, rng, p) for a in e[2]])
    elif k == 'arr':
        r = ('arr', [add_parens(a, rng, p) for a in e[1]])
    elif k == 'par':
        r = ('par', [add_parens(a, rng, p) for a in e[1]])
    elif k in ('neg', 'pos', 'paren'):
        r = (k, add_parens(e[1], rng, p))
    else:
        r = (k, add_parens(e[1], rng, p), add_parens(e[2], rng, p))
    if rng.random() < p:
        r = ('paren', r)
        if rng.random() < 0.2:
            r = ('paren', r)
    return r


# =================================================================================================
# generators
# =================================================================================================
NUM_FORMS = ['2', '3', '7', '10', '0', '1', '4', '12', '2.5', '0.5', '.5', '5.', '.25', '1.75', '3.0', '0.125',
             '1e2', '2E1', '1.5e1', '5e-1', '25e-2', '2.5E+1', '.5e1', '5.e0', '1e0', '4E-2', '1.25e+2', '100', '0.1', '0.3']
SUFFIXED = [('50', '%'), ('2.5', '%'), ('1e2', '%'), ('200', '%'), ('3', 'k'), ('1.5', 'M'), ('2', 'm'), ('5e2', 'u'),
            ('4', 'G'), ('7', 'n'), ('2', 'T'), ('250', 'p'), ('.5', 'k'), ('5.', 'm')]
SMALL_EXPONENTS = ['2', '3', '0', '1', '4']


def gen_leaf(rng, var_key, suf_key, exponent=False):
    r = rng.random()
    if exponent and r < 0.6:
        return ('num', rng.choice(SMALL_EXPONENTS), None)
    if r < 0.45:
        return ('num', rng.choice(NUM_FORMS), None)
    if r < 0.55:
        t, s = rng.choice(SUFFIXED)
        if s == '%' or suf_key == 'metric':
            return ('num', t, s)
        return ('num', t, None)
    if r < 0.93:
        return ('var', rng.choice(NAMES))
    return ('var', rng.choice(CONST_NAMES))


def gen_expr(rng, depth, var_key, suf_key, exponent=False, arrays=False):
    if depth <= 0 or rng.random() < 0.12:
        return gen_leaf(rng, var_key, suf_key, exponent)
    r = rng.random()
    sub = lambda **kw: gen_expr(rng, depth - 1, var_key, suf_key, **kw)      # noqa
    if r < 0.16:
        return ('add', sub(), sub())
    if r < 0.32:
        return ('sub', sub(), sub())
    if r < 0.46:
        return ('mul', sub(), sub())
    if r < 0.58:
        return ('div', sub(), sub())
    if r < 0.70:
        return ('pow', sub(), gen_expr(rng, min(depth - 1, 2), var_key, suf_key, exponent=True))
    if r < 0.78:
        return ('par', [sub() for _ in range(rng.choice([2, 2, 2, 3, 4]))])
    if r < 0.87:
        return ('neg', sub())
    if r < 0.89:
        return ('pos', sub())
    if r < 0.92:
        return ('paren', sub())
    if arrays and r < 0.94:
        return ('arr', [sub() for _ in range(rng.randint(1, 3))])
    name = rng.choice(['f', 'F', 'g', 'h', "f'", 'sqrt', 'abs', 'sin', 'cos', 'exp', 'max', 'min', 're', 'im', 'conj'])
    if var_key == 'cplx' and name in ('max', 'min'):
        name = 'g'
    if name in USER_FUNCS:
        ar = USER_FUNCS[name][1]
    elif name in ('max', 'min'):
        ar = rng.choice([2, 3, 4])
    else:
        ar = 1
    return ('app', name, [sub() for _ in range(ar)])


CONNECTORS = ['+', '-', '*', '/', '^', '||', '^-', '*-', '/-', '+-', '--', '||-']
BASIC = CONNECTORS[:6]
LEAF_SETS = [['7', '3', '2', '5', '4'], ['1.5', '2', '3', '0.5', '4'], ['x', 'y', 'z_1', 'a_{1}', 'b2'],
             ['3', 'x', '2', 'y', 'k'], ['0', '3', '2', '0', '4'], ['2', '0', '3', '2', '0']]


def seq_to_expr(lead, seq, leaves):
    """documented reading of  lead l0 c1 l1 c2 l2 ...  by precedence climbing over the documented table:
    '^' (right assoc, optional sign on the exponent) > unary minus > '||' > '* /' (left) > '+ -' (left)"""
    def leaf(t):
        return ('var', t) if t[0].isalpha() else ('num', t, None)
    # items: list of (binary operator, unary-minus flag on the following operand)
    operands = [leaf(t) for t in leaves[:len(seq) + 1]]
    ops, negs = [], [lead == '-']
    for c in seq:
        if len(c) > 1 and c.endswith('-') and c != '--':
            ops.append(c[:-1]); negs.append(True)
        elif c == '--':
            ops.append('-'); negs.append(True)
        else:
            ops.append(c); negs.append(False)
    # 1. power towers (right assoc); a minus after '^' belongs to the exponent: a ^ - (rest of the tower)
    i, units, unit_ops = 0, [], []
    n = len(operands)
    while i < n:
        j = i
        while j < len(ops) and ops[j] == '^':
            j += 1
        # operands i..j form a tower
        t = operands[j]
        for k in range(j - 1, i - 1, -1):
            if negs[k + 1]:
                t = ('neg', t)
            t = ('pow', operands[k], t)
        if negs[i]:
            t = ('neg', t)          # unary minus binds weaker than '^'
        units.append(t)
        if j < len(ops):
            unit_ops.append(ops[j])
        i = j + 1
    # 2. parallel (n-ary), 3. product (left), 4. sum (left)
    def group(us, os, mine, build):
        out_u, out_o, cur = [], [], [us[0]]
        for o, u in zip(os, us[1:]):
            if o in mine:
                cur.append((o, u))
            else:
                out_u.append(build(cur)); out_o.append(o); cur = [u]
        out_u.append(build(cur))
        return out_u, out_o

    def build_par(c):
        return c[0] if len(c) == 1 else ('par', [c[0]] + [u for _, u in c[1:]])

    def build_left(c):
        t = c[0]
        for o, u in c[1:]:
            t = ({'*': 'mul', '/': 'div', '+': 'add', '-': 'sub'}[o], t, u)
        return t
    us, os_ = group(units, unit_ops, ('||',), build_par)
    us, os_ = group(us, os_, ('*', '/'), build_left)
    us, os_ = group(us, os_, ('+', '-'), build_left)
    assert len(us) == 1 and not os_
    t = us[0]
    if lead == '+':
        # a leading plus is not part of the documented grammar of the property; only used for correspondence
        t = ('pos', t)
    return t


INVALID_FIXED = [
    # doubled / misplaced binary operators
    '1**2', '1//2', '1*/2', '1/*2', '1+*2', '1-*2', '1^^2', '1^*2', '1*^2', '2^/3', '1|||2', '1||||2', '1|2', '1||*2', '1*||2',
    '1++2', '1-+2', 'x*+y', '1+/2', 'x^+2', '2^--2', '--1', '1---1', 'x*--y', '-(-1)--', '1||--2', '- -x',
    # leading / trailing operators
    '*1', '/1', '^2', '||2', '1+', '1-', '1*', '1/', '1^', '1||', '1^-', '(1+)', '(*1)', 'f(1+)', '[1,2*]', '1+2-', '-', '+', '^',
    # empty brackets / argument lists
    '()', '[]', 'f()', '1+()', '2*[]', 'f(,)', 'f(1,)', 'f(,1)', '[1,]', '[,1]', '[,]', 'f(1,,2)', '[1,,2]', 'g(1,2,)', '(())', '[()]',
    # juxtaposition
    '(1)(2)', '2(3)', '(2)3', '(x)y', '(x)(y)', 'x\ty', '2\t3', 'x\n2', '2\nx_1', '[1][2]', '(1)[2]', 'x[1]', '[1]x', 'f(1)(2)', 'f(1)x',
    'f(1)2', '1.2.3', '1..2', 'x.y', '2\t(3)', '1\t.5', '1.\t5', 'x\t_1', '1e\t5',
    # foreign characters
    '1#2', 'x$', '1;2', 'a&b', '1=1', 'x!', '2~3', '"x"', '1\\2', 'x?', '@x', '1<2', '2>1', 'x:y', '1`2', '{1}', '1+{2}', '_x',
    "'x", '×2', '2×3', '6÷2', 'π', 'x²', '１+1', '1 +1', '1+−2', '2⋅3', '1​+2',
    '1,2', ',', 'x,y', '.', '1+.', 'x^{2', 'x_{1', 'x}', '1)', '(1', '[1', '1]', '(1]', '[1)', '((1)', '(1))', 'f(1', 'f(1]',
    '1\x0b+2', '1\x0c2', '%', '5+%', '%5',
]


def gen_invalid(rng, var_key, suf_key, n):
    """strings made invalid by one construction step applied to a valid derivation's token list"""
    out = []
    while len(out) < n:
        e = gen_expr(rng, rng.randint(1, 3), var_key, suf_key, arrays=True)
        toks = tokens(e)
        kind = rng.choice(['double-op', 'trailing-op', 'leading-op', 'empty-brackets', 'empty-arg', 'juxtapose', 'foreign',
                           'unbalanced'])
        ops_pos = [i for i, t in enumerate(toks) if t in ('+', '-', '*', '/', '^', '||')]
        if kind == 'double-op':
            if not ops_pos:
                continue
            i = rng.choice(ops_pos)
            extra = rng.choice(['*', '/', '^', '||', '+'])
            if rng.random() < 0.5:
                toks = toks[:i + 1] + [extra] + toks[i + 1:]
            else:
                if toks[i] == '-':
                    continue        # an operator in front of a minus turns it into a (valid) unary minus
                if extra == '+' and (i == 0 or toks[i - 1] in ('(', '[', ',')):
                    continue        # that would be a leading plus
                toks = toks[:i] + [extra] + toks[i:]
        elif kind == 'trailing-op':
            toks = toks + [rng.choice(['+', '-', '*', '/', '^', '||', '^-'])]
        elif kind == 'leading-op':
            toks = [rng.choice(['*', '/', '^', '||'])] + toks
        elif kind == 'empty-brackets':
            i = rng.randrange(len(toks) + 1)
            ins = rng.choice(['()', '[]'])
            toks = toks[:i] + [ins] + toks[i:]
        elif kind == 'empty-arg':
            commas = [i for i, t in enumerate(toks) if t == ',']
            opens = [i for i, t in enumerate(toks) if t in ('(', '[')]
            if commas and rng.random() < 0.6:
                i = rng.choice(commas)
                toks = toks[:i] + [','] + toks[i:]
            elif opens:
                i = rng.choice(opens)
                toks = toks[:i + 1] + [','] + toks[i + 1:]
            else:
                continue
        elif kind == 'juxtapose':
            # two complete operands next to each other, separated by a TAB so that they cannot merge into one token
            a = ''.join(tokens(gen_expr(rng, 1, var_key, suf_key), 5))
            b = ''.join(tokens(gen_expr(rng, 1, var_key, suf_key), 5))
            if rng.random() < 0.6:
                s = '(' + a + ')\t' + b                  # ')' followed by an operand
            else:
                s = rng.choice(NUM_FORMS) + '\t(' + b + ')'      # a number followed by '(' (a name would be a call)
            out.append((s, kind))
            continue
        elif kind == 'foreign':
            if len(toks) < 2:
                continue
            i = rng.randrange(1, len(toks))
            ch = rng.choice(['#', '$', ';', '&', '=', '!', '~', '"', '\\', '?', '@', '<', '>', ':', '`', '×', '÷',
                             '−', '·', ' '])
            toks = toks[:i] + [ch] + toks[i:]
        elif kind == 'unbalanced':
            i = rng.randrange(len(toks) + 1)
            toks = toks[:i] + [rng.choice(['(', ')', '[', ']', '{', '}'])] + toks[i:]
        out.append((''.join(toks), kind))
    return out


MUTATION_ALPHABET = "xyf12.e+-*/^|()[],' \t\n_{}%—E3"


def gen_mutants(rng, var_key, suf_key, n):
    """correspondence-only strings: valid derivations with random character edits, and random strings"""
    out = []
    while len(out) < n:
        if rng.random() < 0.3:
            s = ''.join(rng.choice(MUTATION_ALPHABET) for _ in range(rng.randint(1, 12)))
        else:
            e = gen_expr(rng, rng.randint(1, 3), var_key, suf_key, arrays=True)
            s = list(join_tokens(tokens(e), rng, rng.choice(['canon', 'ws', 'spaces', 'emdash'])))
            for _ in range(rng.randint(1, 3)):
                op = rng.random()
                i = rng.randrange(len(s) + 1)
                if op < 0.4 and s:
                    del s[min(i, len(s) - 1)]
                elif op < 0.8:
                    s.insert(i, rng.choice(MUTATION_ALPHABET))
                elif s:
                    s[min(i, len(s) - 1)] = rng.choice(MUTATION_ALPHABET)
            s = ''.join(s)
        out.append(s)
    return out


# =================================================================================================
# running the implementation
# =================================================================================================
TAGS = {'number': 0, 'variable': 1, 'function': 2, 'arguments': 3, 'parentheses': 4, 'array': 5, 'power': 6,
        'negation': 7, 'parallel': 8, 'product': 9, 'sum': 10}


def zl(n):
    n = int(n)
    return '(%d)' % n if n < 0 else '%d' % n


def strl(s):
    return '[' + ';'.join(str(ord(c)) for c in s) + ']'


def ql(x):
    fr = Fraction(x)
    return '(Qmake %s %d%%positive)' % (zl(fr.numerator), fr.denominator)


def sexp_term(t, PR):
    if isinstance(t, PR):
        return '(SN %s [%s])' % (zl(TAGS.get(t.getName(), -1)), ';'.join(sexp_term(c, PR) for c in t))
    if isinstance(t, str):
        return '(SA %s)' % strl(t)
    return '(SN (-2) [])'


def sexp_text(t, PR):
    if isinstance(t, PR):
        return '(%s %s)' % (t.getName(), ' '.join(sexp_text(c, PR) for c in t))
    return repr(t)


def impl_parse(s):
    """(coq term, summary) of MathParser.parse(s) on the harness's private parser instance"""
    I = impl()
    cx, PR = I['cx'], I['ParseResults']
    st, r = core.guarded(I['parser'].parse, s)
    if st == 'ret':
        names = lambda xs: '[' + ';'.join(strl(x) for x in sorted(xs)) + ']'       # noqa
        return ('(ITree %s %s %s %s)' % (sexp_term(r.tree, PR), names(r.variables_used), names(r.functions_used),
                                         names(r.suffixes_used)), ('tree', sexp_text(r.tree, PR)))
    if st == 'exc' and isinstance(r, cx.UnbalancedBrackets):
        m = str(r)
        k = ('CloseWithoutOpen' if 'closed without ever' in m else 'WrongCloser' if 'opened and then' in m
             else 'OpenWithoutClose')
        return '(IUnbal %s)' % k, ('unbalanced', k)
    if st == 'exc' and isinstance(r, cx.UnableToParse):
        return 'IUnparsable', ('unparsable', '')
    return 'IOther', ('other', '%s: %r' % (st, r))


def _tree_terms(parsed):
    PR = impl()['ParseResults']
    names = lambda xs: '[' + ';'.join(strl(x) for x in sorted(xs)) + ']'       # noqa
    return ('(ITree %s %s %s %s)' % (sexp_term(parsed.tree, PR), names(parsed.variables_used),
                                     names(parsed.functions_used), names(parsed.suffixes_used)),
            ('tree', sexp_text(parsed.tree, PR)), parsed.tree)


def impl_parse_via(s, r):
    """the parse of s as observed through the evaluator() call that produced r (its parser cache / its exception);
    falls back to the private parser where the front door's strip() could make a difference.
    Returns (coq term, summary, ParseResults or None)"""
    I = impl()
    cx = I['cx']
    core_ws = ' \t\n\r'
    if s.strip() != s.strip(core_ws) or s.strip() == '':
        t, summ = impl_parse(s)
        return t, summ, None
    if r['status'] == 'exc':
        e = r['exc']
        m = str(e)
        if isinstance(e, cx.UnbalancedBrackets):
            k = ('CloseWithoutOpen' if 'closed without ever' in m else 'WrongCloser' if 'opened and then' in m
                 else 'OpenWithoutClose')
            return '(IUnbal %s)' % k, ('unbalanced', k), None
        if isinstance(e, cx.UnableToParse) and 'Could not parse' in m:
            return 'IUnparsable', ('unparsable', ''), None
    parsed = I['ex'].PARSER.cache.get(s.strip().replace(' ', ''))
    if parsed is None:
        t, summ = impl_parse(s)
        return t, summ, None
    return _tree_terms(parsed)


def expr_of_tree(t):
    """ParseResults -> derivation (used only to estimate the conditioning of strings that were not generated from one)"""
    PR = impl()['ParseResults']
    if not isinstance(t, PR):
        raise ValueError('leaf')
    k = t.getName()
    kids = list(t)
    if k == 'number':
        return ('num', kids[0], kids[1] if len(kids) > 1 else None)
    if k == 'variable':
        return ('var', kids[0])
    if k == 'function':
        return ('app', kids[0], [expr_of_tree(a) for a in kids[1]])
    if k == 'parentheses':
        return ('paren', expr_of_tree(kids[0]))
    if k == 'array':
        return ('arr', [expr_of_tree(a) for a in kids])
    if k == 'negation':
        return ('neg', expr_of_tree(kids[-1]))
    if k == 'parallel':
        return ('par', [expr_of_tree(a) for a in kids])
    if k == 'power':
        e = expr_of_tree(kids[-1])
        for c in reversed(kids[:-1]):
            if isinstance(c, str):
                e = ('neg', e)
            else:
                e = ('pow', expr_of_tree(c), e)
        return e
    if k in ('product', 'sum'):
        lead = False
        if isinstance(kids[0], str):
            lead, kids = True, kids[1:]
        e = expr_of_tree(kids[0])
        if lead:
            e = ('pos', e)
        for op, c in zip(kids[1::2], kids[2::2]):
            e = ({'+': 'add', '-': 'sub', '*': 'mul', '/': 'div'}[op], e, expr_of_tree(c))
        return e
    raise ValueError(k)


def guard_of_tree(tree, var_key):
    try:
        return expected_of(expr_of_tree(tree), var_key)
    except (KeyError, ValueError, IndexError, TypeError):
        return None


def val_term(v):
    I = impl()
    if isinstance(v, I['MathArray']) or isinstance(v, (list, tuple)):
        return '(VA [%s])' % ';'.join(val_term(x) for x in list(v))
    c = complex(v)
    if not cmath.isfinite(c):
        return None
    return '(VS (mkC %s %s))' % (ql(c.real), ql(c.imag))


def classify_exc(e):
    """implementation exception -> (coq outcome term, class string)"""
    cx = impl()['cx']
    m = str(e)
    if isinstance(e, cx.UnbalancedBrackets):
        k = ('CloseWithoutOpen' if 'closed without ever' in m else 'WrongCloser' if 'opened and then' in m
             else 'OpenWithoutClose')
        return '(IPErr (PEUnbalanced %s))' % k, 'UnbalancedBrackets'
    if isinstance(e, cx.UnableToParse):
        if 'forbidden in this entry' in m:
            return '(IPErr PETooManyDims)', 'UnableToParse:dims'
        if 'Unable to parse vector/matrix' in m:
            return '(IErr EShape)', 'UnableToParse:shape'
        return '(IPErr PEUnparsable)', 'UnableToParse'
    if isinstance(e, cx.UndefinedVariable):
        return '(IErr EUndefVar)', 'UndefinedVariable'
    if isinstance(e, cx.UndefinedFunction):
        if 'directly after a number' in m:
            return '(IErr EUndefSuffix)', 'UndefinedFunction:suffix'
        return '(IErr EUndefFun)', 'UndefinedFunction'
    if isinstance(e, cx.CalcZeroDivisionError):
        if 'error evaluating' in m:
            return '(IErr (EFunc 0))', 'FunctionError'
        return '(IErr EDivZero)', 'CalcZeroDivisionError'
    if isinstance(e, cx.CalcOverflowError):
        if 'error evaluating' in m:
            return '(IErr (EFunc 0))', 'FunctionError'
        return '(IErr EOverflow)', 'CalcOverflowError'
    if isinstance(e, (cx.FunctionEvalError, cx.DomainError)):
        return '(IErr (EFunc 0))', 'FunctionError'
    if isinstance(e, cx.CalcError):
        return '(IErr EUnsupported)', 'CalcError:' + type(e).__name__
    return 'IOtherOut', 'ESCAPED:' + type(e).__name__


def graph_term(calls):
    """recorded function I/O -> list (str * list (list val * res val)); None if a value is not expressible"""
    by = {}
    for name, args, (st, r) in calls:
        a = [val_term(x) for x in args]
        if any(x is None for x in a):
            return None
        if st == 'ret':
            rv = val_term(r)
            if rv is None:
                return None
            rt = '(Ok %s)' % rv
        else:
            rt = '(Err (EFunc 0))'
        by.setdefault(name, []).append('([%s], %s)' % (';'.join(a), rt))
    return '[' + ';'.join('(%s, [%s])' % (strl(n), ';'.join(g)) for n, g in sorted(by.items())) + ']'


def run_impl(s, var_key, suf_key, max_dim=None):
    """evaluator(s, ...)[0] with recorded function I/O.  Returns dict(status, value/exc, cls, out_term, graph_term)"""
    I = impl()
    variables, suffixes = scope(var_key, suf_key)
    calls = []
    fns = wrapped_functions(calls)
    st, r = core.guarded(I['ex'].evaluator, s, variables, fns, suffixes, max_array_dim=max_dim)
    if st == 'timeout':
        # the alarm is wall-clock: on a loaded machine a harmless call can exceed it; only a repeated timeout counts
        del calls[:]
        st, r = core.guarded(I['ex'].evaluator, s, variables, fns, suffixes, max_array_dim=max_dim, seconds=120)
    res = {'status': st, 'calls': len(calls)}
    g = graph_term(calls)
    res['graph'] = g
    if st == 'ret':
        v = r[0]
        res['value'] = v
        if isinstance(v, float) and math.isnan(v):
            res['cls'], res['out'] = 'nan', 'INan'
        else:
            t = val_term(v)
            res['cls'] = 'value'
            res['out'] = ('(IVal %s)' % t) if t is not None else 'ISkip'
    elif st == 'exc':
        res['exc'] = r
        res['out'], res['cls'] = classify_exc(r)
    else:
        res['out'], res['cls'] = 'IOtherOut', 'TIMEOUT'
    if g is None:
        res['out'] = 'ISkip' if res['cls'] == 'value' else res['out']
        res['graph'] = '[]'
        res['graph_lost'] = True
    return res


HEADER = r'''From Coq Require Import ZArith QArith Qabs List Bool.
From Verif.Model Require Import Result Lexer Parser Eval.
Import ListNotations.
Open Scope Z_scope.
Inductive iparse := ITree (s : sexp) (v f u : list str) | IUnbal (e : bracket_error) | IUnparsable | IOther.
Inductive iout := ISkip | INan | IVal (v : val) | IPErr (e : parse_error) | IErr (e : everr) | IOtherOut.
Definition eps : Q := Qmake 1 1000000000%positive.
Definition memb (x : str) (l : list str) := existsb (str_eqb x) l.
Definition same_set (a b : list str) := forallb (fun x => memb x b) a && forallb (fun x => memb x a) b.
Definition berr_eqb (a b : bracket_error) :=
  match a, b with CloseWithoutOpen, CloseWithoutOpen | WrongCloser, WrongCloser | OpenWithoutClose, OpenWithoutClose => true
  | _, _ => false end.
Definition agree_parse (s : str) (i : iparse) : bool :=
  match parse_formula s, i with
  | PTree t, ITree x v f u => sexp_eqb (to_sexp t) x && same_set (vars_of t) v && same_set (funcs_of t) f
                              && same_set (suffixes_of t) u
  | PUnbalanced e, IUnbal e' => berr_eqb e e'
  | PUnparsable, IUnparsable => true
  | _, _ => false
  end.
Definition everr_class (a b : everr) : bool :=
  match a, b with
  | EUndefVar, EUndefVar | EUndefFun, EUndefFun | EUndefSuffix, EUndefSuffix | EDivZero, EDivZero
  | EOverflow, EOverflow | EShape, EShape | EFunc _, EFunc _ => true
  | _, _ => false
  end.
Definition perr_eqb (a b : parse_error) : bool :=
  match a, b with
  | PEUnbalanced e, PEUnbalanced e' => berr_eqb e e'
  | PEUnparsable, PEUnparsable | PETooManyDims, PETooManyDims => true
  | _, _ => false
  end.
(* 0 agree, 2 outcomes differ, 3 the model declines (outside its domain) *)
Definition agree_out (m : outcome) (i : iout) : Z :=
  match m with
  | OError EDomain | OError EUnsupported | OError EBadNumeral => 3
  | _ =>
    match i with
    | ISkip => 0
    | INan => match m with ONan => 0 | _ => 2 end
    | IVal v => match m with OVal w => if val_close eps w v then 0 else 2 | _ => 2 end
    | IPErr e => match m with OParseError e' => if perr_eqb e e' then 0 else 2 | _ => 2 end
    | IErr e => match m with OError e' => if everr_class e e' then 0 else 2 | _ => 2 end
    | IOtherOut => 2
    end
  end.
Record ccase := mkCase { c_s : option str; c_vars : nat; c_sufs : nat; c_maxdim : option nat;
                         c_graph : list (str * list (list val * res val)); c_parse : option iparse; c_out : iout }.
'''

RUNNER = r'''
Definition run_case (c : ccase) : Z :=
  let E := env_of_tables eps (nth (c_vars c) var_tables []) fun_names (c_graph c) (nth (c_sufs c) suf_tables []) in
  let p := match c_s c, c_parse c with
           | Some s, Some i => agree_parse s i
           | _, _ => true
           end in
  if p then agree_out (evaluator E (c_maxdim c) (c_s c)) (c_out c) else 1.
Fixpoint verif_codes (l : list ccase) (i : Z) : list (Z * Z) :=
  match l with
  | nil => nil
  | c :: r => let k := run_case c in if k =? 0 then verif_codes r (i + 1) else (i, k) :: verif_codes r (i + 1)
  end.
Eval vm_compute in (verif_codes verif_cases 0).
'''


def tables_text():
    """variable / suffix / function-name tables, emitted once per case file"""
    I = impl()
    mf = I['mf']
    vt = []
    for key in VAR_KEYS:
        variables, _ = scope(key, 'default')
        rows = []
        for n in sorted(variables):
            c = complex(variables[n])
            rows.append('(%s, VS (mkC %s %s))' % (strl(n), ql(c.real), ql(c.imag)))
        vt.append('[' + ';\n    '.join(rows) + ']')
    st = []
    for key in ('default', 'metric'):
        _, suffixes = scope('int', key)
        # the decimal the author wrote (as in Gen/EvalTables.v), not the double nearest to it
        st.append('[' + '; '.join('(%s, %s)' % (strl(n), ql(Fraction(repr(suffixes[n])))) for n in sorted(suffixes)) + ']')
    fn = '[' + '; '.join(strl(n) for n in FUNC_NAMES) + ']'
    return ('Definition var_tables : list (list (str * val)) :=\n  [' + ';\n   '.join(vt) + '].\n'
            'Definition suf_tables : list (list (str * Q)) :=\n  [' + ';\n   '.join(st) + '].\n'
            'Definition fun_names : list str := ' + fn + '.\n')


def case_term(s, var_key, suf_key, max_dim, graph, parse_term, out_term):
    return ('(mkCase %s %d%%nat %d%%nat %s %s %s %s)' %
            ('None' if s is None else '(Some %s)' % strl(s), VAR_IDS[var_key], SUFFIX_IDS[suf_key],
             'None' if max_dim is None else '(Some %d%%nat)' % max_dim, graph,
             'None' if parse_term is None else '(Some %s)' % parse_term, out_term))


def eval_cases(tag, terms, shard):
    """run the case terms through Coq; returns (codes: {index: code}, errors)"""
    import re as _re
    head = HEADER + tables_text()
    files = []
    for k in range(0, len(terms), shard):
        chunk = terms[k:k + shard]
        text = head + 'Definition verif_cases : list ccase :=\n  [ %s ].\n' % '\n  ; '.join(chunk) + RUNNER
        files.append(('%s_%04d' % (tag, k // shard), text))
    out = core.run_case_files(files)
    codes, errors = {}, []
    for (name, rc, txt), k in zip(out, range(0, len(terms), shard)):
        m = _re.search(r'=\s*(\[.*?\]|nil)\s*:\s*list \(Z \* Z\)', txt, _re.S)
        if rc != 0 or not m:
            errors.append((name, txt[-2000:]))
            continue
        for a, b in _re.findall(r'\((-?\d+),\s*(-?\d+)\)', m.group(1)):
            codes[k + int(a)] = int(b)
    return codes, errors


# =================================================================================================
# the property oracle on the implementation
# =================================================================================================
def close(impl_v, want, tol=1e-9):
    try:
        c = complex(impl_v)
    except (TypeError, ValueError):
        return False
    if not cmath.isfinite(c):
        return False
    scale = max(abs(want), abs(c))
    return abs(c - want) <= tol * scale


def array_close(impl_v, want):
    I = impl()
    if isinstance(want, list):
        if not isinstance(impl_v, I['MathArray']) and not isinstance(impl_v, (list, tuple)):
            return False
        xs = list(impl_v)
        return len(xs) == len(want) and all(array_close(x, w) for x, w in zip(xs, want))
    if isinstance(impl_v, I['MathArray']):
        return False
    return close(impl_v, want.ap)


def array_amp(want):
    if isinstance(want, list):
        return max([array_amp(w) for w in want] or [0])
    return want.amp


def expected_of(e, var_key):
    """('value', complex, amp) | ('array', nested V) | ('matherr', kind) | ('skip', reason)"""
    range_reset()
    try:
        if has_array(e):
            if not pure_array(e):
                return ('skip', 'array arithmetic')
            w = denote_array(e, var_key)
            if array_amp(w) > AMP_LIMIT:
                return ('skip', 'ill-conditioned')
            return ('array', w)
        v = denote(e, var_key)
    except Skip as k:
        return ('skip', str(k))
    except MathErr as k:
        return ('matherr', str(k))
    except (OverflowError, ZeroDivisionError):
        return ('skip', 'range')
    if v.amp > AMP_LIMIT:
        return ('skip', 'ill-conditioned')
    if range_risky():
        return ('skip', 'range')
    return ('value', v.ap, v.amp)


def plain_expected(exp):
    """JSON-able form of an oracle prediction (kept in witnesses for replay)"""
    def pl(w):
        return [pl(x) for x in w] if isinstance(w, list) else repr(w.ap)
    if exp[0] == 'value':
        return {'kind': 'value', 'value': repr(exp[1])}
    if exp[0] == 'array':
        return {'kind': 'array', 'value': pl(exp[1])}
    return {'kind': exp[0], 'value': str(exp[1])}


def matches_expected(r, pe):
    """does the implementation's result r agree with a stored plain expectation?"""
    def cplx(txt):
        return complex(txt.strip('()').replace(' ', '')) if isinstance(txt, str) else txt

    def arr_close(v, w):
        I = impl()
        if isinstance(w, list):
            if not (isinstance(v, I['MathArray']) or isinstance(v, (list, tuple))):
                return False
            xs = list(v)
            return len(xs) == len(w) and all(arr_close(x, y) for x, y in zip(xs, w))
        return (not isinstance(v, I['MathArray'])) and close(v, cplx(w))
    if pe['kind'] == 'value':
        return r['status'] == 'ret' and r['cls'] == 'value' and close(r['value'], cplx(pe['value']))
    if pe['kind'] == 'array':
        return r['status'] == 'ret' and r['cls'] == 'value' and arr_close(r['value'], pe['value'])
    if pe['kind'] == 'matherr':
        if r['status'] == 'ret' and r['cls'] == 'value':
            try:
                return not cmath.isfinite(complex(r['value']))
            except (TypeError, ValueError):
                return False
        return not (r['status'] == 'exc' and r['cls'].startswith('ESCAPED'))
    return True


def check_value(r, exp):
    """None if the implementation's result r is what the documented semantics gives, else a description"""
    if exp[0] == 'skip':
        return None
    if exp[0] == 'matherr':
        if r['status'] == 'ret' and r['cls'] == 'value':
            v = r['value']
            try:
                fin = cmath.isfinite(complex(v))
            except (TypeError, ValueError):
                fin = True
            if fin:
                return 'mathematics assigns no value (%s) but the evaluator returned %r' % (exp[1], v)
        if r['status'] == 'exc' and r['cls'].startswith('ESCAPED'):
            return 'non-library exception %r' % (r['exc'],)
        return None
    if r['status'] == 'exc' and r['cls'] == 'FunctionError':
        import re as _re
        m = _re.search(r'(?:evaluating|passed to) ([^\s(]+)\(', str(r['exc']))
        if m and m.group(1) in DEFAULT_USED:
            return None         # a library function refusing its (type of) argument is C15's subject, not the grammar's
    if r['status'] != 'ret':
        return 'expected a value, got %s %r' % (r['cls'], r.get('exc'))
    if exp[0] == 'array':
        if not array_close(r['value'], exp[1]):
            return 'array value %r differs from the documented semantics' % (r['value'],)
        return None
    if not close(r['value'], exp[1]):
        return 'value %r, documented semantics gives %r' % (r['value'], exp[1])
    return None


def is_parse_error(r):
    return r['status'] == 'exc' and r['cls'] in ('UnableToParse', 'UnbalancedBrackets')


# =================================================================================================
# run
# =================================================================================================
def sizes(ctx):
    tier, esc = ctx['tier'], ctx['escalate']
    if tier == 'thorough':
        return dict(leads12=('', '-', '+'), leads3=('', '-', '+'), seq4_basic=False, seq4_random=20736, leaf_sets=6,
                    derivations=4000, renderings=6, invalid=3000, mutants=8000, graders=300, int_derivations=3000, extreme=4000)
    if esc:
        return dict(leads12=('', '-', '+'), leads3=('', '-'), seq4_basic=True, seq4_random=1500, leaf_sets=1,
                    derivations=500, renderings=6, invalid=700, mutants=2000, graders=100, int_derivations=500, extreme=500)
    return dict(leads12=('', '-', '+'), leads3=('',), seq4_basic=True, seq4_random=600, leaf_sets=1,
                derivations=300, renderings=5, invalid=400, mutants=1000, graders=60, int_derivations=250, extreme=300)


class Collector(object):
    def __init__(self, res):
        self.res = res
        self.terms = []
        self.metas = []
        self.dist = {}

    def count(self, k, n=1):
        self.dist[k] = self.dist.get(k, 0) + n

    def add(self, s, var_key, suf_key, r, max_dim=None, stream='', exp=None):
        """exp: the oracle's prediction for a generated derivation (its conditioning estimate is the guard band of the
        value comparison); for strings without a derivation the estimate is taken from the parsed tree"""
        pt, summary, tree = (None, None, None)
        if s is not None:
            pt, summary, tree = impl_parse_via(s, r)
        if exp is None and tree is not None:
            exp = guard_of_tree(tree, var_key)
        out = r['out']
        if exp is not None and exp[0] == 'skip' and r['cls'] in ('value', 'CalcZeroDivisionError', 'CalcOverflowError',
                                                                'FunctionError'):
            out = 'ISkip'
            self.count('value_guarded:' + exp[1])
        self.terms.append(case_term(s, var_key, suf_key, max_dim, r['graph'], pt, out))
        self.metas.append({'formula': s, 'vars': var_key, 'suffixes': suf_key, 'max_array_dim': max_dim, 'stream': stream,
                           'impl_parse': summary, 'impl_outcome': r['cls'],
                           'impl_value': repr(r.get('value')) if r['status'] == 'ret' else repr(r.get('exc'))})
        self.count('outcome:' + r['cls'].split(':')[0])
        if r.get('graph_lost'):
            self.count('function_io_not_expressible')


def witness(res, kind, s, var_key, suf_key, what, **extra):
    w = {'key': '%s:%s/%s:%r' % (kind, var_key, suf_key, s), 'kind': kind, 'formula': s, 'vars': var_key,
         'suffixes': suf_key, 'what': what}
    w.update(extra)
    res.witnesses.append(w)


def run_sequences(ctx, res, col, rng, sz):
    """exhaustive operator sequences over distinguishing leaves"""
    seqs = []
    for k in (1, 2, 3):
        for seq in itertools.product(CONNECTORS, repeat=k):
            for lead in (sz['leads3'] if k == 3 else sz['leads12']):
                seqs.append((lead, seq))
    if sz['seq4_basic']:
        for seq in itertools.product(BASIC, repeat=4):
            seqs.append(('', seq))
    all4 = list(itertools.product(CONNECTORS, repeat=4))
    if sz['seq4_random'] >= len(all4):
        pick = all4
    else:
        pick = rng.sample(all4, sz['seq4_random'])
    for seq in pick:
        seqs.append((rng.choice(['', '', '-']), seq))
    n_cases = 0
    for idx, (lead, seq) in enumerate(seqs):
        # quick: one leaf set per sequence (rotating); thorough: all of them for length <= 3, two for length 4
        if sz['leaf_sets'] == 1:
            chosen = [idx % len(LEAF_SETS)]
        elif len(seq) <= 3:
            chosen = list(range(len(LEAF_SETS)))
        else:
            chosen = [idx % len(LEAF_SETS), (idx + 3) % len(LEAF_SETS)]
        for li in chosen:
            lv = LEAF_SETS[li]
            var_key = ('int', 'dec', 'cplx')[(idx + li) % 3]
            s = lead + lv[0] + ''.join(c + l for c, l in zip(seq, lv[1:]))
            r = run_impl(s, var_key, 'default')
            e = seq_to_expr(lead, seq, lv)
            exp = expected_of(e, var_key)
            col.add(s, var_key, 'default', r, stream='sequence', exp=exp)
            res.oracle_evals += 1
            n_cases += 1
            col.count('seq_expected:' + exp[0])
            if lead == '+':
                continue            # leading plus: correspondence only
            bad = check_value(r, exp)
            if bad:
                witness(res, 'sequence', s, var_key, 'default', bad, expected=plain_expected(exp))
            if exp[0] == 'value':
                res.nontrivial.add(('seq', lead, seq, tuple(lv), var_key))
    col.count('sequence_strings', n_cases)
    col.count('operator_sequences', len(seqs))


def run_literals(ctx, res, col, rng):
    """every numeral format alone, with every suffix, and every name / default constant alone (exhaustive, small)"""
    forms = NUM_FORMS + ['1E2', '1e+2', '1e—2', '007', '0.0', '00.50', '12345678.9', '1e-5', '9.99E+3']
    for t in forms:
        cases = [(('num', t, None), 'default')] + [(('num', t, u), 'metric') for u in sorted(SUFFIX_VALUES)]
        for e, suf_key in cases:
            if '—' in t and e[2]:
                continue
            for var_key in ('dec',):
                s = ''.join(tokens(e))
                r = run_impl(s, var_key, suf_key)
                exp = expected_of(e, var_key)
                col.add(s, var_key, suf_key, r, stream='literal', exp=exp)
                res.oracle_evals += 1
                bad = check_value(r, exp)
                if bad:
                    witness(res, 'derivation', s, var_key, suf_key, bad, expected=plain_expected(exp), canonical=s)
                res.nontrivial.add(('lit', s))
    for var_key in ('int', 'dec', 'cplx'):
        for n in NAMES + CONST_NAMES:
            e = ('var', n)
            r = run_impl(n, var_key, 'default')
            exp = expected_of(e, var_key)
            col.add(n, var_key, 'default', r, stream='literal', exp=exp)
            res.oracle_evals += 1
            bad = check_value(r, exp)
            if bad:
                witness(res, 'derivation', n, var_key, 'default', bad, expected=plain_expected(exp), canonical=n)
            res.nontrivial.add(('name', n, var_key))
    col.count('literal_strings', len(forms) * (1 + len(SUFFIX_VALUES)) + 3 * len(NAMES + CONST_NAMES))


# -------------------------------------------------------------------------------------------------
# extreme magnitudes: the oracle is plain Python float / complex arithmetic with math / cmath (which underflow to 0.0 or
# to denormals silently), evaluated twice (inputs perturbed by 1e-13) to make sure the value is well conditioned
# -------------------------------------------------------------------------------------------------
def _fl_fn(name, z):
    real = not isinstance(z, complex)
    try:
        if name == 'abs':
            return abs(z)
        if name == 'sech':
            return 1 / (math.cosh(z) if real else cmath.cosh(z))
        if name == 'arctan':
            return math.atan(z) if real else cmath.atan(z)
        if name == 'arcsinh':
            return math.asinh(z) if real else cmath.asinh(z)
        if name == 'sqrt':
            return math.sqrt(z) if (real and z >= 0) else cmath.sqrt(z)
        return getattr(math if real else cmath, name)(z)
    except (OverflowError, ValueError, ZeroDivisionError):
        raise Skip('range')


def fdenote(e, var_key, pert=0.0):
    k = e[0]
    if k == 'num':
        v = float(numeral_exact(e[1]))
        return v * float(SUFFIX_VALUES[e[2]]) if e[2] else v
    if k == 'var':
        if e[1] in CONSTS:
            return CONSTS[e[1]]
        if e[1] in ('i', 'j'):
            return 1j
        re_, im_ = VAR_TABLES[var_key][e[1]]
        v = complex(float(re_), float(im_)) if im_ != 0 else float(re_)
        return v * (1 + pert)
    if k in ('paren', 'pos'):
        return fdenote(e[1], var_key, pert)
    if k == 'neg':
        v = fdenote(e[1], var_key, pert)
        return [-x for x in v] if isinstance(v, list) else -v
    if k == 'arr':
        vs = [fdenote(a, var_key, pert) for a in e[1]]
        if any(isinstance(x, list) for x in vs):
            raise Skip('matrix')
        return vs
    if k == 'app':
        args = [fdenote(a, var_key, pert) for a in e[2]]
        if len(args) != 1 or isinstance(args[0], list):
            raise Skip('function')
        return _fl_fn(e[1], args[0])
    if k == 'par':
        vs = [fdenote(a, var_key, pert) for a in e[1]]
        if any(isinstance(x, list) for x in vs):
            raise Skip('array')
        if any(x == 0 for x in vs):
            return 0.0
        try:
            return 1 / sum(1 / x for x in vs)
        except (ZeroDivisionError, OverflowError):
            raise Skip('range')
    a, b = fdenote(e[1], var_key, pert), fdenote(e[2], var_key, pert)
    la, lb = isinstance(a, list), isinstance(b, list)
    try:
        if k in ('add', 'sub'):
            sg = 1 if k == 'add' else -1
            if la and lb and len(a) == len(b):
                return [x + sg * y for x, y in zip(a, b)]
            if la or lb:
                raise Skip('array')
            return a + sg * b
        if k == 'mul':
            if la and lb:
                if len(a) != len(b):
                    raise Skip('array')
                return sum(x * y for x, y in zip(a, b))         # vector * vector is the dot product
            if la:
                return [x * b for x in a]
            if lb:
                return [a * y for y in b]
            return a * b
        if k == 'div':
            if lb:
                raise Skip('array')
            return [x / b for x in a] if la else a / b
        if k == 'pow':
            if la or lb:
                raise Skip('array')
            return a ** b
    except (ZeroDivisionError, OverflowError):
        raise Skip('range')
    raise ValueError(k)


def float_expected(e, var_key):
    """('fvalue', value) when plain floating-point evaluation gives a finite, well-conditioned value; else ('skip', why)"""
    def flat(v):
        return [complex(x) for x in v] if isinstance(v, list) else [complex(v)]
    try:
        v0, v1 = fdenote(e, var_key, 0.0), fdenote(e, var_key, 1e-13)
    except Skip as why:
        return ('skip', str(why))
    except (KeyError, ValueError, TypeError, OverflowError, ZeroDivisionError):
        return ('skip', 'outside the float oracle')
    f0, f1 = flat(v0), flat(v1)
    if len(f0) != len(f1) or not all(cmath.isfinite(x) for x in f0 + f1):
        return ('skip', 'range')
    for p, q in zip(f0, f1):
        if abs(p - q) > 1e-10 * max(abs(p), abs(q)) or (p != 0 and abs(p) < 1e-150) or abs(p) > 1e150:
            return ('skip', 'ill-conditioned')
    return ('fvalue', v0)


UNDERFLOW_FNS = ['exp', 'sin', 'cos', 'tan', 'sinh', 'cosh', 'tanh', 'arctan', 'arcsinh', 'sech', 'sqrt', 'abs']
BIG_NAMES = ['x', 'y', 'X', 'b2']
TINY_NAMES = ['z_1', 'a_{1}', 'T_{1}^{2}', 'k', 'phi_{-1}']


def gen_extreme(rng):
    """ordinary constants combined with terms whose evaluation passes through very small / very large magnitudes"""
    def big_arg():
        r = rng.random()
        a = ('var', rng.choice(BIG_NAMES + ["x'"]))
        if r < 0.3:
            return ('neg', a)
        if r < 0.5:
            return ('neg', ('pow', a, ('num', '2', None)))
        if r < 0.65:
            return ('neg', ('mul', a, ('var', rng.choice(BIG_NAMES))))
        if r < 0.8:
            return ('div', ('neg', a), ('num', rng.choice(['2', '0.5', '10']), None))
        return a

    def tiny_arg():
        a = ('var', rng.choice(TINY_NAMES))
        r = rng.random()
        if r < 0.2:
            return ('neg', a)
        if r < 0.35:
            return ('mul', a, ('var', rng.choice(TINY_NAMES)))
        if r < 0.45:
            return ('div', a, ('var', rng.choice(BIG_NAMES)))
        return a

    def term():
        r = rng.random()
        if r < 0.45:
            return ('app', rng.choice(['exp', 'exp', 'tanh', 'sech', 'cosh', 'sinh', 'arctan']), [big_arg()])
        if r < 0.85:
            return ('app', rng.choice(['sin', 'cos', 'tan', 'sinh', 'tanh', 'arctan', 'arcsinh', 'exp', 'sqrt', 'abs']), [tiny_arg()])
        if r < 0.93:
            return tiny_arg()
        return ('mul', tiny_arg(), tiny_arg())

    def const():
        return ('num', rng.choice(['1', '2', '0.5', '3', '1.5', '10', '0.25']), None)

    r = rng.random()
    if r < 0.2:
        return (rng.choice(['add', 'sub']), const(), term())
    if r < 0.35:
        return (rng.choice(['add', 'sub']), term(), const())
    if r < 0.5:
        return ('div', const(), ('paren', ('add', const(), term())))
    if r < 0.6:
        return ('add', ('mul', term(), term()), const())
    if r < 0.7:
        return ('mul', ('paren', ('add', const(), term())), const())
    if r < 0.85:
        u, v = ('arr', [term(), const()]), ('arr', [term(), const()])
        return ('mul', u, v) if rng.random() < 0.7 else ('mul', ('paren', ('add', u, v)), ('arr', [const(), term()]))
    if r < 0.93:
        return ('add', ('arr', [term(), const()]), ('mul', term(), ('arr', [const(), const()])))
    return ('par', [('paren', ('add', const(), term())), const()])


def value_close(v, want):
    I = impl()
    if isinstance(want, list):
        if not (isinstance(v, I['MathArray']) or isinstance(v, (list, tuple))):
            return False
        xs = list(v)
        return len(xs) == len(want) and all(value_close(x, w) for x, w in zip(xs, want))
    if isinstance(v, I['MathArray']):
        return False
    return close(v, complex(want))


def run_extreme(ctx, res, col, rng, sz):
    n = hit = 0
    tries = 0
    while n < sz['extreme'] and tries < sz['extreme'] * 20:
        tries += 1
        e = gen_extreme(rng)
        exp = float_expected(e, 'extreme')
        if exp[0] != 'fvalue':
            continue
        n += 1
        s = join_tokens(tokens(e), rng, rng.choice(['canon', 'canon', 'ws', 'spaces']))
        r = run_impl(s, 'extreme', 'default')
        col.add(s, 'extreme', 'default', r, stream='extreme', exp=('skip', 'extreme magnitudes: compared with the float oracle'))
        res.oracle_evals += 1
        ok = r['status'] == 'ret' and r['cls'] == 'value' and value_close(r['value'], exp[1])
        if not ok:
            hit += 1
            witness(res, 'extreme', s, 'extreme', 'default',
                    'intermediate results of very small / large magnitude: evaluator returned %s %r, plain floating-point '
                    'evaluation of the documented semantics gives %r' % (r['cls'], r.get('value', r.get('exc')), exp[1]),
                    expected={'kind': 'fvalue', 'value': repr(exp[1])}, canonical=''.join(tokens(e)))
            if hit >= 8:
                break
        res.nontrivial.add(('extreme', s))
    col.count('extreme_strings', n)


INT_LEAF_SETS = [['x', 'y', 'T_{1}^{2}', 'X', 'b2'], ['X', 'X', 'X', 'x', 'T_{1}^{2}'], ['z_1', 'a_{1}', 'k', 'k', "x'"],
                 ['k', 'k', 'x', 'b2', 'phi_{-1}'], ["x'", 'T_{1}^{2}', 'x', 'z_1', 'y']]


def gen_names_expr(rng, depth):
    """derivations built from names only (no number literal anywhere)"""
    if depth <= 0 or rng.random() < 0.15:
        return ('var', rng.choice(NAMES))
    r = rng.random()
    sub = lambda: gen_names_expr(rng, depth - 1)       # noqa
    if r < 0.30:
        return ('mul', sub(), sub())
    if r < 0.50:
        return ('pow', sub(), ('var', rng.choice(['x', 'T_{1}^{2}', 'x', 'b2', 'y', "x'"])))
    if r < 0.65:
        return ('add', sub(), sub())
    if r < 0.78:
        return ('sub', sub(), sub())
    if r < 0.86:
        return ('neg', sub())
    if r < 0.92:
        return ('div', sub(), sub())
    if r < 0.96:
        return ('par', [sub(), sub()])
    return ('paren', sub())


def run_int_bindings(ctx, res, col, rng, sz):
    """variables bound to Python ints, expressions built from names only: integer-typed intermediates of every magnitude
    (products, powers, towers up to the overflow threshold); also through FormulaGrader user_constants"""
    from mitxgraders import FormulaGrader
    cases = []
    for lv in INT_LEAF_SETS:
        for k in (1, 2, 3):
            for seq in itertools.product(BASIC, repeat=k):
                cases.append((seq_to_expr('', seq, lv), 'sequence'))
    for _ in range(sz['int_derivations']):
        cases.append((gen_names_expr(rng, rng.choice([1, 2, 3, 4])), 'derivation'))
    consts = dict((n, int(v[0])) for n, v in VAR_TABLES['pyint'].items() if n.isalnum())
    n_graded = 0
    stream_witnesses = 0
    for idx, (e, kind) in enumerate(cases):
        s = ''.join(tokens(e))
        exp = expected_of(e, 'pyint')
        if exp[0] == 'skip' and exp[1] == 'range':
            # towers beyond the floating-point range: nothing to compare, and an implementation that kept exact integers
            # there would compute astronomically large numbers inside one uninterruptible C call
            col.count('int_expected:beyond-range(not run)')
            continue
        if stream_witnesses >= 8:
            break               # enough witnesses from this stream; do not keep exercising a broken path
        r = run_impl(s, 'pyint', 'default')
        col.add(s, 'pyint', 'default', r, stream='int-bindings', exp=exp)
        res.oracle_evals += 1
        col.count('int_expected:' + exp[0])
        bad = check_value(r, exp)
        if bad:
            stream_witnesses += 1
            witness(res, kind, s, 'pyint', 'default', bad + ' (variables bound to Python ints)', expected=plain_expected(exp),
                    canonical=s)
        if exp[0] == 'value':
            res.nontrivial.add(('pyint', s))
        # the same through a grader whose user_constants are ints
        if exp[0] == 'value' and idx % 7 == 0 and exp[1].imag == 0 and 1e-6 < abs(exp[1]) < 1e200 and exp[2] < 100 \
                and all(n in consts for n in names_in(e)):
            n_graded += 1
            g = FormulaGrader(answers=repr(exp[1].real), user_constants=consts, tolerance='0.0001%')
            st, out = core.guarded(g, None, s)
            res.oracle_evals += 1
            if not (st == 'ret' and out.get('ok') is True):
                witness(res, 'int-grader', s, 'pyint', 'default',
                        'FormulaGrader(answers=%r, user_constants=<ints>) on %r (documented value %r) returned %r' %
                        (repr(exp[1].real), s, exp[1].real, out), answer=repr(exp[1].real))
    col.count('int_binding_strings', len(cases))
    col.count('int_binding_graded', n_graded)


def names_in(e):
    if e[0] == 'var':
        return [e[1]]
    out = []
    for c in e[1:]:
        if isinstance(c, tuple):
            out += names_in(c)
        elif isinstance(c, list):
            for x in c:
                out += names_in(x)
    return out


def run_derivations(ctx, res, col, rng, sz):
    styles = ['canon', 'spaces', 'ws', 'emdash', 'parens', 'mixed']
    for i in range(sz['derivations']):
        var_key = rng.choice(['int', 'dec', 'cplx', 'int', 'dec', 'cplx', 'pyint'])
        suf_key = rng.choice(['default', 'metric'])
        depth = rng.choice([1, 2, 2, 3, 3, 4, 5, 6])
        e = gen_expr(rng, depth, var_key, suf_key, arrays=(rng.random() < 0.15))
        exp = expected_of(e, var_key)
        col.count('derivation_expected:' + exp[0])
        if var_key == 'pyint' and exp[0] == 'skip' and exp[1] == 'range':
            continue            # see run_int_bindings: beyond the floating-point range nothing is compared
        canon_val = None
        for style in styles[:sz['renderings']] if sz['renderings'] < 6 else styles:
            if style == 'parens':
                s = ''.join(tokens(add_parens(e, rng)))
            elif style == 'mixed':
                toks = tokens(add_parens(e, rng, 0.15))
                toks = [('—' if (t == '-' and rng.random() < 0.5) else t) for t in toks]
                s = join_tokens(toks, rng, 'ws')
                s = ''.join((' ' + ch if (rng.random() < 0.1) else ch) for ch in s)
            else:
                s = join_tokens(tokens(e), rng, style)
            r = run_impl(s, var_key, suf_key)
            col.add(s, var_key, suf_key, r, stream='derivation:' + style, exp=exp)
            res.oracle_evals += 1
            bad = check_value(r, exp)
            if bad:
                witness(res, 'derivation', s, var_key, suf_key, bad + ' (rendering: %s)' % style,
                        expected=plain_expected(exp), canonical=''.join(tokens(e)))
            # rendering invariance (where the oracle declines to predict the value: same outcome class only)
            if style == 'canon':
                canon_val = r
            elif canon_val is not None:
                a, b = canon_val, r
                same = (a['status'] == b['status'] and a['cls'] == b['cls'])
                if same and a['cls'] == 'value' and exp[0] != 'skip':
                    try:
                        same = close(b['value'], complex(a['value']))
                    except (TypeError, ValueError):
                        same = repr(a['value']) == repr(b['value'])
                if not same:
                    witness(res, 'rendering', s, var_key, suf_key,
                            'rendering %s of %r gives %s %s, the canonical text gives %s %s' %
                            (style, ''.join(tokens(e)), b['cls'], b.get('value', b.get('exc')), a['cls'],
                             a.get('value', a.get('exc'))), canonical=''.join(tokens(e)))
            if exp[0] in ('value', 'array'):
                res.nontrivial.add(('der', s, var_key, suf_key))
    col.count('derivations', sz['derivations'])


def run_invalid(ctx, res, col, rng, sz):
    cases = [(s, 'fixed') for s in INVALID_FIXED]
    for var_key in ('int', 'cplx'):
        cases += gen_invalid(rng, var_key, 'metric', sz['invalid'] // 2)
    for s, kind in cases:
        var_key = 'int'
        r = run_impl(s, var_key, 'metric')
        col.add(s, var_key, 'metric', r, stream='invalid:' + kind)
        res.oracle_evals += 1
        col.count('invalid:' + kind)
        if not is_parse_error(r):
            witness(res, 'invalid', s, var_key, 'metric',
                    'string outside the grammar (%s) was not rejected with a parse error: %s %r' %
                    (kind, r['cls'], r.get('value', r.get('exc'))))
        res.nontrivial.add(('invalid', s))


def run_mutants(ctx, res, col, rng, sz):
    for s in gen_mutants(rng, 'dec', 'metric', sz['mutants']):
        r = run_impl(s, 'dec', 'metric')
        col.add(s, 'dec', 'metric', r, stream='mutant')
        if r['status'] == 'exc' and r['cls'].startswith('ESCAPED'):
            pass        # C02's subject; the correspondence still compares outcome classes
    col.count('mutants', sz['mutants'])


FRONT_DOOR = [None, '', ' ', '   ', '\t', '\n', ' \t\n\r ', '\x0b', '\x0c', '\x1c\x1d\x1e\x1f', '\x85', '\xa0', ' ', '　',
              ' 1+1 ', '\t2*3\n', '\x0c1+1\x0b', '\xa02^3 ', ' 1/4　', '1\xa0+1', '​', '﻿1',
              '[1,2,3]', '[[1,2],[3,4]]', '[[1,2],[3]]', '[1,[2,3]]', '[[[1]]]', '[x,y]', '[1,2]+[3,4]', '2*[1,2]', '([1,2])',
              '[f(1),2]', '[[1,2],[3,4]]*0+1', 'Pi', 'PI', 'E', 'I', 'x', 'xx', 'f(1)', 'ff(1)', 'G(1)', 'SIN(1)', 'Sqrt(4)', 'sqrt(4)',
              '2K', '2k', '2Q', '5%', '5%%', '2e', '1e5e', 'f(1,2)', 'g(1)', 'max(1)', 'sqrt(1,2)', '1/0', '0^-1', '1/(x-x)', '1||-1',
              '0||1', '1e400', '10^400', '2^0.5', '(-8)^(1/3)', 'i^2', 'j*j', 'e^(i*pi)', 'x_{1}', 'a_{1}^{2}', "x''"]


def run_front_door(ctx, res, col, rng):
    I = impl()
    for s in FRONT_DOOR:
        for max_dim in (None, 0, 1, 2):
            if max_dim is not None and not (s and '[' in s):
                continue
            for var_key in ('int',):
                r = run_impl(s, var_key, 'metric', max_dim=max_dim)
                col.add(s, var_key, 'metric', r, max_dim=max_dim, stream='front-door')
                res.oracle_evals += 1
                blank = s is None or s.strip() == ''
                if blank:
                    ok = r['status'] == 'ret' and r['cls'] == 'nan'
                    if not ok:
                        witness(res, 'front-door', s, var_key, 'metric', 'blank input did not evaluate to nan: %s' % r['cls'])
    # case sensitivity of names (the property: names resolve case-sensitively)
    variables, suffixes = scope('int', 'metric')
    for s, want_cls in [('X', 'value'), ('x', 'value'), ('Pi', 'UndefinedVariable'), ('PI', 'UndefinedVariable'),
                        ('Z_1', 'UndefinedVariable'), ('F(1)', 'value'), ('f(1)', 'value'), ('SQRT(4)', 'UndefinedFunction'),
                        ('Max(1,2)', 'UndefinedFunction'), ('2K', 'UndefinedFunction:suffix'), ('2k', 'value'),
                        ('2g', 'UndefinedFunction:suffix'), ('2G', 'value')]:
        r = run_impl(s, 'int', 'metric')
        res.oracle_evals += 1
        if r['cls'] != want_cls:
            witness(res, 'case', s, 'int', 'metric', 'names must resolve case-sensitively: %r gave %s %r, expected %s' %
                    (s, r['cls'], r.get('value', r.get('exc')), want_cls), want_cls=want_cls)
    # str.strip() table of the model == Python's, exhaustively
    ws = [c for c in range(0x110000) if chr(c).isspace()]
    model_ws = list(range(9, 14)) + list(range(28, 33)) + [133, 160, 5760] + list(range(8192, 8203)) + [8232, 8233, 8239, 8287, 12288]
    if ws != model_ws:
        res.disagreements.append({'kind': 'whitespace-table', 'python': ws, 'model': model_ws})


def run_graders(ctx, res, col, rng, sz):
    """FormulaGrader / NumericalGrader verdicts on constant expressions"""
    from mitxgraders import FormulaGrader, NumericalGrader
    n = 0
    tries = 0
    while n < sz['graders'] and tries < sz['graders'] * 20:
        tries += 1
        e = gen_expr(rng, rng.choice([1, 2, 3, 4]), 'int', 'default')
        if uses_names(e):
            continue
        exp = expected_of(e, 'int')
        if exp[0] != 'value' or exp[2] > 100 or abs(exp[1].imag) > 0 or abs(exp[1]) < 1e-6 or abs(exp[1]) > 1e9:
            continue
        n += 1
        want = exp[1].real
        student = join_tokens(tokens(add_parens(e, rng, 0.1)), rng, rng.choice(['canon', 'ws', 'spaces', 'emdash']))
        for cls in (NumericalGrader, FormulaGrader):
            for answer, should in ((repr(want), True), (repr(want * 1.02 + math.copysign(0.01, want)), False)):
                g = cls(answers=answer, tolerance='0.0001%')
                st, r = core.guarded(g, None, student)
                res.oracle_evals += 1
                ok = st == 'ret' and r.get('ok') is should
                if not ok:
                    witness(res, 'grader', student, 'int', 'default',
                            '%s(answers=%r) on the constant expression %r (documented value %r) returned %r, expected ok=%r' %
                            (cls.__name__, answer, student, want, r, should), grader=cls.__name__, answer=answer, should=should)
        res.nontrivial.add(('grader', student))
    col.count('grader_expressions', n)


# =================================================================================================
# perturb-then-probe: the value of a formula depends on the string and the SUPPLIED scope only -- not on which graders
# were configured or called before.  Perturbers use the rare scope-changing options; the probes are then evaluated with
# the library's default scope and with fresh default graders, and compared with the same probes in a fresh interpreter.
# =================================================================================================
PROBES = ['5k', '2m', '1G+1', '3u*2', '4T', '7M', '1n', '2p', '50%', '2%+1', 'pi', 'e', 'i*i', 'j', 'infty', 'x', 'c', 'T', 'k', 'm',
          'a_{1}', "x'", 'E', 'Pi', 'f(1)', 'F(1)', 'g(1,2)', 'sin(0)', 'SIN(0)', 'tan(0)', 'sqrt(4)', 'exp(0)', 'ln(e)',
          'log10(100)', 'kronecker(1,1)', 'max(1,2)', 'abs(-2)', 'arctan2(1,1)', 're(i)', 'conj(i)', 'norm([3,4])',
          'trans([1,2])', 'det([[1,2],[3,4]])', '[1,2]*2', 'cross([1,0,0],[0,1,0])', '2^3^2', '1/0', '1+', '2 3']


def _plain(v):
    I = impl()
    if isinstance(v, I['MathArray']) or isinstance(v, (list, tuple)):
        return [_plain(x) for x in list(v)]
    try:
        c = complex(v)
        return [repr(c.real), repr(c.imag)]
    except (TypeError, ValueError):
        return repr(v)


def _norm(st, r):
    if st == 'ret':
        if isinstance(r, dict):
            return ['result', repr(r.get('ok')), repr(r.get('grade_decimal')), str(r.get('msg'))[:200]]
        if isinstance(r, tuple):
            return ['value', _plain(r[0])]
        return ['value', _plain(r)]
    if st == 'exc':
        return ['exc', type(r).__name__, str(r)[:200]]
    return ['timeout']


def _table(d):
    out = []
    for k in sorted(d):
        v = d[k]
        out.append([k, getattr(v, '__name__', None) or repr(v)] if callable(v) else [k, repr(v)])
    return out


def probe_outcomes(probes=None):
    """evaluator(p) with the library's own default scope, fresh default graders on p, and the default tables themselves"""
    import mitxgraders
    from mitxgraders.helpers.calc import mathfuncs as mf
    from mitxgraders.helpers.calc.expressions import evaluator
    from mitxgraders.helpers import math_helpers
    out = {}
    for p in (PROBES if probes is None else probes):
        out['evaluator(%r)' % p] = _norm(*core.guarded(evaluator, p))
        for name in ('FormulaGrader', 'NumericalGrader', 'MatrixGrader'):
            cls = getattr(mitxgraders, name)
            st, g = core.guarded(cls, answers='1')
            out['%s(answers=\'1\')(None, %r)' % (name, p)] = _norm(*core.guarded(g, None, p)) if st == 'ret' else _norm(st, g)
    if probes is None:
        out['DEFAULT_VARIABLES'] = _table(mf.DEFAULT_VARIABLES)
        out['DEFAULT_FUNCTIONS'] = _table(mf.DEFAULT_FUNCTIONS)
        out['DEFAULT_SUFFIXES'] = _table(mf.DEFAULT_SUFFIXES)
        out['METRIC_SUFFIXES'] = _table(mf.METRIC_SUFFIXES)
        for name in ('FormulaGrader', 'NumericalGrader', 'MatrixGrader', 'SumGrader'):
            cls = getattr(mitxgraders, name, None)
            if cls is not None:
                out[name + '.default_variables'] = _table(cls.default_variables)
                out[name + '.default_functions'] = _table(cls.default_functions)
                out[name + '.default_suffixes'] = _table(cls.default_suffixes)
        out['MathMixin.default_suffixes'] = _table(math_helpers.MathMixin.default_suffixes)
        import numpy as _np
        out['numpy.geterr()'] = [list(kv) for kv in sorted(_np.geterr().items())]
        out['numpy.geterrcall()'] = getattr(_np.geterrcall(), '__name__', repr(_np.geterrcall()))
    return out


def fresh_probe_outcomes(probes=None):
    """the same in a fresh interpreter (nothing configured or called before)"""
    import json as _json
    import os as _os
    import subprocess as _sp
    import sys as _sys
    code = ('import sys, json\nfrom harness.props import c03\n'
            'print("@@" + json.dumps(c03.probe_outcomes(%r)))' % (probes,))
    env = dict(_os.environ)
    env['PYTHONPATH'] = core.REPO + _os.pathsep + core.VERIF
    p = _sp.run([_sys.executable, '-B', '-c', code], cwd=core.VERIF, env=env, stdout=_sp.PIPE, stderr=_sp.PIPE, text=True,
                timeout=600)
    for line in p.stdout.splitlines():
        if line.startswith('@@'):
            return _json.loads(line[2:])
    raise RuntimeError('fresh interpreter failed: %s' % p.stderr[-500:])


def perturbers():
    """(grader class name, configuration, inputs): graders using the scope-changing options, called on valid and invalid input"""
    sq = lambda x: x * x          # noqa
    return [
        ('FormulaGrader', dict(answers='2000', metric_suffixes=True), ['2k', '2000', '2m*1M', 'q', '1+']),
        ('NumericalGrader', dict(answers='0.002', metric_suffixes=True), ['2m', '2e-3', '5%']),
        ('MatrixGrader', dict(answers='[1,2]', metric_suffixes=True, max_array_dim=1), ['[1,2]', '[1k,2]/1k']),
        ('FormulaGrader', dict(answers='k*m', variables=['k', 'm'], metric_suffixes=True), ['k*m', 'm*k', '1k']),
        ('FormulaGrader', dict(answers='c*T', user_constants={'c': 3e8, 'T': 2, 'k': 5}), ['c*T', '6e8', 'c*k']),
        ('FormulaGrader', dict(answers='c*c*c', user_constants={'c': 299792458, 'x': 2}), ['c*c*c', 'c^3', 'x^c']),
        ('FormulaGrader', dict(answers='1', user_constants={'pi': None, 'e': None}), ['1', 'pi', 'e']),
        ('FormulaGrader', dict(answers='f(2)', user_functions={'f': sq, 'F': sq, 'g': lambda a, b: a - b}), ['f(2)', '4', 'g(5,1)']),
        ('FormulaGrader', dict(answers='sin(2)', user_functions={'sin': sq}, suppress_warnings=True), ['sin(2)', '4']),
        ('FormulaGrader', dict(answers='sin(1)', whitelist=['sin', 'cos']), ['sin(1)', 'tan(1)', 'cos(1)']),
        ('FormulaGrader', dict(answers='sin(1)', blacklist=['tan', 'sqrt']), ['sin(1)', 'tan(1)', 'sqrt(1)']),
        ('FormulaGrader', dict(answers='1', whitelist=[None]), ['1', 'sin(0)+1']),
        ('FormulaGrader', dict(answers='a_{1}+a_{2}', numbered_vars=['a']), ['a_{1}+a_{2}', 'a_{2}+a_{1}', 'a_{3}']),
        ('FormulaGrader', dict(answers='x+m', variables=['x', 'm', 'T']), ['x+m', 'm+x', 'x+T']),
        ('FormulaGrader', dict(answers='infty', allow_inf=True), ['infty', '1']),
        ('MatrixGrader', dict(answers='A*B', variables=['A', 'B'], identity_dim=2), ['A*B', 'B*A']),
        ('NumericalGrader', dict(answers='1', user_constants={'x': 1, "x'": 2}), ['x', "x'-1"]),
        ('SumGrader', dict(answers={'lower': '1', 'upper': '3', 'summand': 'n', 'summation_variable': 'n'},
                           input_positions={'summand': 1}, metric_suffixes=True), ['n', '1k*n/1k']),
    ]


def run_perturbers():
    import mitxgraders
    n = 0
    for name, cfg, inputs in perturbers():
        cls = getattr(mitxgraders, name, None)
        if cls is None:
            continue
        st, g = core.guarded(cls, **cfg)
        if st != 'ret':
            continue
        for inp in inputs:
            core.guarded(g, None, inp)
            n += 1
    return n


def compare_probes(res, here, fresh):
    import json as _json
    here = _json.loads(_json.dumps(here))          # same representation as what came back from the fresh interpreter
    n = 0
    for key in sorted(set(here) | set(fresh), key=lambda k: (not k.startswith('evaluator'), k)):
        a, b = here.get(key), fresh.get(key)
        n += 1
        same = a == b
        if not same and a and b and a[0] == b[0] == 'value':
            try:
                flat = lambda v: [complex(float(x[0]), float(x[1])) for x in ([v] if isinstance(v[0], str) else v)]     # noqa
                same = all(abs(p - q) <= 1e-9 * max(abs(p), abs(q)) for p, q in zip(flat(a[1]), flat(b[1])))
            except Exception:       # noqa
                same = False
        if not same:
            witness(res, 'history', key, 'default', 'default',
                    'after graders with scope-changing options were configured and called, %s gives %r; in a fresh interpreter '
                    'it gives %r (the value must depend on the string and the supplied scope only)' % (key, a, b), probe=key)
    return n


def run_history(ctx, res, col):
    here = probe_outcomes()
    fresh = fresh_probe_outcomes()
    n = compare_probes(res, here, fresh)
    # process state the library documents (expressions.py: divide / overflow / invalid are trapped, underflow is not)
    documented = [['divide', 'call'], ['invalid', 'call'], ['over', 'call'], ['under', 'ignore']]
    for where, got in (('after the run', here), ('in a fresh interpreter', fresh)):
        if [list(x) for x in got.get('numpy.geterr()', [])] != documented:
            witness(res, 'state', 'numpy.geterr()', 'default', 'default',
                    'numpy floating-point error handling %s is %r, the library documents %r (silent underflow); '
                    'formulas whose intermediates underflow would be rejected' % (where, got.get('numpy.geterr()'), documented),
                    probe='numpy.geterr()')
            break
    res.oracle_evals += n
    col.count('history_probes', n)
    res.nontrivial.add(('history-probes', n))


def uses_names(e):
    if e[0] == 'var':
        return True
    if e[0] == 'app':
        return e[1] in USER_FUNCS or any(uses_names(a) for a in e[2])
    for c in e[1:]:
        if isinstance(c, tuple) and uses_names(c):
            return True
        if isinstance(c, list) and any(uses_names(x) for x in c):
            return True
    return False


def run(ctx):
    res = core.Result()
    rng = random.Random(1000003 * ctx['seed'] + 3)
    sz = sizes(ctx)
    col = Collector(res)
    res.rule = ('one case = one formula string with its scope; sequences: every connector sequence of length <= 3 over 12 connectors '
                '(+ - * / ^ || and their unary-minus variants) with and without a leading minus, every length-4 sequence over the 6 '
                'plain operators, a sample (thorough: all) of the 12^4 others, over leaf sets chosen so that groupings differ; '
                'derivations: random grammar derivations to depth 6 x renderings; invalid strings by construction; non-trivial = '
                'distinct strings whose documented value the oracle predicts (or which must be rejected)')
    col.count('perturbing_grader_calls', run_perturbers())
    run_literals(ctx, res, col, rng)
    run_int_bindings(ctx, res, col, rng, sz)
    run_extreme(ctx, res, col, rng, sz)
    run_sequences(ctx, res, col, rng, sz)
    run_derivations(ctx, res, col, rng, sz)
    run_invalid(ctx, res, col, rng, sz)
    run_mutants(ctx, res, col, rng, sz)
    run_front_door(ctx, res, col, rng)
    run_graders(ctx, res, col, rng, sz)
    run_perturbers()
    run_history(ctx, res, col)
    shard = max(100, (len(col.terms) + 31) // 32)
    codes, errors = eval_cases('c03', col.terms, shard)
    res.programs = len(col.terms)
    res.corr_errors += errors
    declined = 0
    for i, code in sorted(codes.items()):
        if code == 3:
            declined += 1
            continue
        m = dict(col.metas[i])
        m['what'] = 'trees / name sets differ' if code == 1 else 'outcomes differ'
        res.disagreements.append(m)
    col.dist['model_declines_value(outside exact-rational domain)'] = declined
    res.boundary = declined + sum(v for k, v in col.dist.items() if k.startswith('value_guarded:'))
    res.distribution = col.dist
    pick = [m for m in col.metas if m['stream'].startswith('derivation')][:3] + \
           [m for m in col.metas if m['stream'] == 'sequence'][100:102] + \
           [m for m in col.metas if m['stream'].startswith('invalid')][:2]
    res.samples = pick
    res.exhaustive = True
    return res


def replay(w):
    kind = w.get('kind')
    s, var_key, suf_key = w.get('formula'), w.get('vars', 'int'), w.get('suffixes', 'default')
    if kind == 'grader':
        import mitxgraders
        cls = getattr(mitxgraders, w['grader'])
        st, r = core.guarded(cls(answers=w['answer'], tolerance='0.0001%'), None, s)
        bad = not (st == 'ret' and r.get('ok') is w['should'])
        return bad, '%s(answers=%r)(None, %r) -> %r (expected ok=%r)' % (w['grader'], w['answer'], s, r, w['should'])
    if kind == 'state':
        got = [list(x) for x in probe_outcomes().get('numpy.geterr()', [])]
        want = [['divide', 'call'], ['invalid', 'call'], ['over', 'call'], ['under', 'ignore']]
        return got != want, 'numpy.geterr() after importing the library: %r (documented: %r)' % (got, want)
    if kind == 'extreme':
        r = run_impl(s, 'extreme', 'default')
        want = eval(w['expected']['value'], {'__builtins__': {}}, {})         # repr of a float / complex / list of them
        ok = r['status'] == 'ret' and r['cls'] == 'value' and value_close(r['value'], want)
        return (not ok), 'evaluator(%r) [extreme bindings] -> %s %r; plain floating point gives %r' % (
            s, r['cls'], r.get('value', r.get('exc')), want)
    if kind == 'history':
        run_perturbers()
        res = core.Result()
        here, fresh = probe_outcomes(), fresh_probe_outcomes()
        compare_probes(res, here, fresh)
        hit = [x for x in res.witnesses if x.get('probe') == w.get('probe')]
        return bool(hit), (hit[0]['what'] if hit else '%s: same outcome as in a fresh interpreter (%r)' %
                           (w.get('probe'), here.get(w.get('probe'))))
    if kind == 'int-grader':
        from mitxgraders import FormulaGrader
        consts = dict((n, int(v[0])) for n, v in VAR_TABLES['pyint'].items() if n.isalnum())
        st, out = core.guarded(FormulaGrader(answers=w['answer'], user_constants=consts, tolerance='0.0001%'), None, s)
        return not (st == 'ret' and out.get('ok') is True), 'FormulaGrader(answers=%r, user_constants=<ints>)(None, %r) -> %r' % (
            w['answer'], s, out)
    r = run_impl(s, var_key, suf_key)
    got = '%s %r' % (r['cls'], r.get('value', r.get('exc')))
    if kind == 'invalid':
        return (not is_parse_error(r)), 'evaluator(%r) -> %s; a parse error is required' % (s, got)
    if kind == 'front-door':
        return r['cls'] != 'nan', 'evaluator(%r) -> %s; nan is required' % (s, got)
    if kind in ('sequence', 'derivation', 'rendering', 'case'):
        canon = w.get('canonical')
        text = 'evaluator(%r) [vars=%s, suffixes=%s] -> %s; %s' % (s, var_key, suf_key, got, w.get('what'))
        if kind == 'rendering' and canon is not None:
            a = run_impl(canon, var_key, suf_key)
            try:
                same = a['cls'] == r['cls'] and (a['cls'] != 'value' or close(r['value'], complex(a['value'])))
            except (TypeError, ValueError):
                same = a['cls'] == r['cls'] and repr(a.get('value')) == repr(r.get('value'))
            return (not same), text + '; canonical %r -> %s %r' % (canon, a['cls'], a.get('value', a.get('exc')))
        if kind == 'case':
            return r['cls'] != w.get('want_cls'), text
        pe = w.get('expected')
        if isinstance(pe, dict):
            return (not matches_expected(r, pe)), text
        return (r['status'] == 'ret' and r['cls'] == 'value'), text
    return False, 'unknown witness kind %r' % kind


LEVEL_TEXT = ('Theorems about the executable lexer/parser/evaluator model, for formulas of any size and nesting. String level: for every '
              'derivation of the documented grammar (numbers in every literal format with or without suffix, plain/subscripted/'
              'tensor-indexed/primed names, functions, arrays, + - * / ^ ||, unary minus, parentheses) and every rendering of it '
              '(only the parentheses the documented precedence requires plus redundant ones, TAB/LF/CR runs between tokens, spaces '
              'anywhere) the front door returns exactly the documented value: ^ tightest and right-associative with optional '
              'exponent sign, then unary minus, ||, * /, + - (left-associative). The accepted token lists are exactly the prints of '
              'well-formed trees, so doubled operators, juxtaposition, empty brackets/argument slots, leading/trailing operators '
              'and foreign characters are rejected for inputs of any length; blank input is nan; names resolve exactly. The model is '
              'tied to MathParser / evaluator() by differential correspondence (ParseResults shape, name sets, outcome classes, '
              'values) on every run and to the grammar/suffix tables of the source by a regenerated Gallina term.')
LEVEL_NOTE = ('Exact Gaussian-rational arithmetic with integer exponents; floating-point rounding, non-integer powers, function bodies '
              'and array arithmetic are oracles / outside the model (guard-banded and counted). pyparsing is replaced by a '
              'lexer + precedence parser validated against the real parser on every run; no axioms.')
TECHNIQUE = 'Coq proof (parser round-trip by induction over trees and bracket depth, flat-fold vs recursive semantics) + vm_compute correspondence on trees and values'
DESIGN_REF = 'DESIGN.md section 3, C03 and Appendix A'
