"""c20_behaviour.py -- helpers shared by the C20 oracles:
  * struct_copy / canon: structural copies and process-independent canonical forms of configurations and results,
  * behaviour(obj, cfg): what a constructed object DOES on a few inputs derived from its own configuration (graders are
    called, sampling sets sampled, credit schedules evaluated) with the random generators re-seeded before every call,
  * reuse histories: the SAME caller-owned containers handed to several constructors,
  * the fresh-interpreter probe (python -m harness.props.c20_behaviour <seed>): fingerprints of a fixed probe set,
    computed in a new process, against which the fingerprints taken after the whole sweep are compared."""
import json
import random
import re
import sys

from harness import core


def struct_copy(v):
    """copy of every list / tuple / dict, other objects by reference (what a caller owns is its containers)"""
    if type(v) is list:
        return [struct_copy(x) for x in v]
    if type(v) is tuple:
        return tuple(struct_copy(x) for x in v)
    if type(v) is dict:
        return {k: struct_copy(x) for k, x in v.items()}
    return v


def same(a, b):
    try:
        r = a == b
        if isinstance(r, bool):
            return r
        import numpy as np
        return bool(np.all(r))
    except Exception:       # noqa
        return False


def canon(v, depth=0):
    """canonical, process-independent text form"""
    from mitxgraders.baseclasses import ObjectWithSchema
    if depth > 14:
        return '<deep>'
    if v is None or isinstance(v, (bool, int, str)):
        return repr(v)
    if isinstance(v, float):
        return repr(v)
    if isinstance(v, complex):
        return repr(v)
    if type(v) is list:
        return '[' + ', '.join(canon(x, depth + 1) for x in v) + ']'
    if type(v) is tuple:
        return '(' + ', '.join(canon(x, depth + 1) for x in v) + ',)'
    if type(v) is dict:
        return '{' + ', '.join(sorted('%s: %s' % (canon(k, depth + 1), canon(x, depth + 1)) for k, x in v.items())) + '}'
    if isinstance(v, ObjectWithSchema):
        return '%s(%s)' % (type(v).__name__, canon(getattr(v, 'config', '<no config>'), depth + 1))
    try:
        import numpy as np
        if isinstance(v, np.ndarray):
            return 'array(%s)' % canon(np.round(v, 9).tolist(), depth + 1)
        if isinstance(v, np.generic):
            return canon(v.item(), depth + 1)
    except Exception:       # noqa
        pass
    if callable(v):
        return '<callable %s>' % getattr(v, '__name__', type(v).__name__)
    return '<%s>' % type(v).__name__


def outcome(st, val):
    if st == 'ret':
        return 'ret:' + canon(val)
    if st == 'timeout':
        return 'timeout'
    return 'exc:%s:%s' % (type(val).__name__, re.sub(r' at 0x[0-9a-f]+', '', str(val))[:120])


# ------------------------------------------------------------------------------------------------
# behaviour
# ------------------------------------------------------------------------------------------------
def _strings(v, out):
    if isinstance(v, str):
        out.append(v)
    elif isinstance(v, (list, tuple)):
        for x in v:
            _strings(x, out)
    elif isinstance(v, dict):
        for k in ('expect', 'comparer_params', 'lower', 'upper', 'integrand', 'summand'):
            if k in v:
                _strings(v[k], out)


def reseed():
    import random
    import numpy as np
    random.seed(20)
    np.random.seed(20)


def behaviour(obj, cfg):
    """list of (what, outcome text) -- deterministic for a given object"""
    import mitxgraders as M
    from mitxgraders.baseclasses import AbstractGrader
    from mitxgraders.sampling import AbstractSamplingSet
    out = []
    if isinstance(obj, AbstractGrader):
        strs = []
        _strings(obj.config.get('answers'), strs)
        strs = [s for s in strs if s.strip()][:2] or ['cat']
        kw = {'attempt': 2} if obj.config.get('attempt_based_credit') else {}
        if isinstance(obj, M.ListGrader):
            a = obj.config.get('answers') or ()
            n = len(a[0]) if a else 2
            inputs = [[strs[i % len(strs)] for i in range(n)], ['zzz'] * n]
            if obj.config.get('grouping'):
                n = len(obj.config['grouping'])
                inputs = [[strs[i % len(strs)] for i in range(n)]]
        elif isinstance(obj, (M.IntegralGrader, M.SumGrader)):
            a = obj.config.get('answers') or {}
            pos = obj.config.get('input_positions') or {}
            order = sorted((p, k) for k, p in pos.items() if p is not None)
            inputs = [[a.get(k, '1') for _, k in order]] if not isinstance(obj, M.IntegralGrader) else []
        elif isinstance(obj, M.SingleListGrader) and not isinstance(obj, M.IntervalGrader):
            d = obj.config.get('delimiter', ',')
            inputs = [d.join(strs), 'zzz']
        else:
            inputs = [strs[0], 'zzz', '[1,3]'] if isinstance(obj, M.MatrixGrader) else [strs[0], 'zzz']
        for inp in inputs:
            reseed()
            st, r = core.guarded(obj, None, inp, **kw)
            out.append((repr(inp), outcome(st, r)))
    elif isinstance(obj, AbstractSamplingSet):
        if not isinstance(obj, (M.DependentSampler, M.OrthogonalMatrices, M.UnitaryMatrices)):
            reseed()
            st, r = core.guarded(obj.gen_sample)
            if st == 'ret' and callable(r):       # function sampling sets: evaluate the sampled function
                n = obj.config.get('input_dim', 1) if isinstance(obj.config, dict) else 1
                st, r = core.guarded(r, *([0.5] * n))
            out.append(('gen_sample', outcome(st, r)))
    elif type(obj).__name__ in ('LinearCredit', 'GeometricCredit', 'ReciprocalCredit'):
        for n in (1, 2, 3, 6):
            st, r = core.guarded(obj, n)
            out.append(('attempt %d' % n, outcome(st, r)))
    return out


# ------------------------------------------------------------------------------------------------
# reuse histories: the same caller-owned containers handed to several constructors
# ------------------------------------------------------------------------------------------------
def is_container(v):
    return type(v) in (list, dict) or (type(v) is tuple and any(type(x) in (list, dict, tuple) for x in v))


def shareable_values(T):
    out = []      # (class name, option, index in good pool)
    for cname, table in sorted(T.items()):
        for opt, o in sorted(table.options.items()):
            for i, v in enumerate(o.dom.good):
                if is_container(v) and v not in ([], {}, ()):
                    out.append((cname, opt, i))
    return out


def run_reuse_history(seed, h, T, res=None):
    """One history: ONE container object (an option value) and the configuration dictionaries are shared between several
    constructions of the same class with different other options, and of other classes whose pool for that option
    contains an equal value.  After every construction: the caller's containers are unchanged, the construction equals
    one made from a structural copy of the pristine configuration, and every object built earlier still equals its
    reference."""
    rng = random.Random(9973 * seed + 31 * h + 5)
    wits = []
    cname, opt, i = rng.choice(shareable_values(T))
    pristine = struct_copy(T[cname].options[opt].dom.good[i])
    shared = struct_copy(pristine)
    hosts = [c for c, t in sorted(T.items()) if opt in t.options and any(same(g, pristine) and type(g) is type(pristine)
                                                                        for g in t.options[opt].dom.good)]
    steps, built = [], []
    for s in range(rng.randint(2, 4)):
        c = cname if s == 0 or rng.random() < 0.5 else rng.choice(hosts)
        table = T[c]
        cfg = dict(table.base)
        others = [k for k in sorted(table.options) if k != opt and table.options[k].dom.good]
        for k in rng.sample(others, min(len(others), rng.randint(0, 2))):
            cfg[k] = rng.choice(table.options[k].dom.good)
        cfg[opt] = shared
        form = rng.choice(['kw', 'dict', 'dict-reused'])
        steps.append((c, sorted(k for k in cfg if k != opt), form))
        ref_cfg = struct_copy(dict(cfg, **{opt: struct_copy(pristine)}))
        before = struct_copy(cfg)
        cls = table.cls
        if form == 'kw':
            st, obj = core.guarded(lambda: cls(**cfg))
        else:
            st, obj = core.guarded(cls, cfg)
            if form == 'dict-reused' and st == 'ret':
                st, obj = core.guarded(cls, cfg)       # the same dictionary object a second time
        rst, robj = core.guarded(lambda: cls(**ref_cfg))
        if res is not None:
            res.oracle_evals += 1
        ident = ['reuse', seed, h]
        n0 = len(wits)

        def witness(what):
            wits.append({'key': 'reuse:%d:%d:%d' % (seed, h, s), 'kind': 'caller-container-reuse', 'case': ident, 'step': s,
                         'class': c, 'options': [opt], 'shared_option': opt, 'shared_value': canon(pristine)[:200],
                         'steps': [list(map(str, x)) for x in steps], 'what': what})
        if canon(cfg) != canon(before):
            witness("%s (%s form): the caller's containers were modified by the construction: %s is now %s"
                    % (c, form, opt, canon(cfg.get(opt))[:200]))
        elif canon(shared) != canon(pristine):
            witness('the shared %s value %s has become %s' % (opt, canon(pristine)[:120], canon(shared)[:200]))
        if rst != st or (st == 'exc' and type(obj) is not type(robj)):
            witness('%s with the shared %s: %s, but from a fresh copy of the same configuration: %s'
                    % (c, opt, outcome(st, obj)[:150], outcome(rst, robj)[:150]))
        elif st == 'ret' and canon(obj.config) != canon(robj.config):
            witness('%s with the shared %s exposes a configuration different from the one built from a fresh copy: %s vs %s'
                    % (c, opt, canon(obj.config)[:160], canon(robj.config)[:160]))
        if st == 'ret':
            built.append((obj, canon(robj.config) if rst == 'ret' else None))
        for j, (o, refc) in enumerate(built[:-1]):
            if refc is not None and canon(o.config) != refc:
                witness('the object built in step %d was altered by a later construction' % j)
        if len(wits) > n0:
            break
    return wits


def reuse_histories(ctx, T, res):
    n_hist = 60 if ctx['tier'] == 'quick' else 400
    for h in range(n_hist):
        res.witnesses += run_reuse_history(ctx['seed'], h, T, res)
        res.nontrivial.add(('reuse', ctx['seed'], h))
    res.distribution['container_reuse_histories'] = n_hist


# ------------------------------------------------------------------------------------------------
# fresh-interpreter probe
# ------------------------------------------------------------------------------------------------
def probe_cases(tables):
    """fixed probe set: the default construction and the first in-domain value of every option of every class"""
    out = []
    for cname, table in sorted(tables.items()):
        out.append(('kw', cname, ()))
        for opt, o in sorted(table.options.items()):
            if o.dom.good:
                out.append(('kw', cname, ((opt, 'good', 0),)))
            if o.dom.bad:
                out.append(('kw', cname, ((opt, 'bad', 0),)))
    return out


def fingerprint(case, resolve):
    cls, pos, cfg, expect, table = resolve(case)
    st, obj = core.guarded(lambda: cls(**cfg))
    fp = {'construct': outcome(st, getattr(obj, 'config', None)) if st == 'ret' else outcome(st, obj)}
    if st == 'ret':
        fp['behaviour'] = behaviour(obj, cfg)
    return fp


def fingerprints():
    from harness.props import c20
    T, _ = c20.tables()
    return {repr(c): fingerprint(c, c20.resolve) for c in probe_cases(T)}


if __name__ == '__main__':
    json.dump(fingerprints(), sys.stdout)
