"""C09 -- restrictions on student formulas cannot be bypassed to obtain credit.

Tie (A): coq/Gen/Restrict.v is regenerated from math_helpers.py / formulagrader.py / integralgrader.py on every run and
         bridged to Model/Restrict.v by reflexivity (permitted set, three validators, gate, loop order, var_blacklist, regex).
Tie (B): every generated case (honest answers, harmless controls, cheating formulas; Formula / Numerical / Matrix / Sum graders
         and ordered lists with sibling references) is run on the implementation with its oracles recorded (keys of the
         sampled scope, raw verdict of raw_check, permitted set, number of summed terms); the same configuration, strings
         and oracle answers are written as Coq terms and Model/Restrict.v's own formula_check / ordered_list_check /
         sum_check are evaluated on them inside Coq (with the evaluation that stops after the scope check); Coq decides
         agreement of permitted set, sampled names and outcome class (including which validator fired and with which names).
Oracle : independent of the model.  A cheating formula is built as  honest (+) neutral term using a restricted construct;
         if the honest formula earns credit (and the twin with a harmless construct in the same place does too), the
         cheating formula must raise InvalidInput / UndefinedVariable / UndefinedFunction (undefined names: the latter two)
         and may never return a result.  Conversely an honest formula must not be refused because the AUTHOR's answer
         uses restricted constructs.
"""
import multiprocessing
import random

from harness import core
from translate import restrict as tr_restrict

ID = 'C09'
PROPS = 'Props/C09.v'
TRANSLATORS = [('Gen/Restrict.v', tr_restrict.generate)]
_MH = 'mitxgraders/helpers/math_helpers.py'
_FG = 'mitxgraders/formulagrader/formulagrader.py'
_IG = 'mitxgraders/formulagrader/integralgrader.py'
MIRRORED = [(_MH, 'MathMixin.generate_variable_list'), (_MH, 'MathMixin.gen_var_and_func_samples'),
            (_MH, 'MathMixin.check_math_response'), (_MH, 'MathMixin.validate_math_config'),
            (_FG, 'FormulaGrader.raw_check'), (_FG, 'FormulaGrader.gen_evaluations'), (_FG, 'FormulaGrader.get_sibling_formulas'),
            (_FG, 'FormulaGrader.sibling_varname'),
            (_IG, 'SummationGraderBase.check'), (_IG, 'SummationGraderBase.raw_check'),
            (_IG, 'SummationGraderBase.get_limits_and_funcs'), (_IG, 'SummationGraderBase.structure_and_validate_input'),
            (_IG, 'SummationGraderBase.validate_user_dummy_variable'), (_IG, 'SumGrader.gen_evaluations'),
            (_IG, 'SumGrader.evaluate_sum'), (_IG, 'transform_list_to_dict'),
            ('mitxgraders/listgrader.py', 'ListGrader.get_ordered_input_list'),
            ('mitxgraders/sampling.py', 'gen_symbols_samples'), ('mitxgraders/sampling.py', 'DependentSampler'),
            ('mitxgraders/helpers/calc/expressions.py', 'MathExpression.check_scope'),
            ('mitxgraders/helpers/calc/expressions.py', 'MathExpression.eval'),
            ('mitxgraders/helpers/calc/expressions.py', 'evaluator')]
REFUTED = ['C09_ordered_list_config_error_refuted', 'C09_sum_author_fields_refuted']
TRUSTED = [
    'translator translate/restrict.py (typed, white-listed Python subset -> Gallina over lists of names; fail-closed)',
    'correspondence harness harness/props/c09.py: run-time wrappers around MathMixin.gen_var_and_func_samples, '
    'FormulaGrader.raw_check, SummationGraderBase.raw_check, SumGrader.evaluate_sum / perform_summation record the oracle answers',
    'modelled, not verified: Python sets/dicts as lists read through membership, `in` on strings as substring search, sorted() as '
    'code-point order, Python re (the language of the numbered-variable regex is written by hand in Coq, the regex text is '
    'regenerated and compared), pyparsing (the C03 lexer/parser model, tied by C03 and again here on every formula)',
    'numeric evaluation, the comparer and tolerance are oracles of the model (universally quantified in the theorems; the '
    'raw verdict observed on the implementation in the correspondence)',
]
ASSUMPTIONS = ['samples >= 1 (schema: Positive(int)), so the student input is evaluated at least once',
               'functions / suffixes available during evaluation are exactly the default and user functions / the configured '
               'suffix table (env_for)',
               'whitelist and blacklist are not both non-empty (validate_blacklist_whitelist_config rejects the grader)',
               'IntegralGrader needs scipy, which is absent: its loop order and var_blacklist are covered by tie A only']

# the defects that remain known (ids of /verif/known_findings.json).  Two former findings were repaired in /repo
# (390fac8: SumGrader checks the summand's names over an empty range; ff844fe: check_scope formats its message before
# appending suggestions) and left this mechanism: their witnesses stay in the corpus as ordinary cases that must pass.
K_SIBLING = 'sibling-input-error-raised-as-ConfigError'
K_AUTHOR = 'summation-author-fields-validated-as-student-input'

FORBIDDEN_MESSAGE = 'FORBIDDEN-C09'
RESTRICTABLE = ['sin', 'cos', 'tan', 'sqrt', 'abs', 'arctan', 'sinh', 'ln']
ALWAYS = ['exp', 'cosh']


# =================================================================================================
# the implementation
# =================================================================================================
def _uf(x):
    return x


def _ug(x, y):
    return x + y


USER_FUNCS = {'uf': _uf, 'ug': _ug, 'ufx': _uf, 'ug2': _uf}
_IMPL = {}


def impl():
    if not _IMPL:
        import mitxgraders
        from mitxgraders import exceptions as ex
        from mitxgraders.helpers.calc import exceptions as cx
        from mitxgraders.helpers import math_helpers as mh
        from mitxgraders.formulagrader import formulagrader as fg, integralgrader as ig
        _IMPL.update(mg=mitxgraders, ex=ex, cx=cx, mh=mh, fg=fg, ig=ig)
    return _IMPL


def fresh_modules():
    """forget every module of the library (and its vendored voluptuous): the next impl() imports pristine copies, so
    parser caches, class attributes and module globals start from scratch -- the baseline of the history probes"""
    import sys
    for name in list(sys.modules):
        if name.split('.')[0] in ('mitxgraders', 'voluptuous'):
            del sys.modules[name]
    _IMPL.clear()


def build_grader(spec):
    I = impl()
    mg = I['mg']
    cfg = dict(spec['cfg'])
    cls = spec['cls']

    def kwargs_of(c):
        k = dict(c)
        k['user_functions'] = {n: USER_FUNCS[n] for n in c.get('user_functions', [])}
        if 'sample_from' in k:           # ('dependent', depends, formula) stands for a DependentSampler
            k['sample_from'] = {n: (mg.DependentSampler(depends=list(v[1]), formula=v[2])
                                    if isinstance(v, tuple) and v and v[0] == 'dependent' else v)
                                for n, v in k['sample_from'].items()}
        return k
    list_debug = cfg.pop('_list_debug', False)
    sub_cls = cfg.pop('_sub', 'Formula')
    if cls == 'List':
        sub = {'Formula': mg.FormulaGrader, 'Numerical': mg.NumericalGrader, 'Matrix': mg.MatrixGrader}[sub_cls](**kwargs_of(cfg))
        return mg.ListGrader(answers=list(spec['answers']), subgraders=sub, ordered=True, debug=list_debug), sub
    klass = {'Formula': mg.FormulaGrader, 'Numerical': mg.NumericalGrader, 'Matrix': mg.MatrixGrader, 'Sum': mg.SumGrader}[cls]
    g = klass(answers=spec['answers'], **kwargs_of(cfg))
    return g, g


class Wrappers:
    """record, at run time, the oracles the model abstracts; nothing in /repo is touched"""

    def __init__(self, rec):
        self.rec = rec
        self.saved = []

    def patch(self, owner, name, new):
        self.saved.append((owner, name, owner.__dict__[name]))
        setattr(owner, name, new)

    def __enter__(self):
        I = impl()
        rec = self.rec
        mh, fg, ig, ex = I['mh'], I['fg'], I['ig'], I['ex']
        o_samples = mh.MathMixin.__dict__['gen_var_and_func_samples']

        def samples_w(self_, *a):
            slot = {'names': None}
            rec['samples'].append(slot)
            r = o_samples(self_, *a)
            slot['names'] = sorted(r[0][0].keys())
            return r
        self.patch(mh.MathMixin, 'gen_var_and_func_samples', samples_w)

        def raw_wrapper(orig):
            def raw_w(self_, answer, student_input, **kw):
                slot = {'ok': None, 'exc': None}
                rec['raw'].append(slot)
                try:
                    r = orig(self_, answer, student_input, **kw)
                except BaseException as e:
                    slot['exc'] = type(e).__name__
                    raise
                slot['ok'] = r[0]['ok']
                return r
            return raw_w
        self.patch(fg.FormulaGrader, 'raw_check', raw_wrapper(fg.FormulaGrader.__dict__['raw_check']))
        self.patch(ig.SummationGraderBase, 'raw_check', raw_wrapper(ig.SummationGraderBase.__dict__['raw_check']))

        o_eval_sum = ig.SumGrader.__dict__['evaluate_sum']
        o_perform = ig.SumGrader.__dict__['perform_summation'].__func__

        def eval_sum_w(self_, summand_str, lower_str, upper_str, *a, **kw):
            slot = {'lower': lower_str, 'upper': upper_str, 'range': 'unreached'}
            rec['sums'].append(slot)
            rec['_cur'] = slot
            try:
                return o_eval_sum(self_, summand_str, lower_str, upper_str, *a, **kw)
            except ig.SummationError as e:
                if slot['range'] == 'unreached' and 'conflicts with another' not in str(e):
                    slot['range'] = None          # the limits were refused
                raise

        def perform_w(eval_summand, *a, **kw):
            slot = rec['_cur']
            cnt = [0]

            def counting(x):
                cnt[0] += 1
                return eval_summand(x)
            try:
                r = o_perform(counting, *a, **kw)
            except ig.SummationError:
                slot['range'] = None if cnt[0] == 0 else cnt[0]
                raise
            except BaseException:
                slot['range'] = cnt[0]
                raise
            slot['range'] = cnt[0]
            return r
        self.patch(ig.SumGrader, 'evaluate_sum', eval_sum_w)
        self.patch(ig.SumGrader, 'perform_summation', staticmethod(perform_w))
        return self

    def __exit__(self, *a):
        for owner, name, old in reversed(self.saved):
            setattr(owner, name, old)


def split_quoted(text):
    """"'a', 'b''" -> ['a', "b'"]"""
    text = text.strip()
    if not (text.startswith("'") and text.endswith("'")):
        return None
    return text[1:-1].split("', '")


def classify(st, r, is_list):
    """implementation outcome -> (code, detail)"""
    I = impl()
    ex, cx, ig = I['ex'], I['cx'], I['ig']
    if st == 'timeout':
        return ('other', 'TIMEOUT')
    if st == 'ret':
        if is_list:
            return ('list', [e['ok'] for e in r['input_list']])
        return ('result', r['ok'])
    m = str(r)
    if isinstance(r, cx.UndefinedVariable):
        return ('undefvar', m)
    if isinstance(r, cx.UndefinedFunction):
        return ('undefsuffix', m) if 'directly after a number' in m else ('undeffun', m)
    if isinstance(r, (cx.UnbalancedBrackets,)) or (isinstance(r, cx.UnableToParse) and 'Could not parse' in m):
        return ('parse', m)
    if isinstance(r, ex.InvalidInput):
        if m == FORBIDDEN_MESSAGE:
            return ('forbidden', m)
        pre = 'Invalid Input: Answer must contain the function '
        if m.startswith(pre):
            return ('required', m[len(pre):])
        pre, suf = 'Invalid Input: function(s) ', ' not permitted in answer'
        if m.startswith(pre) and m.endswith(suf):
            names = split_quoted(m[len(pre):-len(suf)])
            if names is not None:
                return ('notpermitted', names)
        if 'variable' in m and ('another meaning' in m or 'invalid variable name' in m):
            return ('dummy', m)
        return ('other', 'InvalidInput: ' + m)
    if isinstance(r, ex.ConfigError):
        return ('config', m)
    if isinstance(r, ex.MissingInput):
        return ('missing', m)
    if isinstance(r, ig.SummationError):
        return ('summation', m)
    if type(r) is ex.StudentFacingError and m.startswith('Invalid Input: Could not check input'):
        return ('generic', m)
    return ('other', '%s: %s' % (type(r).__name__, m[:200]))


def exc_class(st, r):
    return type(r).__name__ if st == 'exc' else st


def observe(spec):
    """run one case on the implementation; everything returned is plain data"""
    rec = {'samples': [], 'raw': [], 'sums': []}
    out = {'id': spec['id']}
    if spec.get('fresh'):
        fresh_modules()
    with Wrappers(rec):
        st, gs = core.guarded(build_grader, spec)
        if st != 'ret':
            out['construct_error'] = '%s: %s' % (type(gs).__name__, gs)
            return out
        g, sub = gs
        # history: earlier submissions to the same grader (and to the process-wide parser); only the last call is the case
        out['history'] = []
        for h in spec.get('history', []):
            hs, hr = core.guarded(g, None, h)
            out['history'].append(exc_class(hs, hr))
        for k in ('samples', 'raw', 'sums'):
            del rec[k][:]
        st, r = core.guarded(g, None, spec['input'])
    out['code'], out['detail'] = classify(st, r, spec['cls'] == 'List')
    out['exc'] = exc_class(st, r)
    out['message'] = str(r)[:300] if st != 'ret' else ''
    if st == 'ret':
        if spec['cls'] == 'List':
            out['grades'] = [e['grade_decimal'] for e in r['input_list']]
        else:
            out['grades'] = [r['grade_decimal']]
    out['samples'] = [s['names'] for s in rec['samples']]
    out['raw'] = [(s['ok'], s['exc']) for s in rec['raw']]
    out['sums'] = [(s['lower'], s['upper'], s['range']) for s in rec['sums']]
    out['permitted'] = sorted(sub.permitted_functions, key=str)
    out['defaults'] = sorted(sub.default_functions)
    out['constants'] = sorted(sub.constants)
    out['suffixes'] = sorted(sub.suffixes)
    return out


def _observe_safe(spec):
    try:
        return observe(spec)
    except BaseException as e:           # noqa
        return {'id': spec['id'], 'harness_error': '%s: %s' % (type(e).__name__, e)}


def observe_all(specs):
    if len(specs) < 40:
        return [_observe_safe(s) for s in specs]
    ctx = multiprocessing.get_context('fork')
    with ctx.Pool(min(core.NPROC, 14)) as pool:
        return pool.map(_observe_safe, specs, chunksize=max(1, len(specs) // 56))


# =================================================================================================
# generators (all randomness from the rng handed in)
# =================================================================================================
def spaced(rng, s, p=0.25):
    """insert spaces around operators and parentheses (never inside names or numbers)"""
    out = []
    for ch in s:
        if ch in '+-*/^(),[]' and rng.random() < p:
            out.append(rng.choice([' ' + ch, ch + ' ', ' ' + ch + ' ', '  ' + ch]))
        else:
            out.append(ch)
    return ''.join(out)


def restriction(rng):
    """returns (config fragment, restricted default functions, allowed default functions)"""
    mode = rng.choice(['black', 'black', 'white', 'white', 'none', 'off'])
    if mode == 'black':
        bl = rng.sample(RESTRICTABLE, rng.randint(1, 4))
        return {'blacklist': bl}, bl, ALWAYS + [f for f in RESTRICTABLE if f not in bl]
    if mode == 'white':
        wl = ALWAYS + rng.sample(RESTRICTABLE, rng.randint(0, 3))
        return {'whitelist': wl}, [f for f in RESTRICTABLE if f not in wl] + ['floor', 'arcsinh'], wl
    if mode == 'none':
        return {'whitelist': [None]}, RESTRICTABLE + ALWAYS, []
    return {}, [], ALWAYS + RESTRICTABLE


# neutral terms: (template over H and T, needs user function uf)
NEUTRAL = [('{H}+0*{T}', False), ('{H}+{T}-{T}', False), ('({H})*({T})^0', False), ('uf({H}+0*{T})', True),
           ('({H})*2^(0*{T})', False), ('0*{T}+{H}', False), ('{H}+0*({T}+1)^2', False), ('{H}-0*-{T}', False),
           ('{H}+0*uf(uf({T}))', True), ('{H}+0*(2*({T}))', False)]
NEUTRAL_VEC = [('{H}+0*{T}*[1,1]', False), ('{H}+[{T},0]-[{T},0]', False), ('({H})*({T})^0', False),
               ('{H}+0*[{T},{T}]', False), ('{H}+0*uf({T})*[1,1]', True)]

UNDEFINED_NAMES = ['q', 'X', "x'", 'x_1', 'a_{01}', 'A_{1}', 'b_{1}', 'xx', 'pI', 'E', 'sibling_1', 'a_{-0}', "y''", 'Y', 'a_{1}^{2}']
UNDEFINED_CALLS = ['Sin(1)', 'SIN(1)', "sin'(1)", 'uf2(1)', 'x(1)', 'Uf(1)', 'sqrt_2(4)', "uf'(1)"]

FORMULA_PROBLEMS = [('x+1', '1+x'), ('x*y+1', '1+y*x'), ('(x+y)^2', 'x^2+2*x*y+y^2'), ('2*x-y/2', '(4*x-y)/2'),
                    ('x*(y+1)', 'x*y+x'), ('uf(x)+y', 'y+x'), ('x^2/y', 'x*x/y'), ('x+y+c', 'c+y+x'),
                    ('x*a_{1}+y', 'y+a_{1}*x'), ('2*x+1', 'x+x+1')]
# every forbidden string is itself a well-formed expression (it is also inserted as  +0*(string))
FORBIDDEN_PROBLEMS = [('(x+y)^2', 'x^2+2*x*y+y^2', ['x + y', 'y+x']), ('x*(y+1)', 'x*y+x', ['y+1', '1 + y']),
                      ('2*x*y', 'x*y+y*x', ['2*x', 'x*2']), ('x+x+y', '2*x+y', ['x+x'])]
# (required function, functions the honest form needs, honest form, equal form that omits the required function)
REQUIRED_PROBLEMS = [('cos', ['cos', 'sin'], 'cos({v})^2+sin({v})^2+{w}-1', '{w}'), ('exp', ['exp'], 'exp({v})*exp(-{v})*{w}', '{w}'),
                     ('sqrt', ['sqrt'], 'sqrt({v}^2)*{w}', '{v}*{w}'), ('uf', [], 'uf({w})+{v}', '{w}+{v}')]


def base_cfg(rng, restr=None):
    frag, restricted, allowed = restr if restr is not None else restriction(rng)
    cfg = {'variables': ['x', 'y', 'z', 'w'], 'numbered_vars': ['a'], 'user_constants': {'c': 3.0},
           'user_functions': ['uf'] + (['ug'] if rng.random() < 0.3 else []),
           'instructor_vars': rng.choice([['z'], ['z', 'w'], ['w'], ['z', 'c'], ['z', 'pi'], ['z', 'a_{2}'], []]),
           'forbidden_message': FORBIDDEN_MESSAGE, 'metric_suffixes': rng.random() < 0.3,
           'sample_from': {'x': [1, 3], 'y': [1, 3], 'z': [1, 3], 'w': [1, 3], 'a': [1, 3]}}
    cfg.update(frag)
    return cfg, restricted, allowed


def author_options(rng, cls):
    """author-side options that change code paths (debug output, number of samples, tolerated failures) but not the
    restrictions: every cheating-formula stream is crossed with them"""
    o = {}
    if rng.random() < 0.4:
        o['debug'] = True
    if rng.random() < 0.3:
        o['suppress_warnings'] = True
    if cls != 'Numerical':               # NumericalGrader pins samples = 1 and failable_evals = 0
        n = rng.choice([None, None, 1, 2, 3])
        if n and cls != 'Sum':
            o['samples'] = n
        if rng.random() < 0.3 and o.get('samples', 5) >= 2:
            o['failable_evals'] = 1
    if cls == 'List' and rng.random() < 0.4:
        o['_list_debug'] = True
    return o


def restricted_terms(rng, cfg, restricted, allowed, scalar_vars=('x', 'y')):
    """candidate (kind, T, harmless twin T', expectation) for this configuration"""
    out = []
    arg = lambda: rng.choice(['1', '2', scalar_vars[0]])          # noqa
    harmless_f = (rng.choice(allowed) + '(1)') if allowed else 'uf(1)'
    for f in restricted:
        out.append(('func', '%s(%s)' % (f, arg()), harmless_f, 'invalid'))
    for v in cfg.get('instructor_vars', []):
        out.append(('instructor', v, scalar_vars[-1], 'undefined'))
    for n in rng.sample(UNDEFINED_NAMES, 4):
        out.append(('undefined', n, scalar_vars[-1], 'undefined'))
    for n in rng.sample(UNDEFINED_CALLS, 3):
        out.append(('undefcall', n, harmless_f, 'undefined'))
    out.append(('suffix', '2q' if cfg.get('metric_suffixes') else rng.choice(['2k', '3m', '1u']), '2%', 'undefined'))
    out.append(('suffix', '5%%', '5%', 'undefined'))
    return out


class Gen:
    def __init__(self, rng):
        self.rng = rng
        self.specs = []

    def add(self, cls, cfg, answers, inp, kind, expect, honest=None, twin=None, **extra):
        s = {'id': len(self.specs), 'cls': cls, 'cfg': cfg, 'answers': answers, 'input': inp, 'kind': kind,
             'expect': expect, 'honest': honest, 'twin': twin}
        s.update(extra)
        self.specs.append(s)
        return s['id']

    # ---------------------------------------------------------------------------- Formula / Numerical / Matrix
    def scalar_family(self, cls, n_cheats):
        rng = self.rng
        cfg, restricted, allowed = base_cfg(rng)
        cfg.update(author_options(rng, cls))
        mode = rng.random()
        if cls == 'Numerical':
            for k in ('variables', 'numbered_vars', 'sample_from'):
                cfg.pop(k)
            cfg['user_constants'] = {'c': 3.0, 'd': 2.0}
            cfg['instructor_vars'] = rng.choice([['c'], ['c', 'pi'], ['pi'], ['c', 'e']])
            A, H = rng.choice([('2*c+1', '7'), ('c^2', '9'), ('3.5', '7/2'), ('2^3+1', '9'), ('d*c', '2*d+2')])
            svars = ('d', 'd')
        elif mode < 0.2:                       # forbidden strings
            A, H, forb = rng.choice(FORBIDDEN_PROBLEMS)
            cfg['forbidden_strings'] = forb
            svars = ('x', 'y')
        elif mode < 0.4:                       # required functions
            fn, needs, At, Bt = rng.choice(REQUIRED_PROBLEMS)
            if not all(f in allowed for f in needs):
                fn, needs, At, Bt = REQUIRED_PROBLEMS[-1]
            A = H = At.format(v='x', w='y')
            cfg['required_functions'] = [fn]
            cfg['_omit'] = Bt.format(v='x', w='y')
            svars = ('x', 'y')
        else:
            A, H = rng.choice([p for p in FORMULA_PROBLEMS if 'c' not in cfg['instructor_vars'] or 'c' not in p[1]])
            svars = ('x', 'y')
        omit = cfg.pop('_omit', None)
        A0 = A
        # the author's own answer may use everything that is closed to students
        if rng.random() < 0.5:
            extra = []
            if cfg.get('instructor_vars'):
                v = cfg['instructor_vars'][0]
                extra.append('+%s-%s' % (v, v))
            if restricted:
                extra.append('+0*%s(1)' % restricted[0])
            if cfg.get('forbidden_strings'):
                extra.append('+0*(%s)' % cfg['forbidden_strings'][0])
            A = A + ''.join(extra)
        author_uses = A != H
        if rng.random() < 0.3:          # an answer worth partial credit: the raw verdict is 'partial'
            A = ({'expect': A, 'grade_decimal': 0.5},)
        honest = self.add(cls, cfg, A, H, 'honest', 'credit', author_uses_restricted=author_uses)
        if omit is not None:
            self.add(cls, cfg, A, spaced(rng, omit), 'required', 'invalid', honest=honest, twin=honest)
            self.add(cls, cfg, A, omit + '+0*%s(1)' % cfg['required_functions'][0].capitalize(), 'undefcall', 'undefined',
                     honest=honest, twin=honest)
        for f in cfg.get('forbidden_strings', []):
            twin = self.add(cls, cfg, A, H + '+0*(y)', 'control', 'credit', honest=honest)
            self.add(cls, cfg, A, H + '+0*(' + spaced(rng, f, 0.5) + ')', 'forbidden', 'invalid', honest=honest, twin=twin)
        if cfg.get('forbidden_strings'):
            self.add(cls, cfg, A, spaced(rng, A0, 0.5), 'forbidden', 'invalid', honest=honest, twin=honest)
        terms = restricted_terms(rng, cfg, restricted, allowed, svars)
        rng.shuffle(terms)
        for kind, T, Tok, expect in terms[:n_cheats]:
            tmpl, needs_uf = rng.choice(NEUTRAL)
            twin = self.add(cls, cfg, A, spaced(rng, tmpl.format(H=H, T=Tok)), 'control', 'credit', honest=honest)
            self.add(cls, cfg, A, spaced(rng, tmpl.format(H=H, T=T)), kind, expect, honest=honest, twin=twin, term=T)

    def matrix_family(self, n_cheats):
        rng = self.rng
        cfg, restricted, allowed = base_cfg(rng)
        cfg.update(author_options(rng, 'Matrix'))
        cfg['max_array_dim'] = 1
        if rng.random() < 0.3:
            cfg['entry_partial_credit'] = 'proportional'
        A, H, entries = rng.choice([('[x,y]+[1,2]', '[x+1,y+2]', ['x+1', 'y+2']), ('x*[1,2]', '[x,2*x]', ['x', '2*x']),
                                    ('[x*y,1]', '[y*x,1]', ['y*x', '1'])])
        if rng.random() < 0.5 and cfg.get('instructor_vars'):
            v = cfg['instructor_vars'][0]
            A = A + '+0*%s*[1,1]' % v
        honest = self.add('Matrix', cfg, A, H, 'honest', 'credit', author_uses_restricted=(A != H))
        terms = restricted_terms(rng, cfg, restricted, allowed)
        rng.shuffle(terms)
        for kind, T, Tok, expect in terms[:n_cheats]:
            if rng.random() < 0.3:      # inside an array entry
                mk = lambda t: '[%s+0*%s,%s]' % (entries[0], t, entries[1])      # noqa
            else:
                tmpl, _ = rng.choice(NEUTRAL_VEC)
                mk = lambda t, tmpl=tmpl: tmpl.format(H=H, T=t)      # noqa
            twin = self.add('Matrix', cfg, A, spaced(rng, mk(Tok)), 'control', 'credit', honest=honest)
            self.add('Matrix', cfg, A, spaced(rng, mk(T)), kind, expect, honest=honest, twin=twin, term=T)

    # ---------------------------------------------------------------------------- SumGrader
    def sum_family(self, n_cheats):
        rng = self.rng
        cfg, restricted, allowed = base_cfg(rng)
        cfg.update(author_options(rng, 'Sum'))
        cfg['variables'] = ['a', 'z', 'w']
        cfg['numbered_vars'] = []
        cfg['sample_from'] = {'a': [1, 3], 'z': [1, 3], 'w': [1, 3]}
        cfg['instructor_vars'] = rng.choice([['z'], ['z', 'w'], ['w']])
        cfg['even_odd'] = rng.choice([0, 0, 1, 2])
        cfg['samples'] = rng.choice([1, 2])
        cfg['tolerance'] = 1e-9            # the default 1e-12 (absolute) is too close to the rounding of  +T-T
        fields = ['lower', 'upper', 'summand', 'summation_variable']
        author = dict(zip(fields, rng.choice([('1', '4', 'a*n^2', 'n'), ('0', '5', 'n+a', 'n'), ('2', '6', 'a*(n+1)', 'n'),
                                              ('1', '5', 'uf(n)*a', 'n')])))
        entered = rng.choice([fields, fields, ['summand'], ['lower', 'upper', 'summand'], ['summand', 'summation_variable']])
        cfg['input_positions'] = {k: i + 1 for i, k in enumerate(entered)}

        def student(**over):
            d = dict(author)
            d.update(over)
            return [d[k] for k in entered]
        honest_over = {}
        if 'summation_variable' in entered and rng.random() < 0.5:
            honest_over = {'summation_variable': 'k', 'summand': author['summand'].replace('n', 'k')}
        hs = dict(author)
        hs.update(honest_over)
        honest = self.add('Sum', cfg, author, student(**honest_over), 'honest', 'credit', entered=entered)
        terms = restricted_terms(rng, cfg, restricted, allowed, scalar_vars=('a', 'a'))
        rng.shuffle(terms)
        for kind, T, Tok, expect in terms[:n_cheats]:
            place = rng.choice([k for k in entered if k != 'summation_variable'])
            # limits must stay exact integers in floating point: no  +T-T  there
            tmpl, _ = rng.choice(NEUTRAL[:3] + NEUTRAL[4:8]) if place == 'summand' else rng.choice([NEUTRAL[0]] + NEUTRAL[4:8])
            twin = self.add('Sum', cfg, author, student(**dict(honest_over, **{place: spaced(rng, tmpl.format(H=hs[place], T=Tok))})),
                            'control', 'credit', honest=honest, entered=entered)
            self.add('Sum', cfg, author, student(**dict(honest_over, **{place: spaced(rng, tmpl.format(H=hs[place], T=T))})),
                     kind, expect, honest=honest, twin=twin, entered=entered, term=T, place=place)

    def sum_positions_family(self):
        """every restricted construct in EACH student-entered box separately, under a random subset AND order of
        input_positions, the value of the sum kept: each must be refused wherever it is typed"""
        rng = self.rng
        author_t, forb, bad, good = rng.choice([
            (('1', '5', '2*n', 'n'), ['+'], '{H}+0', '({H})*1'),
            (('0', '4', 'a*n', 'n'), ['0 * 7'], '{H}+0*7', '{H}+0*8'),
            (('2', '6', 'a*n^2', 'n'), ['- 0', '+0'], '{H}-0', '({H})*1'),
            (('1', '4', '3*n', 'n'), ['1*'], '1*({H})', '({H})*1'),
            (('1', '3', 'n^2', 'n'), ['(1)'], '{H}*(1)', '{H}*1')])
        author = dict(zip(FIELDS, author_t))
        k = rng.randint(1, 4)
        entered = rng.sample(FIELDS, k)                       # subset in a random ORDER: position i+1 goes to entered[i]
        if all(b == 'summation_variable' for b in entered):
            entered = ['summand'] + entered
        cfg = {'variables': ['a', 'z'], 'instructor_vars': ['z'], 'blacklist': ['tan'], 'user_functions': ['uf'],
               'forbidden_strings': forb, 'forbidden_message': FORBIDDEN_MESSAGE, 'tolerance': 1e-9,
               'sample_from': {'a': [1, 3], 'z': [1, 3]}, 'even_odd': rng.choice([0, 0, 1, 2]),
               'input_positions': {b: i + 1 for i, b in enumerate(entered)}}
        cfg.update({o: v for o, v in author_options(rng, 'Sum').items()})

        def student(**over):
            d = dict(author)
            d.update(over)
            return [d[b] for b in entered]
        honest = self.add('Sum', cfg, author, student(), 'honest', 'credit', entered=entered)
        for box in entered:
            if box == 'summation_variable':
                continue
            H = author[box]
            twin = self.add('Sum', cfg, author, student(**{box: spaced(rng, good.format(H=H))}), 'control', 'credit',
                            honest=honest, entered=entered)
            self.add('Sum', cfg, author, student(**{box: spaced(rng, bad.format(H=H), 0.4)}), 'forbidden', 'invalid',
                     honest=honest, twin=twin, entered=entered, place=box, position=cfg['input_positions'][box])
            for kind, T, expect in [('func', 'tan(1)', 'invalid'), ('instructor', 'z', 'undefined'),
                                    ('undefined', rng.choice(['q', 'A', "a'", 'zz']), 'undefined'),
                                    ('suffix', '2k', 'undefined')]:
                text = '(%s)*2^(0*%s)' % (H, T)                 # exact in floating point, so limits stay integers
                if any(f.replace(' ', '') in text for f in forb):
                    text = '(%s)*(2^(0*%s))' % (H, T)
                if any(f.replace(' ', '') in text.replace(' ', '') for f in forb):
                    continue
                self.add('Sum', cfg, author, student(**{box: text}), kind, expect, honest=honest, twin=honest,
                         entered=entered, place=box, term=T, position=cfg['input_positions'][box])

    def required_substring_family(self, cls, defaults):
        """required_functions: the cheat avoids the required function f but calls, in a neutral term, another AVAILABLE function
        whose name contains f's name (every such pair of the grader's function table, and user functions uf/ufx, ug/ug2),
        nested in arguments, exponents and array entries"""
        rng = self.rng
        names = sorted(set(defaults) - {'fact', 'factorial'}) + ['uf', 'ufx', 'ug2']
        pairs = [(f, g) for f in names for g in names if f != g and f in g and f not in ('re', 'im', 'max', 'min')]
        if cls != 'Matrix':
            pairs = [p for p in pairs if p[1] not in ('ctrans', 'trans')]
        pairs = [p for p in pairs if p[0] not in ('trans',)]
        two_args = ('arctan2',)
        big = ('arcsec', 'arccsc', 'arccosh', 'arccoth', 'arccot')

        def call(fn):
            if fn in two_args:
                return '%s(1,2)' % fn
            if fn == 'ug':
                return 'ug(1,2)'
            return '%s(%s)' % (fn, '2' if fn in big else '0.5')
        for f, g in rng.sample(pairs, min(len(pairs), 6 if getattr(self, 'depths', 2) == 2 else 20)):
            cfg = {'variables': ['x', 'y'], 'user_functions': ['uf', 'ufx', 'ug2'], 'required_functions': [f],
                   'forbidden_message': FORBIDDEN_MESSAGE, 'sample_from': {'x': [1, 3], 'y': [1, 3]}}
            cfg.update(author_options(rng, cls))
            B = 'x*y+1'
            if cls == 'Numerical':
                for k in ('variables', 'sample_from', 'samples', 'failable_evals'):
                    cfg.pop(k, None)
                B = '7'
            if cls == 'Matrix':
                cfg['max_array_dim'] = 1
                B = '[x*y,1]'
            H = '%s+0*%s' % (B, call(f)) if cls != 'Matrix' else '[x*y+0*%s,1]' % call(f)
            honest = self.add(cls, cfg, H, H, 'honest', 'credit')
            T = call(g)
            forms = ['%s+0*%s' % (B, T), '(%s)*2^(0*%s)' % (B, T), 'uf(%s+0*%s)' % (B, T), '%s+0*uf(ufx(%s))' % (B, T)]
            if cls == 'Matrix':
                forms = ['[x*y+0*%s,1]' % T, '[x*y,2^(0*%s)]' % T, '%s+0*%s*[1,1]' % (B, T), '[uf(x*y+0*%s),1]' % T]
            if g == 'ufx':
                forms = [t for t in forms if 'uf(' not in t.replace('ufx(', '')]     # must not call uf itself
            if f == 'uf':
                forms = [t for t in forms if 'uf(' not in t.replace('ufx(', '')]
            for text in rng.sample(forms, min(2, len(forms))):
                self.add(cls, cfg, H, spaced(rng, text), 'required', 'invalid', honest=honest, twin=honest, term=T,
                         corpus='required-substring', pair=[f, g])

    def sum_corpus(self):
        """deterministic witnesses: empty index range; author's own fields validated as student input"""
        fields = ['lower', 'upper', 'summand', 'summation_variable']
        cfg = {'variables': ['z'], 'instructor_vars': ['z'], 'even_odd': 1, 'blacklist': ['sqrt'], 'user_functions': [],
               'forbidden_message': FORBIDDEN_MESSAGE, 'input_positions': {k: i + 1 for i, k in enumerate(fields)}}
        author = {'lower': '-3', 'upper': '3', 'summand': 'n^3', 'summation_variable': 'n'}
        honest = self.add('Sum', cfg, author, ['-3', '3', 'n^3', 'n'], 'honest', 'credit', entered=fields)
        twin = self.add('Sum', cfg, author, ['2', '2', '1', 'n'], 'control', 'credit', honest=honest, entered=fields)
        for kind, T in [('instructor', 'z'), ('undefined', 'qq'), ('suffix', '2k')]:
            self.add('Sum', cfg, author, ['2', '2', T, 'n'], kind, 'undefined', honest=honest, twin=twin, entered=fields,
                     term=T, place='summand', corpus='empty-range')
        self.add('Sum', cfg, author, ['2', '2', 'sqrt(1)', 'n'], 'func', 'invalid', honest=honest, twin=twin, entered=fields,
                 term='sqrt(1)', place='summand')
        # an instructor variable re-used as the summation variable (repaired in /repo e54e9a1)
        self.add('Sum', cfg, author, ['-3', '3', 'z^3', 'z'], 'dummy-instructor', 'refused', honest=honest, twin=honest,
                 entered=fields, term='z', place='summation_variable', corpus='instructor-dummy')
        for upper, extra, what in [('z', {'instructor_vars': ['z'], 'user_constants': {'z': 4}, 'variables': []}, 'instructor'),
                                   ('sqrt(16)', {'blacklist': ['sqrt']}, 'func'),
                                   ('10', {'forbidden_strings': ['10']}, 'forbidden')]:
            c2 = {'even_odd': 0, 'user_functions': [], 'forbidden_message': FORBIDDEN_MESSAGE, 'input_positions': {'summand': 1}}
            c2.update(extra)
            a2 = {'lower': '1', 'upper': upper, 'summand': 'n', 'summation_variable': 'n'}
            self.add('Sum', c2, a2, ['n'], 'honest', 'credit', entered=['summand'], author_uses_restricted=True,
                     author_field=what)

    # ---------------------------------------------------------------------------- ordered lists with siblings
    def list_family(self, n_cheats):
        rng = self.rng
        cfg, restricted, allowed = base_cfg(rng)
        cfg.update(author_options(rng, 'List'))
        # the single SHARED subgrader: with or without numbered variables, a Formula-, Matrix- or NumericalGrader
        sub = rng.choice(['Formula', 'Formula', 'Matrix', 'Numerical'])
        cfg['_sub'] = sub
        if rng.random() < 0.5 or sub == 'Numerical':
            cfg['numbered_vars'] = []
            cfg['sample_from'] = {k: v for k, v in cfg['sample_from'].items() if k != 'a'}
            cfg['instructor_vars'] = [v for v in cfg['instructor_vars'] if not v.startswith('a_')]
        problems = FORMULA_PROBLEMS[:5]
        yvar = 'y'
        if sub == 'Numerical':
            for k in ('variables', 'numbered_vars', 'sample_from', 'samples', 'failable_evals'):
                cfg.pop(k, None)
            cfg['user_constants'] = {'c': 3.0, 'd': 2.0}
            cfg['instructor_vars'] = ['c']
            problems = [('2*c+1', '7'), ('c^2', '9'), ('d+1', '1+d'), ('2^3', '8')]
            yvar = 'd'
        if sub == 'Matrix':
            cfg['max_array_dim'] = 1
        A1, H1 = rng.choice(problems)
        A3, H3 = rng.choice(problems)
        shape = rng.choice(['1<-2', '2<-1', '2<-1,3', '1<-2,3', '2<-1;3', '2<-1;3', '1;3<-2'])
        if shape == '2<-1;3':            # a box after the referencing one whose own answer names no sibling
            answers, honest_in = [A1, 'sibling_1^2', A3], [H1, '(%s)^2' % H1, H3]
        elif shape == '1;3<-2':
            answers, honest_in = [A1, A3, 'sibling_2+1'], [H1, H3, '(%s)+1' % H3]
        elif shape == '1<-2':
            answers, honest_in = ['sibling_2^2', A1], ['(%s)^2' % H1, H1]
        elif shape == '2<-1':
            answers, honest_in = [A1, 'sibling_1+1'], [H1, '(%s)+1' % H1]
        elif shape == '2<-1,3':
            answers, honest_in = [A1, 'sibling_1*sibling_3', A3], [H1, '(%s)*(%s)' % (H1, H3), H3]
        else:
            answers, honest_in = ['sibling_2+sibling_3', A1, A3], ['(%s)+(%s)' % (H1, H3), H1, H3]
        n = len(answers)
        honest = self.add('List', cfg, answers, list(honest_in), 'honest', 'credit', shape=shape)
        terms = restricted_terms(rng, cfg, restricted, allowed, scalar_vars=('x', yvar) if sub != 'Numerical' else (yvar, yvar))
        terms = [(k, T, (yvar if Tok == 'y' else Tok), e) for k, T, Tok, e in terms]
        terms += [('sibling', 'sibling_%d' % k, yvar, 'undefined') for k in range(1, n + 2)]
        terms += [('sibling', 'sibling_%d' % rng.randint(1, n), yvar, 'undefined') for _ in range(2)]
        rng.shuffle(terms)
        # always: the box whose answer is built from a sibling mentions that sibling itself
        import re as _re
        refs = [(i, k) for i, a in enumerate(answers) for k in _re.findall(r'sibling_\d+', a)]
        forced = [('sibling', k, yvar, 'undefined', i) for i, k in refs[:2]]
        # and: every box whose own answer names no sibling mentions each sibling that some other box's answer does
        forced += [('sibling', k, yvar, 'undefined', i) for i, a in enumerate(answers) if 'sibling_' not in a
                   for k in sorted({k for _, k in refs})]
        for item in forced + [t + (None,) for t in terms[:n_cheats]]:
            kind, T, Tok, expect, forced_box = item
            box = rng.randrange(n) if forced_box is None else forced_box
            tmpl, _ = rng.choice(NEUTRAL)

            def with_box(t):
                inp = list(honest_in)
                inp[box] = spaced(rng, tmpl.format(H=honest_in[box], T=t))
                return inp
            twin = self.add('List', cfg, answers, with_box(Tok), 'control', 'credit', honest=honest, shape=shape)
            # the same grader object may already have graded every box (an earlier submission)
            extra = {'history': [list(honest_in)] * rng.randint(1, 2)} if rng.random() < 0.5 else {}
            self.add('List', cfg, answers, with_box(T), kind, expect, honest=honest, twin=twin, term=T, box=box, shape=shape,
                     **extra)

    def format_corpus(self):
        """deterministic witness: an undefined name that differs only by case from a defined name with braces"""
        cfg = {'variables': ['x', 'y'], 'numbered_vars': ['a'], 'user_functions': [], 'forbidden_message': FORBIDDEN_MESSAGE}
        honest = self.add('Formula', cfg, 'x*a_{1}+y', 'y+a_{1}*x', 'honest', 'credit')
        twin = self.add('Formula', cfg, 'x*a_{1}+y', 'y+a_{1}*x+0*y', 'control', 'credit', honest=honest)
        self.add('Formula', cfg, 'x*a_{1}+y', 'y+a_{1}*x+0*A_{1}', 'undefined', 'undefined', honest=honest, twin=twin,
                 term='A_{1}', corpus='format')
        self.add('Formula', cfg, 'x*a_{1}+y', 'y+a_{1}*x+0*A_{2}', 'undefined', 'undefined', honest=honest, twin=twin, term='A_{2}')

    def options_corpus(self):
        """deterministic: instructor, sibling and undefined names under debug=True / several samples / failable_evals"""
        for opts in ({'debug': True}, {'debug': True, 'samples': 2, 'failable_evals': 1}, {'samples': 3, 'failable_evals': 2},
                     {'suppress_warnings': True, 'debug': True}):
            cfg = {'variables': ['x', 'z'], 'instructor_vars': ['z', 'c'], 'user_constants': {'c': 3.0}, 'user_functions': ['uf'],
                   'blacklist': ['tan'], 'forbidden_message': FORBIDDEN_MESSAGE, 'sample_from': {'x': [1, 3], 'z': [1, 3]}}
            cfg.update(opts)
            honest = self.add('Formula', cfg, 'x+1+z-z', 'x+1', 'honest', 'credit', author_uses_restricted=True)
            twin = self.add('Formula', cfg, 'x+1+z-z', 'x+1+x-x', 'control', 'credit', honest=honest)
            for kind, inp, term, expect in [('instructor', 'x+1+z-z', 'z', 'undefined'), ('instructor', 'x+1+0*c', 'c', 'undefined'),
                                            ('undefined', 'x+1+0*q', 'q', 'undefined'), ('func', 'x+1+0*tan(x)', 'tan(x)', 'invalid')]:
                self.add('Formula', cfg, 'x+1+z-z', inp, kind, expect, honest=honest, twin=twin, term=term, corpus='options')
            mcfg = dict(cfg, max_array_dim=1)
            honest = self.add('Matrix', mcfg, '[x,1]+0*z*[1,1]', '[x,1]', 'honest', 'credit', author_uses_restricted=True)
            self.add('Matrix', mcfg, '[x,1]+0*z*[1,1]', '[x+0*z,z/z]', 'instructor', 'undefined', honest=honest, twin=honest,
                     term='z', corpus='options')
            ncfg = {'user_constants': {'c': 3.0, 'd': 2.0}, 'instructor_vars': ['c', 'pi'], 'user_functions': [],
                    'forbidden_message': FORBIDDEN_MESSAGE}
            ncfg.update({k: v for k, v in opts.items() if k in ('debug', 'suppress_warnings')})
            honest = self.add('Numerical', ncfg, '2*c+1', '7', 'honest', 'credit', author_uses_restricted=True)
            self.add('Numerical', ncfg, '2*c+1', '7+pi-pi', 'instructor', 'undefined', honest=honest, twin=honest, term='pi',
                     corpus='options')
            for list_debug in (False, True):
                lcfg = {'variables': ['x'], 'user_functions': [], 'forbidden_message': FORBIDDEN_MESSAGE, '_list_debug': list_debug}
                lcfg.update(opts)
                answers = ['x^2', 'sibling_1+1']
                honest = self.add('List', lcfg, answers, ['x^2', 'x^2+1'], 'honest', 'credit', shape='2<-1')
                self.add('List', lcfg, answers, ['x^2', 'sibling_1+1'], 'sibling', 'undefined', honest=honest, twin=honest,
                         term='sibling_1', box=1, shape='2<-1', corpus='options')
            scfg = {'variables': ['a', 'z'], 'instructor_vars': ['z'], 'user_functions': [], 'forbidden_message': FORBIDDEN_MESSAGE,
                    'tolerance': 1e-9, 'input_positions': {k: i + 1 for i, k in enumerate(FIELDS)}}
            scfg.update({k: v for k, v in opts.items() if k != 'samples'})
            author = {'lower': '1', 'upper': '4', 'summand': 'a*n', 'summation_variable': 'n'}
            honest = self.add('Sum', scfg, author, ['1', '4', 'a*n', 'n'], 'honest', 'credit', entered=FIELDS)
            self.add('Sum', scfg, author, ['1', '4', 'a*n+0*z', 'n'], 'instructor', 'undefined', honest=honest, twin=honest,
                     entered=FIELDS, term='z', place='summand', corpus='options')

    def fresh_term(self):
        """a neutral term never seen before in this run: the parse cache is keyed by the space-free text"""
        self.counter = getattr(self, 'counter', 0) + 1
        return '+0*%d' % (100000 + 977 * self.counter)

    def perturbers(self, mention):
        """inputs that make the engine fail in every way, each mentioning ALL the constructs in `mention` first (what is left
        behind by a failure is what was seen before it); returns {kind of failure: [inputs]}.  Whether an over-deep nesting
        ends in the parser's own error or in a RecursionError somewhere else depends on the depth and on the stack below
        the call, so several depths and shapes are used."""
        rng = self.rng
        m = '(' + '+'.join(mention) + ')'
        out = {'unbalanced': [rng.choice(['0*%s+((1', '0*%s+*2)']) % m], 'unparsable': ['0*%s+ 2 3 $' % m],
               'undefined': ['0*%s+0*qq(1)' % m]}
        for i, k in enumerate(rng.sample([55, 70, 90, 120, 180, 250, 330, 400], getattr(self, 'depths', 2))):
            out['deep-parens-%d' % i] = ['0*%s+%s1%s' % (m, '(' * k, ')' * k)]
            out['deep-brackets-%d' % i] = ['0*%s*%s1%s' % (m, '[' * k, ']' * k)]
            out['deep-calls-%d' % i] = ['0*%s+%s1%s' % (m, 'uf(' * k, ')' * k)]
        return out

    def history_family(self, cls):
        """perturb-then-probe: engine-breaking submissions first, then fresh spellings of the honest answer and of cheats;
        each probe is also evaluated without history in freshly imported modules (the baseline)"""
        rng = self.rng
        cfg, restricted, allowed = base_cfg(rng, restr=({'blacklist': ['tan', 'sinh']}, ['tan', 'sinh'], ALWAYS + ['sin', 'cos', 'sqrt']))
        cfg.update(author_options(rng, cls))
        cfg.pop('_list_debug', None)
        fn, needs, At, Bt = rng.choice(REQUIRED_PROBLEMS)
        cfg['required_functions'] = [fn]
        cfg['instructor_vars'] = ['z']
        A = H = At.format(v='x', w='y')
        omit = Bt.format(v='x', w='y')
        if cls == 'Numerical':
            for k in ('variables', 'numbered_vars', 'sample_from', 'samples', 'failable_evals'):
                cfg.pop(k, None)
            cfg['user_constants'] = {'c': 3.0, 'd': 2.0}
            cfg['instructor_vars'] = ['c']
            A = H = At.format(v='d', w='2')
            omit = Bt.format(v='d', w='2')
        mention = ['%s(%s)' % (fn, 'd' if cls == 'Numerical' else 'x'), 'tan(1)', cfg['instructor_vars'][0], 'Sin(1)']
        if cls == 'Matrix':
            cfg['max_array_dim'] = 1
            A, H, omit = '[%s,1]' % A, '[%s,1]' % H, '[%s,1]' % omit
        wrap = (lambda t: t)
        answers = A
        if cls == 'List':
            answers = [A, 'x+1']
            wrap = (lambda t: [t, 'x+1'])
        gcls = cls
        kinds_of_failure = sorted(self.perturbers(mention))
        probes = [('history-honest', H, 'credit', None),
                  ('required', omit, 'invalid', None),
                  ('func', H + '+0*tan(1)', 'invalid', 'tan(1)'),
                  ('instructor', H + '+0*' + cfg['instructor_vars'][0], 'undefined', cfg['instructor_vars'][0])]
        honest = None
        # every probe is tried after every kind of failure as the LAST submission before it (a failure that is followed by
        # another first-time parse hands its leftovers to that one, not to the probe)
        for last in kinds_of_failure:
            for kind, text0, expect, term in probes:
                # what a failed submission leaves behind is what it mentioned: for a cheat that omits the required function
                # only that function (anything else would get the probe refused for another reason), for the honest answer
                # one of the constructs closed to students, otherwise any of them
                if kind == 'required':
                    pert = self.perturbers(mention[:1])
                elif kind == 'history-honest':
                    pert = self.perturbers([rng.choice(mention[1:])])
                else:
                    pert = self.perturbers(rng.sample(mention, rng.randint(1, len(mention))))
                fresh = self.fresh_term()
                text = (text0[:-1] + fresh + ']') if cls == 'Matrix' and text0.endswith(']') else text0 + fresh
                others = [h for k2 in pert if k2 != last for h in pert[k2]]
                rng.shuffle(others)
                history = [wrap(h) for h in others[:rng.randint(1, 4)] + [rng.choice(pert[last])]]
                base = self.add(gcls, cfg, answers, wrap(text), 'baseline', None, fresh=True)
                extra = {'term': term} if term else {}
                if cls == 'List':
                    extra['box'] = 0
                sid = self.add(gcls, cfg, answers, wrap(text), kind, expect, honest=honest, twin=honest, history=history,
                               baseline=base, corpus='history', last_failure=last, **extra)
                if kind == 'history-honest' and honest is None:
                    honest = sid

    def sampler_sibling_family(self):
        """ordered lists in which a sibling reaches the grader through a DependentSampler of sample_from, not through the
        answer: it is sampled, so it must be scrubbed from the student's scope like any other sibling"""
        rng = self.rng
        n = rng.choice([2, 3])
        src = rng.randrange(n)                        # the box the sampler depends on
        key = 'sibling_%d' % (src + 1)
        cfg = {'variables': ['x', 's'], 'user_functions': ['uf'], 'forbidden_message': FORBIDDEN_MESSAGE,
               'sample_from': {'x': [1, 3], 's': ('dependent', [key], rng.choice(['%s+1', '2*%s', '%s^2']) % key)}}
        cfg.update(author_options(rng, 'List'))
        formula = cfg['sample_from']['s'][2]
        answers = ['x+%d' % (i + 1) for i in range(n)]
        honest_in = ['%d+x' % (i + 1) for i in range(n)]
        user = rng.choice([i for i in range(n) if i != src])       # the box whose answer is the sampled variable
        answers[user] = rng.choice(['s', 's+x', '2*s'])
        honest_in[user] = answers[user].replace('s', '(' + formula.replace(key, '(' + honest_in[src] + ')') + ')')
        honest = self.add('List', cfg, answers, list(honest_in), 'honest', 'credit', shape='sampler')
        for box in range(n):
            tmpl, _ = rng.choice(NEUTRAL)

            def with_box(t, box=box, tmpl=tmpl):
                inp = list(honest_in)
                inp[box] = spaced(rng, tmpl.format(H=honest_in[box], T=t))
                return inp
            twin = self.add('List', cfg, answers, with_box('x'), 'control', 'credit', honest=honest, shape='sampler')
            self.add('List', cfg, answers, with_box(key), 'sibling', 'undefined', honest=honest, twin=twin, term=key, box=box,
                     shape='sampler')
        # the answer spelled with the sibling itself
        inp = list(honest_in)
        inp[user] = answers[user].replace('s', '(' + formula + ')')
        self.add('List', cfg, answers, inp, 'sibling', 'undefined', honest=honest, twin=honest, term=key, box=user, shape='sampler')

    def list_corpus(self):
        cfg = {'variables': ['x'], 'user_functions': [], 'forbidden_message': FORBIDDEN_MESSAGE}
        answers = ['sibling_2^2', 'x+1']
        honest = self.add('List', cfg, answers, ['(x+1)^2', 'x+1'], 'honest', 'credit', shape='1<-2')
        for T in ['sibling_1', 'sibling_2', 'qq']:
            self.add('List', cfg, answers, ['(x+1)^2', 'x+1+0*' + T], 'sibling' if T != 'qq' else 'undefined', 'undefined',
                     honest=honest, twin=honest, term=T, box=1, shape='1<-2', corpus='sibling-config')
        self.add('List', cfg, answers, ['(x+1)^2+0*sibling_2', 'x+1'], 'sibling', 'undefined', honest=honest, twin=honest,
                 term='sibling_2', box=0, shape='1<-2')


def generate(seed, tier, escalate):
    rng = random.Random(9000011 * seed + 9)
    g = Gen(rng)
    g.depths = 3 if tier == 'thorough' else 2
    g.sum_corpus()
    g.list_corpus()
    g.format_corpus()
    g.options_corpus()
    for cls in ('Formula', 'Numerical', 'Matrix', 'List'):
        for _ in range(3 if tier == 'thorough' else 1):
            g.history_family(cls)
    for _ in range(12 if tier == 'thorough' else 3):
        g.sampler_sibling_family()
    for _ in range(60 if tier == 'thorough' else (16 if escalate else 8)):
        g.sum_positions_family()
    import mitxgraders
    for cls, klass in (('Formula', mitxgraders.FormulaGrader), ('Numerical', mitxgraders.NumericalGrader),
                       ('Matrix', mitxgraders.MatrixGrader)):
        g.required_substring_family(cls, list(klass.default_functions))
    if tier == 'thorough':
        fam = {'Formula': 260, 'Numerical': 90, 'Matrix': 130, 'Sum': 170, 'List': 90}
        per = 8
    elif escalate:
        fam = {'Formula': 50, 'Numerical': 16, 'Matrix': 24, 'Sum': 30, 'List': 14}
        per = 6
    else:
        fam = {'Formula': 30, 'Numerical': 10, 'Matrix': 14, 'Sum': 18, 'List': 8}
        per = 5
    for cls, n in fam.items():
        for _ in range(n):
            if cls in ('Formula', 'Numerical'):
                g.scalar_family(cls, per)
            elif cls == 'Matrix':
                g.matrix_family(per)
            elif cls == 'Sum':
                g.sum_family(per)
            else:
                g.list_family(per)
    return g.specs


# =================================================================================================
# Coq terms
# =================================================================================================
def strl(s):
    return '[' + ';'.join(str(ord(c)) for c in s) + ']'


def namesl(xs):
    return '[' + ';'.join(strl(x) for x in xs) + ']'


def okl(ok):
    return {True: 'OkTrue', False: 'OkFalse', 'partial': 'OkPartial'}.get(ok)


def rawl(raw):
    """(ok, exc) of raw_check -> option okv"""
    if raw is None or raw[0] is None or okl(raw[0]) is None:
        return 'None'
    return '(Some %s)' % okl(raw[0])


def optnames(x):
    return 'None' if x is None else '(Some %s)' % namesl(x)


def obs_term(code, detail):
    if code == 'result':
        k = okl(detail)
        return '(OResult %s)' % k if k else 'OOther'
    if code == 'list':
        ks = [okl(x) for x in detail]
        return '(OList [%s])' % ';'.join(ks) if all(ks) else 'OOther'
    if code == 'required':
        return '(ORequired %s)' % strl(detail)
    if code == 'notpermitted':
        return '(ONotPermitted %s)' % namesl(detail)
    return {'undefvar': 'OUndefVar', 'undeffun': 'OUndefFun', 'undefsuffix': 'OUndefSuffix', 'forbidden': 'OForbidden',
            'generic': 'OGeneric', 'parse': 'OParse', 'config': 'OConfig', 'missing': 'OMissing', 'summation': 'OSummation', 'dummy': 'ODummy',
            'other': 'OOther'}[code]


def cfg_term(cfg, obs, dflt_index):
    wl = cfg.get('whitelist', [])
    wlt = '[' + ';'.join('None' if w is None else '(Some %s)' % strl(w) for w in wl) + ']'
    return ('(mkCfg (dflt %d) %s %s %s %s %s %s %s %s %s %s %s)' %
            (dflt_index, namesl(cfg.get('user_functions', [])), wlt, namesl(cfg.get('blacklist', [])),
             namesl(cfg.get('required_functions', [])), namesl(cfg.get('forbidden_strings', [])),
             namesl(cfg.get('variables', [])), namesl(cfg.get('numbered_vars', [])), namesl(cfg.get('instructor_vars', [])),
             namesl(obs['constants']), namesl(obs['suffixes']),
             namesl(sorted({d for v in cfg.get('sample_from', {}).values()
                            if isinstance(v, tuple) and v and v[0] == 'dependent' for d in v[1]}))))


FIELDS = ['lower', 'upper', 'summand', 'summation_variable']


def expect_of(answers):
    """the comparer parameter of a single-alternative answer"""
    if isinstance(answers, (tuple, list)):
        answers = answers[0]
    return answers['expect'] if isinstance(answers, dict) else answers


def case_term(spec, obs, dflt_index):
    cfg = cfg_term(spec['cfg'], obs, dflt_index)
    perm = namesl([p for p in obs['permitted'] if isinstance(p, str)])
    out = obs_term(obs['code'], obs['detail'])
    samples, raws = obs['samples'], obs['raw']
    if spec['cls'] in ('Formula', 'Numerical', 'Matrix'):
        fobs = '(mkFObs %s %s)' % (rawl(raws[0] if raws else None), optnames(samples[0] if samples else None))
        return '(CF (mkF %s %s %s %s %s %s))' % (cfg, namesl([expect_of(spec['answers'])]), strl(spec['input']), fobs, perm, out)
    if spec['cls'] == 'List':
        boxes = []
        for i, (ans, inp) in enumerate(zip(spec['answers'], spec['input'])):
            fobs = '(mkFObs %s %s)' % (rawl(raws[i] if i < len(raws) else None), optnames(samples[i] if i < len(samples) else None))
            boxes.append('(mkLB %s %s %s %s)' % (strl('sibling_%d' % (i + 1)), namesl([ans]), strl(inp), fobs))
        return '(CL (mkL %s [%s] %s %s))' % (cfg, ';'.join(boxes), perm, out)
    entered = spec['entered']
    author = spec['answers']
    stud = dict(zip(entered, spec['input']))
    en = '(mkEntered %s)' % ' '.join('true' if k in entered else 'false' for k in FIELDS)
    au = '(mkSum %s)' % ' '.join(strl(author[k]) for k in FIELDS)
    st = '(mkSum %s)' % ' '.join(strl(stud.get(k, '')) for k in FIELDS)
    ranges = []
    table = {}
    for lo, hi, rg in obs['sums']:
        if rg == 'unreached':
            continue
        # the model runs one sample: limits refused in ANY sample of the implementation count as refused
        table[(lo, hi)] = None if (rg is None or table.get((lo, hi), 0) is None) else min(rg, 3)
    for (lo, hi), rg in table.items():
        ranges.append('(%s, %s, %s)' % (strl(lo), strl(hi), 'None' if rg is None else '(Some %d%%nat)' % rg))
    fobs = '(mkFObs %s %s)' % (rawl(raws[0] if raws else None), optnames(samples[0] if samples else None))
    return '(CS (mkS %s %s %s %s [%s] %s %s %s))' % (cfg, en, au, st, ';'.join(ranges), fobs, perm, out)


HEADER = r'''From Coq Require Import ZArith QArith List Bool.
From Verif.Model Require Import Result Lexer Parser Eval RestrictBase Restrict.
Import ListNotations.
Open Scope Z_scope.
Inductive iobs := OResult (ok : okv) | OList (oks : list okv) | OUndefVar | OUndefFun | OUndefSuffix | OForbidden
                | ORequired (f : str) | ONotPermitted (fs : names) | OParse | OConfig | OMissing | OSummation | ODummy
                | OGeneric | OOther.
Record fobs := mkFObs { fo_raw : option okv; fo_sample : option names }.
Definition same_set (a b : names) := forallb (fun x => mem x b) a && forallb (fun x => mem x a) b.
Definition opt_same (m : names) (o : option names) := match o with None => true | Some l => same_set m l end.
Fixpoint names_eqb (a b : names) : bool :=
  match a, b with [], [] => true | x :: a', y :: b' => str_eqb x y && names_eqb a' b' | _, _ => false end.
Fixpoint oks_eqb (a b : list okv) : bool :=
  match a, b with [], [] => true | x :: a', y :: b' => okv_eqb x y && oks_eqb a' b' | _, _ => false end.
Definition cmp_of (raw : option okv) : comparison :=
  fun _ => mkEntry (match raw with Some k => k | None => OkFalse end) 0 [].
(* raw = the verdict of raw_check observed on the implementation (None: raw_check raised) *)
Definition agree_out (raw : option okv) (m : gout) (o : iobs) : bool :=
  match m, o with
  | GResult e, OResult ok => match raw with Some k => okv_eqb k ok && okv_eqb (e_ok e) ok | None => false end
  | GResult _, OOther => match raw with None => true | Some _ => false end
  | GEvalError EUndefVar, OUndefVar | GEvalError EUndefFun, OUndefFun | GEvalError EUndefSuffix, OUndefSuffix => true
  | GInvalid VForbidden, OForbidden => true
  | GInvalid (VRequired f), ORequired g => str_eqb f g
  | GInvalid (VNotPermitted a), ONotPermitted b => names_eqb a b
  | GParseError _, OParse | GConfigError, OConfig | GMissingInput, OMissing | GSummationError, OSummation
  | GDummyVariable, ODummy | GGenericError, OGeneric => true
  | _, _ => false
  end.
Definition envn (c : rcfg) (sample : names) : env := name_env sample (func_scope c) (c_suffixes c).

Record fcase := mkF { f_cfg : rcfg; f_params : list str; f_input : str; f_obs : fobs; f_perm : names; f_out : iobs }.
Definition run_f (k : fcase) : Z :=
  let c := f_cfg k in
  match cfg_permitted c with
  | None => 1
  | Some P =>
    if negb (same_set P (f_perm k)) then 1 else
    let sample := sample_names c (used_variables (f_input k) ++ flat_map used_variables (f_params k)) [] in
    if negb (opt_same sample (fo_sample (f_obs k))) then 2 else
    let raw := fo_raw (f_obs k) in
    if agree_out raw (formula_check scope_eval c P None (f_params k) [] [envn c sample] (cmp_of raw) (f_input k)) (f_out k)
    then 0 else 3
  end.

Record lbox := mkLB { lb_key : str; lb_params : list str; lb_input : str; lb_obs : fobs }.
Record lcase := mkL { l_cfg : rcfg; l_boxes : list lbox; l_perm : names; l_out : iobs }.
Fixpoint forallb2 {A B} (f : A -> B -> bool) (a : list A) (b : list B) : bool :=
  match a, b with x :: a', y :: b' => f x y && forallb2 f a' b' | _, _ => true end.
Definition run_l (k : lcase) : Z :=
  let c := l_cfg k in
  match cfg_permitted c with
  | None => 1
  | Some P =>
    if negb (same_set P (l_perm k)) then 1 else
    let prelim := map (fun b => mkBox c (lb_key b) (lb_params b) None (lb_input b) [] (cmp_of (fo_raw (lb_obs b)))) (l_boxes k) in
    let sample_of (b : box) :=
      let sf := sibling_formulas_of prelim b in
      sample_names c (used_variables (b_input b) ++ flat_map (fun p => used_variables (snd p)) sf
                      ++ flat_map used_variables (b_params b)) (map fst sf) in
    let boxes := map (fun b => mkBox c (b_key b) (b_params b) None (b_input b) [envn c (sample_of b)] (b_compare b)) prelim in
    if negb (forallb2 (fun b lb => opt_same (sample_of b) (fo_sample (lb_obs lb))) prelim (l_boxes k)) then 2 else
    match ordered_list_check scope_eval boxes, l_out k with
    | inr es, OList oks => if oks_eqb (map e_ok es) oks then 0 else 3
    | inr _, OOther => if existsb (fun lb => match fo_raw (lb_obs lb) with None => true | _ => false end) (l_boxes k) then 0 else 3
    | inl g, o => if agree_out None g o then 0 else 3
    | _, _ => 3
    end
  end.

Record scase := mkS { s_cfg : rcfg; s_en : entered; s_auth : sumfields; s_stud : sumfields;
                      s_ranges : list (str * str * option nat); s_obs : fobs; s_perm : names; s_out : iobs }.
Definition code_is (v : option val) (s : str) : bool :=
  match v with Some (VS x) => Qeq_bool (re x) (inject_Z (str_code s)) | _ => false end.
Fixpoint lookup_range (tbl : list (str * str * option nat)) (lo hi : option val) : option (list val) :=
  match tbl with
  | [] => Some [code_val []]        (* limits the implementation accepted but never summed over (an error came first) *)
  | (l, h, n) :: r => if code_is lo l && code_is hi h
                      then match n with Some k => Some (repeat (code_val []) k) | None => None end
                      else lookup_range r lo hi
  end.
Definition run_s (k : scase) : Z :=
  let c := s_cfg k in
  match cfg_permitted c with
  | None => 1
  | Some P =>
    if negb (same_set P (s_perm k)) then 1 else
    let inp := structure_input (s_en k) (s_auth k) (s_stud k) in
    let au := s_auth k in
    let sample := sample_names c (flat_map used_variables [s_lower au; s_upper au; s_summand au; s_variable au;
                                                           s_lower inp; s_upper inp; s_summand inp; s_variable inp]) [] in
    if negb (opt_same sample (fo_sample (s_obs k))) then 2 else
    let raw := fo_raw (s_obs k) in
    let O := mkSumOracle (lookup_range (s_ranges k)) (fun _ => Some (code_val [])) in
    if agree_out raw (sum_check scope_eval c P O (s_en k) au (s_stud k) [envn c sample] (cmp_of raw)) (s_out k)
    then 0 else 3
  end.

Inductive ccase := CF (k : fcase) | CL (k : lcase) | CS (k : scase).
Definition run_case (k : ccase) : Z := match k with CF x => run_f x | CL x => run_l x | CS x => run_s x end.
'''

RUNNER = r'''
Fixpoint verif_codes (l : list ccase) (i : Z) : list (Z * Z) :=
  match l with
  | nil => nil
  | c :: r => let k := run_case c in if k =? 0 then verif_codes r (i + 1) else (i, k) :: verif_codes r (i + 1)
  end.
Eval vm_compute in (verif_codes verif_cases 0).
'''


def eval_cases(tag, terms, tables, shard):
    import re as _re
    head = HEADER + 'Definition dflt_tbl : list names :=\n  [%s].\nDefinition dflt (i : nat) : names := nth i dflt_tbl [].\n' % \
        ';\n   '.join(namesl(t) for t in tables)
    files = []
    for k in range(0, len(terms), shard):
        chunk = terms[k:k + shard]
        files.append(('%s_%04d' % (tag, k // shard),
                      head + 'Definition verif_cases : list ccase :=\n  [ %s ].\n' % '\n  ; '.join(chunk) + RUNNER))
    out = core.run_case_files(files)
    codes, errors = {}, []
    for (name, rc, txt), k in zip(out, range(0, len(terms), shard)):
        m = _re.search(r'=\s*(\[.*?\]|nil)\s*:\s*list \(Z \* Z\)', txt, _re.S)
        if rc != 0 or not m:
            errors.append((name, txt[-2000:]))
            continue
        for a, b in _re.findall(r'\((-?\d+),\s*(-?\d+)\)', m.group(1)):
            codes[k + int(a)] = int(b)
    return codes, errors


# =================================================================================================
# the property oracle (independent of the model: expectations are known by construction)
# =================================================================================================
ALLOWED_CLASSES = ('InvalidInput', 'InputTypeError', 'UndefinedVariable', 'UndefinedFunction')
UNDEFINED_CLASSES = ('UndefinedVariable', 'UndefinedFunction')


def credited(obs):
    return obs.get('code') in ('result', 'list') and all(g > 0 for g in obs.get('grades', [0]))


def judge(spec, obs, by_id):
    """returns None (property holds / case not applicable) or a description of the violation"""
    kind = spec['kind']
    if 'construct_error' in obs or 'harness_error' in obs:
        return None
    if kind == 'honest':
        # the author's own answers remain free to use all of these
        if spec.get('author_uses_restricted') and obs['exc'] in ALLOWED_CLASSES and obs['code'] in (
                'undefvar', 'undeffun', 'undefsuffix', 'forbidden', 'required', 'notpermitted'):
            return ('an answer free of restricted constructs is refused (%s: %s) because the AUTHOR\'s own answer uses them'
                    % (obs['exc'], obs['message']))
        return None
    if kind in ('control', 'baseline'):
        return None
    if spec.get('baseline') is not None:
        b = by_id[spec['baseline']]
        if 'code' in b and (b['code'], b['detail'] if b['code'] in ('result', 'list') else None) != \
                (obs['code'], obs['detail'] if obs['code'] in ('result', 'list') else None):
            return ('outcome depends on earlier submissions: %s %r after the history %r, but %s %r in a fresh interpreter'
                    % (obs['code'], obs['message'] or obs['detail'], obs.get('history'), b['code'], b['message'] or b['detail']))
    if kind == 'history-honest':
        return None
    h = by_id[spec['honest']]
    t = by_id[spec['twin']] if spec.get('twin') is not None else h
    if not credited(h) or not credited(t):
        return None                       # the honest part does not earn credit here: nothing is claimed
    if obs['code'] in ('result', 'list'):
        if spec['expect'] == 'invalid' and not any(g > 0 for g in obs.get('grades', [])):
            return None       # graded wrong (the validators only run on credited answers): not correct, not partially correct
        return ('cheating formula whose honest part (and harmless twin) earns credit was not refused with an error: '
                'returned %r with grades %r' % (obs['detail'], obs.get('grades')))
    want = UNDEFINED_CLASSES if spec['expect'] == 'undefined' else ALLOWED_CLASSES
    if spec['expect'] == 'refused':
        want = ALLOWED_CLASSES + ('SummationError',)
    if obs['exc'] not in want:
        return ('cheating formula raised %s (%s); the property demands %s' % (obs['exc'], obs['message'][:120], '/'.join(want)))
    return None


def witness_of(spec, obs, what):
    w = {'key': '%s|%r|%r|%r' % (spec['cls'], sorted((k, repr(v)) for k, v in spec['cfg'].items()), spec['answers'], spec['input']),
         'kind': spec['kind'], 'what': what, 'observed_class': obs.get('exc'), 'observed_message': obs.get('message'),
         'observed': [obs.get('code'), obs.get('detail')],
         'spec': {k: spec[k] for k in ('cls', 'cfg', 'answers', 'input', 'kind', 'expect') if k in spec},
         'grader_class': spec['cls'], 'config': repr(spec['cfg']), 'inputs': spec['input']}
    if spec.get('history'):
        w['spec']['history'] = spec['history']
        w['history_outcomes'] = obs.get('history')
    for k in ('term', 'box', 'shape', 'place', 'entered', 'author_field', 'corpus', 'last_failure', 'position', 'pair'):
        if k in spec:
            w[k] = spec[k]
    return w


# =================================================================================================
def run(ctx):
    res = core.Result()
    res.rule = ('one case per (grader class, configuration, author answer, student input); non-trivial = a cheating formula '
                '(honest answer (+) neutral term using a restricted construct) whose honest part AND harmless twin earn credit')
    specs = generate(ctx['seed'], ctx['tier'], ctx['escalate'])
    observations = observe_all(specs)
    by_id = {o['id']: o for o in observations}
    bad = [o for o in observations if 'harness_error' in o or 'construct_error' in o]
    for o in bad[:5]:
        res.corr_errors.append(('case %d' % o['id'], o.get('harness_error') or o.get('construct_error')))

    # ---- oracle on the implementation
    dist = {}
    for spec in specs:
        obs = by_id[spec['id']]
        if 'code' not in obs:
            continue
        res.oracle_evals += 1
        key = '%s/%s' % (spec['cls'], spec['kind'])
        dist[key] = dist.get(key, 0) + 1
        dist['outcome:' + obs['code']] = dist.get('outcome:' + obs['code'], 0) + 1
        what = judge(spec, obs, by_id)
        if what:
            res.witnesses.append(witness_of(spec, obs, what))
        if spec['kind'] not in ('honest', 'control', 'baseline', 'history-honest'):
            h, t = by_id[spec['honest']], by_id[spec['twin'] if spec.get('twin') is not None else spec['honest']]
            if credited(h) and credited(t):
                res.nontrivial.add((spec['cls'], repr(spec['cfg']), repr(spec['answers']), repr(spec['input'])))
            else:
                dist['cheats_without_credited_honest_or_twin'] = dist.get('cheats_without_credited_honest_or_twin', 0) + 1
        elif spec['kind'] == 'control' and not credited(obs):
            dist['controls_not_credited'] = dist.get('controls_not_credited', 0) + 1
        elif spec['kind'] == 'honest' and not credited(obs):
            dist['honest_not_credited'] = dist.get('honest_not_credited', 0) + 1
    res.distribution = dist
    every = [{'id': k} for k in (K_SIBLING, K_AUTHOR)]
    buckets = {}
    for w in res.witnesses:
        buckets.setdefault(classify_known(w, every) or '', []).append(w)
    ordered = buckets.pop('', [])
    while any(buckets.values()):
        for k in sorted(buckets):
            if buckets[k]:
                ordered.append(buckets[k].pop(0))
    res.witnesses = ordered
    dist['witnesses_by_finding'] = {}
    for w in ordered:
        k = classify_known(w, every) or 'UNCLASSIFIED'
        dist['witnesses_by_finding'][k] = dist['witnesses_by_finding'].get(k, 0) + 1

    # ---- correspondence: the model evaluated inside Coq on the same inputs and oracle answers
    tables, terms, metas = [], [], []
    for spec in specs:
        obs = by_id[spec['id']]
        if 'code' not in obs:
            continue
        d = obs['defaults']
        if d not in tables:
            tables.append(d)
        terms.append(case_term(spec, obs, tables.index(d)))
        metas.append(spec['id'])
    codes, errors = eval_cases('c09', terms, tables, shard=max(60, min(400, len(terms) // 16 + 1)))
    res.programs = len(terms)
    res.corr_errors += errors
    names = {1: 'permitted set', 2: 'keys of the sampled scope', 3: 'outcome'}
    for i, code in sorted(codes.items()):
        spec, obs = specs[metas[i]], by_id[metas[i]]
        res.disagreements.append({'differs_in': names.get(code, code), 'cls': spec['cls'], 'cfg': repr(spec['cfg']),
                                  'answers': spec['answers'], 'input': spec['input'], 'kind': spec['kind'],
                                  'implementation': [obs['code'], obs['detail']], 'samples': obs['samples'],
                                  'raw': obs['raw'], 'sums': obs.get('sums')})
    for spec in specs[:400:57]:
        obs = by_id[spec['id']]
        res.samples.append({'grader': spec['cls'], 'config': {k: v for k, v in spec['cfg'].items() if k != 'sample_from'},
                            'answers': spec['answers'], 'input': spec['input'], 'kind': spec['kind'],
                            'implementation': [obs.get('code'), obs.get('detail')], 'raw_check': obs.get('raw'),
                            'sampled_scope': obs.get('samples')})
    return res


# =================================================================================================
def classify_known(w, known):
    ids = {e.get('id') for e in known}
    spec = w.get('spec', {})
    msg = w.get('observed_message') or ''
    if (K_SIBLING in ids and spec.get('cls') == 'List' and w.get('observed_class') == 'ConfigError'
            and (msg.startswith('DependentSamplers depend on undefined quantities')
                 or msg.startswith('Circularly dependent DependentSamplers')
                 or msg.startswith('Formula error in dependent sampling formula'))
            and w.get('box') is not None and referenced_by_earlier(spec, w['box'])):
        return K_SIBLING
    if (K_AUTHOR in ids and spec.get('cls') == 'Sum' and w.get('kind') == 'honest'
            and len(w.get('entered', FIELDS)) < 4 and student_fields_clean(spec, w.get('entered', FIELDS))):
        return K_AUTHOR
    return None


def referenced_by_earlier(spec, box):
    """the input of this box is turned into a DependentSampler while a box graded no later than it is sampled: an earlier
    box's answer names its key, or a DependentSampler of sample_from depends on it (that one is sampled for every box,
    the first included)"""
    import re as _re
    key = 'sibling_%d' % (box + 1)
    answers = spec.get('answers', [])
    if any(_re.search(r'\b%s\b' % key, a) for a in answers[:box]):
        return True
    for v in spec.get('cfg', {}).get('sample_from', {}).values():
        if isinstance(v, (tuple, list)) and v and v[0] == 'dependent' and key in v[1]:
            return True
    return False


def student_fields_clean(spec, entered):
    """the refusal cannot come from what the student typed: the entered fields equal the author's"""
    return all(v == spec['answers'][k] for k, v in zip(entered, spec['input']))


def replay(w):
    spec = dict(w['spec'])
    spec['id'] = 0
    obs = observe(spec)
    text = 'grader %s(%s), answers %r, input %r -> %s %s %s' % (spec['cls'], spec['cfg'], spec['answers'], spec['input'],
                                                               obs.get('exc'), obs.get('code'), obs.get('message') or obs.get('detail'))
    if 'code' not in obs:
        return False, text
    same = (obs.get('exc') == w.get('observed_class')) and ([obs.get('code'), obs.get('detail')] == w.get('observed')
                                                              or obs.get('code') not in ('result', 'list'))
    if spec['kind'] == 'honest':
        bad = obs['code'] in ('undefvar', 'undeffun', 'undefsuffix', 'forbidden', 'required', 'notpermitted')
    elif obs['code'] in ('result', 'list'):
        bad = True
    else:
        want = UNDEFINED_CLASSES if spec.get('expect') == 'undefined' else ALLOWED_CLASSES
        if spec.get('expect') == 'refused':
            want = ALLOWED_CLASSES + ('SummationError',)
        bad = obs['exc'] not in want
    return bool(bad and same), text


LEVEL_TEXT = ('Theorems for every configuration, every formula string / parse tree of any size, any number of samples with any '
              'valuations, any comparer: the permitted set is exactly defaults-minus-blacklist / whitelist / nothing, plus user '
              'functions; a credited answer uses only permitted functions, all required ones and no forbidden string (spaces '
              'ignored); a restricted formula that would earn credit is refused with one of the three InvalidInput messages; a '
              'formula mentioning an instructor variable, a sibling key or any name that is not a declared variable, constant, '
              'numbered instance head_{n}, suffix or function is rejected by the scope check for every valuation, wherever the '
              'name occurs in the tree; the sampling loops give the author the full scope and the student the scrubbed one in '
              'every iteration; a clean formula is never refused because of what the author\'s answer contains. Stated on '
              'definitions regenerated from the source where the code is declarative, on a hand-written model (over the C03 '
              'parser/evaluator model) tied by differential correspondence otherwise.')
LEVEL_NOTE = ('Two places where the faithful model and the real code still violate the full statement are kept as refuted '
              'examples and impl-level witnesses found on every run (both recorded as known findings): an earlier list box that '
              'references the offending box reports ConfigError instead of the undefined-name error; SumGrader validates the '
              'author\'s own non-entered fields as student input. Two former findings were repaired in /repo (empty summation '
              'range, message formatting of check_scope); their witnesses are ordinary regression cases now. IntegralGrader '
              '(needs scipy) is covered by the regenerated loop order only. Numeric evaluation and comparison are oracles; '
              'trusted: Coq kernel, translate/restrict.py, harness/props/c09.py; no axioms.')
TECHNIQUE = ('Coq proof (induction over trees, lists of boxes and sample iterations; set/substring specifications) + '
             'source-to-Gallina translator + vm_compute correspondence running the model\'s own check functions')
DESIGN_REF = 'DESIGN.md section 3, C09'
