"""c20_tables.py -- the documented option domains of the public configurable classes of mitxgraders, written from
the class docstrings and docs/*.md (NOT from the schemas): per option the documented default, a pool of in-domain
values with the normal form the configuration must expose for them, and a pool of out-of-domain values
(wrong type, out of range, wrong length).  Cross-option rules are separate predicates.

Values whose membership the documentation leaves open (True/False where an int is asked for, 1.0 where the
literal 1 is listed, complex where a 'number' is asked for without an order constraint) are in NEITHER pool.
"""
from fractions import Fraction  # noqa


class Dom:
    def __init__(self, good, bad, norm=None, name='', canon=None):
        self.good, self.bad, self.norm, self.name = list(good), list(bad), norm, name
        self.canon = canon      # applied to BOTH the exposed and the expected value before comparing

    def normal(self, v):
        return v if self.norm is None else self.norm(v)


REQUIRED = ('<required>',)     # no default: must be supplied
ABSENT = ('<absent>',)         # optional without default: not in the configuration when omitted
DERIVED = ('<derived>',)       # the exposed value is computed from other options (documented): not compared


class Opt:
    def __init__(self, default, dom, derived_when_given=False, expected=None):
        self.default, self.dom, self.derived_when_given = default, dom, derived_when_given
        self.expected = expected    # expected(full config: documented defaults + supplied) -> exposed value


class Table:
    def __init__(self, cls, options, base=None, rules=None, is_grader=False, dict_config=True, notes=''):
        self.cls, self.options, self.base = cls, options, dict(base or {})
        self.rules = rules or (lambda cfg, full: True)
        self.is_grader, self.dict_config = is_grader, dict_config


def build():
    """Build the tables (imports mitxgraders lazily so that VERIF_REPO is honoured)."""
    import mitxgraders as M
    from mitxgraders.comparers import LinearComparer, equality_comparer
    from mitxgraders.helpers.calc import MathArray

    def f1(x):
        return x

    def f2(x, y):
        return x + y

    def cmp3(a, b, c):
        return True

    WRONG = [None, 'zzz', 7, 2.5, [1], {'a': 1}]

    def wrong_but(*types):
        return [w for w in WRONG if not isinstance(w, types) or isinstance(w, bool)]

    BOOL = Dom([True, False], [None, 'yes', 2, 0, 1, 0.5, []], name='bool')
    LIT_TRUE = Dom([True], [False, None, 'yes', 0, []], name='True')
    LIT_FALSE = Dom([False], [True, None, 'no', []], name='False')
    POS_INT = Dom([1, 2, 7, 50], [0, -1, 1.5, 2.0, '1', None, [1]], name='positive int')
    NONNEG_INT = Dom([0, 1, 3, 100], [-1, -5, 0.5, 1.0, '0', None, [0]], name='non-negative int')
    INT_GE2 = Dom([2, 3, 5], [1, 0, -2, 2.5, 3.0, '2', None, [2]], name='int >= 2')
    STR = Dom(['', 'abc', 'two words', 'été'], [None, 5, ['a'], True, 1.5, {'a': 'b'}], name='str')
    # (supersets of the default brackets, so that every interval in the answers pool stays readable)
    STR1 = Dom(['[(', '([{<', '(['], ['', None, 5, ['['], True], name='non-empty str')
    STR1C = Dom(['])', ')]}>', ')]'], ['', None, 5, [']'], True], name='non-empty str')
    DELIM = Dom([','], [None, 5, [','], True], name='str')
    OPT_STR = Dom([None, 'a+', r'\d+'], [5, ['a'], True, 1.5], name='str or None')
    EXPLAIN = Dom(['err', 'msg', None], ['error', 'ERR', 5, True, ['err']], name="'err'|'msg'|None")
    NUMBER = Dom([0, 1, -3, 0.5, 10.25], ['1', None, [1], {'a': 1}], name='number')
    POS_NUMBER = Dom([1, 0.5, 10, 1000.0], [0, 0.0, -1, -0.5, '1', None, [1], 1j], name='positive number')
    UNIT_OR_NONE = Dom([None, 0, 1, 0.5, 0.25, 1.0, 0.0], [-0.5, 1.5, 2, -1, 'a', [0.5], {'a': 1}], name='None or [0,1]')
    UNIT_FLOAT = Dom([0.2, 0.0, 1.0, 0.5, 0, 1, 0.75], [-0.1, 1.5, 2, -1, 'a', None, [0.5]], name='float in [0,1], 0 or 1')

    def tol_norm(v):
        if isinstance(v, str):
            return '%s%%' % float(v.strip()[:-1])
        return v
    TOLERANCE = Dom(['0.01%', '5%', '0%', '2.5%', 0, 0.1, 5, 1e-12],
                    [-1, -0.5, '-1%', 'abc', '5', None, [1], {'a': 1}, 1j], norm=tol_norm, name='tolerance')
    STR_LIST = Dom([[], ['a'], ['a', 'b']], ['a', [1], None, ('a',), {'a': 1}, ['a', None]], name='[str]')
    FUNC_NAMES = Dom([[], ['sin'], ['sin', 'cos']], ['sin', [1], None, ('sin',), ['sin', 2]], name='[function name]')
    WHITELIST = Dom([[], ['sin'], ['sin', 'cos'], [None]], ['sin', [1], None, ('sin',), [None, 'sin'], [None, None]],
                    name='[function name] or [None]')
    VARS = Dom([[], ['x'], ['x', 'y'], ['a', 'b', 'c']], [['x', 'x'], 'x', [1], None, ('x',), ['x', None]],
               name='unique [str]')
    EMPTY_LIST = Dom([[]], [['x'], 'x', None, 5, ('x',), {'a': 1}], name='[] only')
    EMPTY_DICT = Dom([{}], [{'x': [1, 2]}, [], None, 5, 'a'], name='{} only')
    LIT_ONE = Dom([1], [0, 2, 5, -1, 'a', None, [1], 1.5], name='1 only')
    LIT_ZERO = Dom([0], [1, 2, -1, 'a', None, [0], 0.5], name='0 only')
    CREDIT = Dom([None, f1, M.LinearCredit(), M.ReciprocalCredit()], ['a', 5, [f1], {'f': f1}, 1.5],
                 name='None or function')
    EVEN_ODD = Dom([0, 1, 2], [3, -1, 'a', None, 0.5, [0]], name='0|1|2')
    USER_FUNCS = Dom([{}, {'f': f1}, {'g': f2, 'h': f1}, {'f': M.RandomFunction()}],
                     [{'f': 5}, {'f': 'sin'}, {1: f1}, [f1], None, 'f', {'f': None}], norm=None, name='{name: function}')
    USER_FUNCS.norm = None
    USER_FUNCS_NR = Dom([{}, {'f': f1}, {'g': f2, 'h': f1}], [{'f': 5}, {'f': 'sin'}, {1: f1}, [f1], None, 'f',
                                                              {'f': [f1, f1]}],
                        name='{name: function} (no random functions)')
    # a constant given the value None removes the default constant of that name (documented: docs/grading_math/
    # formula_grader.md); such entries are not part of the exposed configuration, whatever name they carry:
    # (a) default constants i, j, e, pi   (b) names that are not default constants (fresh names, names that are also
    # declared variables / numbered-variable heads, 'infty' without allow_inf) -- alone and mixed with real constants
    USER_CONSTS = Dom([{}, {'c': 3}, {'c': 3e8, 'hbar': 1.5}, {'i': None, 'c': 2}, {'i': None, 'j': None}, {'pi': None, 'e': None, 'g': 9.8},
                       {'c': None}, {'c': None, 'g': 9.8}, {'x': None, 'g': 9.8}, {'pi': None, 'c': None, 'g': 1.5}, {'infty': None},
                       {'n': None, 'x': None}],
                      [{'c': 'a'}, {1: 2}, [1], None, 'c', {'c': [1, 2]}, {'c': None, 'g': 'a'}],
                      norm=lambda v: {k: x for k, x in v.items() if x is not None}, name='{name: number or None}')

    def nr_norm(v):
        if isinstance(v, list):
            return {'start': v[0], 'stop': v[1]}
        d = {'start': 1, 'stop': 5}
        d.update(v)
        return d
    NUMBER_RANGE = Dom([[1, 3], [3, 1], {'start': 0, 'stop': 2}, {'start': 2}, [0.5, 2.5], [-2, -1]],
                       [[1], [1, 2, 3], 'ab', ['a', 'b'], {'start': 'a'}, {'begin': 1}, 5, None, (1, 2), [1j, 2]],
                       norm=nr_norm, name='[start, stop] or {start, stop}')

    def shape_norm(v):
        return (v,) if isinstance(v, int) else tuple(v)
    VEC_SHAPE = Dom([3, (3,), [3], 1, (7,)], [0, -1, (2, 3), [2, 3], 'a', None, 2.5, (0,), (), [1.5]],
                    norm=shape_norm, name='vector shape')
    MAT_SHAPE = Dom([(2, 3), [2, 3], (1, 1), [4, 2]], [3, (2,), (2, 3, 4), 'ab', (0, 2), None, [2, 2.5], (2, -3)],
                    norm=shape_norm, name='matrix shape')
    TEN_SHAPE = Dom([(2, 2, 2), [2, 3, 4], (2, 2, 2, 2)], [(2, 2), 3, [2], 'abc', None, (2, 0, 2), (2, 2, 2.5)],
                    norm=shape_norm, name='tensor shape')
    TRIANGULAR = Dom([None, 'upper', 'lower'], ['diag', 'Upper', 5, True, ['upper']], name="None|'upper'|'lower'")
    SYMMETRY = Dom([None, 'diagonal', 'symmetric', 'antisymmetric', 'hermitian', 'antihermitian'],
                   ['unitary', 'Symmetric', 5, True, ['symmetric']], name='symmetry')
    DETERMINANT = Dom([None, 0, 1], [2, -1, 'a', 0.5, [0]], name='None|0|1')

    def sampler_norm(v):
        return M.RealInterval(v) if isinstance(v, list) else v
    SCALAR_SAMPLER = Dom([M.RealInterval(), M.IntegerRange([1, 4]), M.ComplexRectangle(), [1, 3], [4, 2]],
                         ['a', 5, None, M.DiscreteSet((1, 2)), (1, 3)], norm=sampler_norm,
                         name='ScalarSamplingSet or [start, stop]')

    # ---- answers of item graders -------------------------------------------------------------
    def ok_of(g):
        return {0: False, 1: True}.get(g, 'partial')

    def canon_answers(expect_norm):
        def one(a):
            if isinstance(a, dict) and 'expect' in a:
                g = a.get('grade_decimal', 1)
                ok = a.get('ok', 'computed')
                if ok == 'computed' or g != 1:
                    ok = ok_of(g)
                e = a['expect']
                e = e if isinstance(e, tuple) else (e,)
                return {'expect': tuple(expect_norm(x) for x in e), 'grade_decimal': g, 'msg': a.get('msg', ''), 'ok': ok}
            return {'expect': (expect_norm(a),), 'grade_decimal': 1, 'msg': '', 'ok': True}

        def norm(v):
            v = v if isinstance(v, tuple) else (v,)
            return tuple(one(a) for a in v)
        return norm

    STR_ANSWERS = Dom(
        [(), 'cat', {'expect': 'cat'}, {'expect': 'cat', 'grade_decimal': 0.5, 'msg': 'half'}, ('cat', 'dog'),
         ('cat', {'expect': 'dog', 'grade_decimal': 0.3}), {'expect': ('a', 'b')},
         ({'expect': ('a', 'b'), 'ok': 'partial'},), {'expect': 'z', 'grade_decimal': 0},
         {'expect': 'y', 'ok': False}, {'expect': 'w', 'ok': True, 'grade_decimal': 0.25},
         ({'expect': 'a', 'grade_decimal': 1, 'msg': 'yes', 'ok': 'computed'}, 'b', {'expect': ('c',), 'grade_decimal': 0.75})],
        [5, None, {'expect': 5}, {'grade_decimal': 0.5}, {'expect': 'a', 'grade_decimal': 2},
         {'expect': 'a', 'grade_decimal': -0.1}, {'expect': 'a', 'ok': 'maybe'}, {'expect': 'a', 'msg': 5},
         {'expect': 'a', 'bogus': 1}, ['a'], ('a', 5), {'expect': 'a', 'grade_decimal': 'x'}, {'expect': ('a', 5)}],
        norm=canon_answers(lambda x: x), name='answers (strings)')

    def fexp(x):
        if isinstance(x, dict):
            return x
        return {'comparer': equality_comparer, 'comparer_params': [x]}
    lincomp = LinearComparer()
    FORMULA_ANSWERS = Dom(
        [(), 'x+1', {'expect': 'x+1'}, {'expect': '2*x', 'grade_decimal': 0.5, 'msg': 'half'}, ('1', '2'),
         ('1', {'expect': '2', 'grade_decimal': 0.3}), {'expect': ('1', '2')},
         {'expect': {'comparer_params': ['1', '2'], 'comparer': cmp3}},
         {'comparer_params': ['1'], 'comparer': cmp3},
         {'expect': {'comparer_params': ['x'], 'comparer': lincomp}, 'grade_decimal': 1},
         ('3', {'comparer_params': ['1'], 'comparer': cmp3})],
        [5, None, {'expect': 5}, {'grade_decimal': 0.5}, {'expect': '1', 'grade_decimal': 2},
         {'expect': '1', 'ok': 'maybe'}, {'expect': '1', 'bogus': 1}, ['1'], ('1', 5),
         {'comparer_params': ['1'], 'comparer': f1}, {'comparer_params': '1', 'comparer': cmp3},
         {'comparer_params': ['1']}, {'comparer_params': [1], 'comparer': cmp3}],
        norm=canon_answers(fexp), name='answers (formulas)')

    MATRIX_ANSWERS = Dom(
        [(), '[1,2]', {'expect': '[1,2]'}, {'expect': '[[1,0],[0,1]]', 'grade_decimal': 0.5}, ('[1,2]', '[2,1]')],
        [5, None, {'expect': 5}, ['[1,2]'], {'expect': '[1,2]', 'grade_decimal': 2}],
        norm=canon_answers(fexp), name='answers (matrix formulas)')

    # dictionary answers with an EXPLICIT ok: documented rule -- ok is ignored unless grade_decimal == 1
    def ok_grade(expect):
        return [{'expect': expect, 'ok': ok, 'grade_decimal': g}
                for ok in (True, False, 'partial', 'computed') for g in (0, 0.0, 0.5, 1, 1.0)]
    STR_ANSWERS.good += ok_grade('cat')
    FORMULA_ANSWERS.good += ok_grade('x+1')
    MATRIX_ANSWERS.good += ok_grade('[1,2]')

    sg = M.StringGrader()
    fg = M.FormulaGrader()
    ng = M.NumericalGrader()

    # ---- the abstract grader options shared by every grader -----------------------------------
    def grader_common():
        return {
            'debug': Opt(False, BOOL),
            'suppress_warnings': Opt(False, BOOL),
            'attempt_based_credit': Opt(None, CREDIT),
            'attempt_based_credit_msg': Opt(True, BOOL),
        }

    def sample_from_expected(full):
        out = {}
        for v in list(full['variables']) + list(full['numbered_vars']):
            x = full['sample_from'].get(v, M.RealInterval())
            if isinstance(x, list):
                x = M.RealInterval(x)
            elif not isinstance(x, M.sampling.VariableSamplingSet):
                x = M.DiscreteSet(x)
            out[v] = x
        return out

    def math_common(user_funcs=USER_FUNCS, tolerance='0.01%', samples=5):
        return {
            'user_functions': Opt({}, user_funcs),
            'user_constants': Opt({}, USER_CONSTS),
            'blacklist': Opt([], FUNC_NAMES),
            'whitelist': Opt([], WHITELIST),
            'tolerance': Opt(tolerance, TOLERANCE),
            'samples': Opt(samples, POS_INT),
            'variables': Opt([], VARS),
            'numbered_vars': Opt([], Dom([[], ['n'], ['n', 'm']], [['n', 'n'], 'n', [1], None, ('n',)], name='unique [str]')),
            'sample_from': Opt({}, Dom([{}], [[], None, 5, 'a', {'q': [1, 2]}], name='dict over declared variables'),
                               expected=sample_from_expected),
            'failable_evals': Opt(0, NONNEG_INT),
            'forbidden_strings': Opt([], STR_LIST),
            'forbidden_message': Opt('Invalid Input: This particular answer is forbidden', STR),
            'metric_suffixes': Opt(False, BOOL),
            'required_functions': Opt([], STR_LIST),
            'instructor_vars': Opt([], STR_LIST),
        }

    def math_rules(cls):
        def rules(cfg, full):
            dfuncs = set(cls.default_functions)
            dvars = set(cls.default_variables)
            if full.get('allow_inf'):
                dvars.add('infty')
            if cls in (M.IntegralGrader, M.SumGrader):
                dvars = set(cls.default_variables)
            if full['blacklist'] and full['whitelist']:
                return False
            if any(f not in dfuncs for f in full['blacklist']):
                return False
            if full['whitelist'] != [None] and any(f not in dfuncs for f in full['whitelist']):
                return False
            uc = dict(full['user_constants'])
            for k in [k for k in uc if uc[k] is None]:
                dvars.discard(k)
                del uc[k]
            if not full['suppress_warnings']:
                if dvars & set(full['variables']) or dvars & set(full['numbered_vars']) or dvars & set(uc) \
                        or dfuncs & set(full['user_functions']):
                    return False
            if set(full['variables']) & set(uc):
                return False
            if not set(full['sample_from']) <= set(full['variables']) | set(full['numbered_vars']):
                return False
            return True
        return rules

    T = {}

    T['StringGrader'] = Table(M.StringGrader, dict(grader_common(), **{
        'answers': Opt((), STR_ANSWERS),
        'wrong_msg': Opt('', STR),
        'case_sensitive': Opt(True, BOOL), 'strip': Opt(True, BOOL), 'strip_all': Opt(False, BOOL),
        'clean_spaces': Opt(True, BOOL), 'accept_any': Opt(False, BOOL), 'accept_nonempty': Opt(False, BOOL),
        'min_length': Opt(0, NONNEG_INT), 'min_words': Opt(0, NONNEG_INT),
        'explain_minimums': Opt('err', EXPLAIN), 'validation_pattern': Opt(None, OPT_STR),
        'explain_validation': Opt('err', EXPLAIN),
        'invalid_msg': Opt('Your input is not in the expected format', STR),
    }), is_grader=True)

    formula_opts = dict(grader_common(), **math_common())
    formula_opts.update({
        'answers': Opt((), FORMULA_ANSWERS),
        'wrong_msg': Opt('', STR),
        'allow_inf': Opt(False, BOOL),
        'max_array_dim': Opt(0, NONNEG_INT),
    })
    T['FormulaGrader'] = Table(M.FormulaGrader, formula_opts, rules=math_rules(M.FormulaGrader), is_grader=True)

    num_opts = dict(grader_common(), **math_common(user_funcs=USER_FUNCS_NR, tolerance='5%', samples=1))
    num_opts.update({
        'answers': Opt((), Dom([(), '3', {'expect': '3.5'}, ('1', '2'), {'expect': '2', 'grade_decimal': 0.5}],
                              [5, None, {'expect': 5}, ['1'], {'expect': '1', 'grade_decimal': 2}],
                              norm=canon_answers(fexp), name='answers (numbers)')),
        'wrong_msg': Opt('', STR),
        'allow_inf': Opt(False, BOOL),
        'max_array_dim': Opt(0, NONNEG_INT),
        'samples': Opt(1, LIT_ONE),
        'variables': Opt([], EMPTY_LIST),
        'numbered_vars': Opt([], EMPTY_LIST),
        'sample_from': Opt({}, EMPTY_DICT),
        'failable_evals': Opt(0, LIT_ZERO),
    })
    num_opts['answers'].dom.good += ok_grade('3')
    T['NumericalGrader'] = Table(M.NumericalGrader, num_opts, rules=math_rules(M.NumericalGrader), is_grader=True)

    mat_opts = dict(formula_opts)
    mat_opts.update({
        'answers': Opt((), MATRIX_ANSWERS),
        'identity_dim': Opt(None, Dom([None, 0, 2, 3], [-1, 1.5, 'a', [2]], name='None or non-negative int')),
        'max_array_dim': Opt(1, Dom([None, 0, 1, 2], [-1, 1.5, 'a', [2]], name='None or non-negative int')),
        'negative_powers': Opt(True, BOOL), 'shape_errors': Opt(True, BOOL),
        'suppress_matrix_messages': Opt(False, BOOL),
        'answer_shape_mismatch': Opt({'is_raised': True, 'msg_detail': 'type'},
                                     Dom([{'is_raised': False}, {'msg_detail': 'shape'}, {'msg_detail': None},
                                          {'is_raised': True, 'msg_detail': 'type'}, {}],
                                         [{'is_raised': 'no'}, {'msg_detail': 'all'}, {'bogus': 1}, [], None, 'type'],
                                         norm=lambda v: dict({'is_raised': True, 'msg_detail': 'type'}, **v),
                                         name='shape mismatch dict')),
        'entry_partial_credit': Opt(ABSENT, Dom([0.5, 'proportional', 0, 1, 0.25], ['some', None, -0.5, 1.5, [0.5]],
                                                name="number in [0,1] or 'proportional'")),
        'entry_partial_msg': Opt(ABSENT, Dom(['', 'Some entries are wrong'], [None, 5, ['a']], name='str')),
        'allow_inf': Opt(False, LIT_FALSE),
    })
    T['MatrixGrader'] = Table(M.MatrixGrader, mat_opts, rules=math_rules(M.MatrixGrader), is_grader=True)

    # ---- list graders -----------------------------------------------------------------------
    def list_answers_norm(sub_norm):
        def norm(v):
            if v == []:
                return ()
            v = v if isinstance(v, tuple) else (v,)
            return tuple([sub_norm(a) for a in lst] for lst in v)
        return norm
    LIST_ANSWERS = Dom(
        [['cat', 'dog'], ['a', 'b', 'c'], (['a', 'b'], ['c', 'd']), [{'expect': 'a', 'grade_decimal': 0.5}, ('b', 'c')],
         [('a', 'b'), {'expect': ('c', 'd'), 'msg': 'm'}], (['a', 'b'],)],
        ['cat', 5, None, ['cat'], (['a', 'b'], ['c']), ('a', 'b'), {'a': 1}, [5, 'a'], ['a', {'expect': 5}]],
        norm=list_answers_norm(canon_answers(lambda x: x)), name='list of answers / tuple of lists')
    LIST_ANSWERS.good += [[a, 'b'] for a in ok_grade('a')]
    SUBGRADERS = Dom([sg, M.StringGrader(case_sensitive=False), fg], ['a', None, 5, ['a'], [sg, 5], M.RealInterval()],
                     name='grader or list of graders')

    def list_rules(cfg, full):
        subs, answers, ordered, grouping = full['subgraders'], full['answers'], full['ordered'], full['grouping']
        lists = [] if answers == [] else (list(answers) if isinstance(answers, tuple) else [answers])
        if isinstance(subs, list) and lists:
            if len(subs) != len(lists[0]) or not ordered:
                return False
        if grouping:
            if set(grouping) != set(range(1, max(grouping) + 1)):
                return False
            sizes = [grouping.count(k) for k in range(1, max(grouping) + 1)]
            if isinstance(subs, list):
                if len(sizes) != len(subs):
                    return False
                if any(n > 1 and not isinstance(s, M.ListGrader) for n, s in zip(sizes, subs)):
                    return False
            elif not isinstance(subs, M.ListGrader):
                return False
            if not ordered and len(set(sizes)) > 1:
                return False
        return True
    T['ListGrader'] = Table(M.ListGrader, dict(grader_common(), **{
        'ordered': Opt(False, BOOL),
        'partial_credit': Opt(True, BOOL),
        'subgraders': Opt(REQUIRED, SUBGRADERS),
        'grouping': Opt([], Dom([[]], [[0], [-1, 1], [1.5], 'a', None, 5, ['1']], name='[positive int]')),
        'answers': Opt([], LIST_ANSWERS, expected=lambda full: list_answers_norm(
            canon_answers(fexp if isinstance(full['subgraders'], M.FormulaGrader) else (lambda x: x)))(full['answers'])),
    }), base={'subgraders': sg}, rules=list_rules, is_grader=True)

    def sl_norm(v):
        # 'a, b' strings are split at the delimiter (default ','), then each item goes through the subgrader
        can = canon_answers(lambda x: x)

        def exp(x):
            items = x.split(',') if isinstance(x, str) else x
            return [can(i) for i in items]
        return canon_answers(exp)(v)
    SL_ANSWERS = Dom(
        [(), ['a', 'b'], 'a,b', (['a', 'b'], ['c', 'd']), {'expect': ['a', 'b'], 'grade_decimal': 0.5},
         {'expect': (['a', 'b'], 'c,d')}, ['a', ('b', 'c')], ['a']],
        [5, None, [], (['a', 'b'], ['c']), {'expect': 5}, ['a', 5], {'expect': ['a', 'b'], 'grade_decimal': 2},
         {'expect': (['a', 'b'], ['c'])}],
        norm=sl_norm, name='list answers in one box')

    SL_ANSWERS.good += ok_grade(['a', 'b'])

    def sl_rules(cfg, full):
        seen = [full['delimiter']]
        sub = full['subgrader']
        while isinstance(sub, M.SingleListGrader):
            if sub.config['delimiter'] in seen:
                return False
            seen.append(sub.config['delimiter'])
            sub = sub.config['subgrader']
        return True
    T['SingleListGrader'] = Table(M.SingleListGrader, dict(grader_common(), **{
        'answers': Opt((), SL_ANSWERS),
        'wrong_msg': Opt('', STR),
        'ordered': Opt(False, BOOL), 'length_error': Opt(False, BOOL), 'missing_error': Opt(True, BOOL),
        'delimiter': Opt(',', Dom([','], [None, 5, [','], True], name='str')),
        'partial_credit': Opt(True, BOOL),
        'subgrader': Opt(REQUIRED, Dom([sg, M.StringGrader(strip=False)], ['a', None, 5, [sg], M.ListGrader(subgraders=sg),
                                                                       M.RealInterval()], name='ItemGrader')),
    }), base={'subgrader': sg}, rules=sl_rules, is_grader=True)

    default_interval_sub = M.NumericalGrader(tolerance=1e-13, allow_inf=True)
    T['IntervalGrader'] = Table(M.IntervalGrader, dict(grader_common(), **{
        'answers': Opt((), Dom([(), '[1,2)', '(0, 1]', ['[', '1', '2', ')'], ('[1,2)', '(1,2]'),
                               {'expect': '[1,2]', 'grade_decimal': 0.5}],
                              [5, None, '1,2', ['[', '1', '2'], '{1,2}', ['[', '', '2', ')']], norm=None, name='interval')),
        'wrong_msg': Opt('', STR),
        'ordered': Opt(True, LIT_TRUE), 'length_error': Opt(True, LIT_TRUE), 'missing_error': Opt(True, LIT_TRUE),
        'delimiter': Opt(',', DELIM),
        'partial_credit': Opt(True, BOOL),
        'subgrader': Opt(default_interval_sub, Dom([None, fg, ng], ['a', 5, sg, [fg]],
                                                   norm=lambda v: default_interval_sub if v is None else v,
                                                   name='FormulaGrader or None')),
        'opening_brackets': Opt('[(', STR1), 'closing_brackets': Opt('])', STR1C),
    }), is_grader=True)

    # ---- integral / sum ---------------------------------------------------------------------
    int_answers = {'lower': '0', 'upper': '1', 'integrand': 'x^2', 'integration_variable': 'x'}
    sum_answers = {'lower': '1', 'upper': '5', 'summand': 'n', 'summation_variable': 'n'}

    def positions_dom(keys):
        k = keys
        good = [{k[0]: 1, k[1]: 2, k[2]: 3, k[3]: 4}, {k[0]: 1, k[1]: 2, k[2]: 3}, {k[2]: 1}, {k[3]: 2, k[2]: 1},
                {k[0]: None, k[2]: 1}]
        bad = [{k[0]: 0}, {k[0]: 1.5}, {'bogus': 1}, [1, 2], None, 'lower', {k[0]: 'a'}]

        def norm(v):
            d = {x: None for x in k}
            d.update(v)
            return d
        return Dom(good, bad, norm=norm, name='input positions')

    def positions_rules(key_names):
        def rules(cfg, full):
            pos = [v for v in full['input_positions'].values() if v is not None]
            if len(pos) != len(set(pos)) or set(pos) != set(range(1, len(pos) + 1)):
                return False
            return True
        return rules

    def both(r1, r2):
        return lambda cfg, full: r1(cfg, full) and r2(cfg, full)

    def answers_dict_dom(good, keys):
        bad = [{k: good[k] for k in keys[:3]}, dict(good, bogus='1'), dict(good, **{keys[0]: 5}), 'x', None, [good], 5]
        return Dom([good, dict(good, **{keys[0]: 'a'})], bad, name='answers dict')

    ikeys = ['lower', 'upper', 'integrand', 'integration_variable']
    int_opts = dict(grader_common(), **math_common(samples=1))
    int_opts.update({
        'answers': Opt(REQUIRED, answers_dict_dom(int_answers, ikeys)),
        'input_positions': Opt({'lower': 1, 'upper': 2, 'integrand': 3, 'integration_variable': 4}, positions_dom(ikeys)),
        'integrator_options': Opt({'full_output': 1}, Dom([{}, {'full_output': 1}, {'limit': 100}, {'epsabs': 1e-9, 'limit': 50}],
                                                          [{'full_output': 0}, [], None, 'a', 5],
                                                          norm=lambda v: dict({'full_output': 1}, **v), name='quad options')),
        'complex_integrand': Opt(False, BOOL),
    })
    T['IntegralGrader'] = Table(M.IntegralGrader, int_opts, base={'answers': int_answers},
                                rules=both(math_rules(M.IntegralGrader), positions_rules(ikeys)), is_grader=True)

    skeys = ['lower', 'upper', 'summand', 'summation_variable']
    sum_opts = dict(grader_common(), **math_common(samples=2, tolerance=1e-12))
    sum_opts.update({
        'answers': Opt(REQUIRED, answers_dict_dom(sum_answers, skeys)),
        'input_positions': Opt({'lower': 1, 'upper': 2, 'summand': 3, 'summation_variable': 4}, positions_dom(skeys)),
        'infty_val': Opt(1e3, POS_NUMBER), 'infty_val_fact': Opt(80, POS_NUMBER), 'even_odd': Opt(0, EVEN_ODD),
    })
    T['SumGrader'] = Table(M.SumGrader, sum_opts, base={'answers': sum_answers},
                           rules=both(math_rules(M.SumGrader), positions_rules(skeys)), is_grader=True)

    # ---- sampling sets ----------------------------------------------------------------------
    # start and stop are put in order by the constructor (documented: "Lower end" / "Upper end")
    lo = lambda full: min(full['start'], full['stop'])      # noqa
    hi = lambda full: max(full['start'], full['stop'])      # noqa
    T['RealInterval'] = Table(M.RealInterval, {
        'start': Opt(1, Dom([0, 2, -1.5, 7], ['a', None, [1], 1j], name='number'), expected=lo),
        'stop': Opt(5, Dom([6, 5.5, 100, 0], ['a', None, [1]], name='number'), expected=hi),
    })
    T['IntegerRange'] = Table(M.IntegerRange, {
        'start': Opt(1, Dom([0, 2, -3, 8], ['a', None, [1], 1.5, 2.0], name='int'), expected=lo),
        'stop': Opt(5, Dom([6, 9, 100, -1], ['a', None, [1], 5.5], name='int'), expected=hi),
    })
    T['ComplexRectangle'] = Table(M.ComplexRectangle, {
        're': Opt({'start': 1, 'stop': 3}, NUMBER_RANGE), 'im': Opt({'start': 1, 'stop': 3}, NUMBER_RANGE)})
    import math
    T['ComplexSector'] = Table(M.ComplexSector, {
        'modulus': Opt({'start': 1, 'stop': 3}, NUMBER_RANGE),
        'argument': Opt({'start': 0, 'stop': math.pi / 2}, NUMBER_RANGE)})
    T['RandomFunction'] = Table(M.RandomFunction, {
        'input_dim': Opt(1, POS_INT), 'output_dim': Opt(1, POS_INT), 'num_terms': Opt(3, POS_INT),
        'center': Opt(0, NUMBER), 'amplitude': Opt(10, POS_NUMBER), 'complex': Opt(False, BOOL)})
    T['DependentSampler'] = Table(M.DependentSampler, {
        'depends': Opt(DERIVED, Dom([None, ['x'], [], ['x', 'y']], ['x', [1], 5, ('x',)], name='[str] or None'),
                       derived_when_given=True),
        'formula': Opt(REQUIRED, Dom(['x+1', 'sin(x)*y', '2'], [None, 5, ['x'], 'x+', '(x'], name='formula')),
    }, base={'formula': 'x+1'})

    def array_opts(shape_opt, complex_opt):
        return {'shape': shape_opt, 'norm': Opt({'start': 1, 'stop': 5}, NUMBER_RANGE), 'complex': complex_opt}
    T['RealVectors'] = Table(M.RealVectors, array_opts(Opt((3,), VEC_SHAPE), Opt(False, LIT_FALSE)))
    T['ComplexVectors'] = Table(M.ComplexVectors, array_opts(Opt((3,), VEC_SHAPE), Opt(True, LIT_TRUE)))
    T['RealTensors'] = Table(M.RealTensors, array_opts(Opt(REQUIRED, TEN_SHAPE), Opt(False, LIT_FALSE)),
                             base={'shape': (2, 2, 2)})
    T['ComplexTensors'] = Table(M.ComplexTensors, array_opts(Opt(REQUIRED, TEN_SHAPE), Opt(True, LIT_TRUE)),
                                base={'shape': (2, 2, 2)})
    T['RealMatrices'] = Table(M.RealMatrices, dict(array_opts(Opt((2, 2), MAT_SHAPE), Opt(False, LIT_FALSE)),
                                                   triangular=Opt(None, TRIANGULAR)))
    T['ComplexMatrices'] = Table(M.ComplexMatrices, dict(array_opts(Opt((2, 2), MAT_SHAPE), Opt(True, LIT_TRUE)),
                                                         triangular=Opt(None, TRIANGULAR)))

    def square_opts(**extra):
        d = {'dimension': Opt(2, INT_GE2), 'norm': Opt({'start': 1, 'stop': 5}, NUMBER_RANGE),
             'complex': Opt(False, BOOL)}
        d.update(extra)
        return d
    T['IdentityMatrixMultiples'] = Table(M.IdentityMatrixMultiples, square_opts(sampler=Opt(M.RealInterval(), SCALAR_SAMPLER)))

    def square_rules(cfg, full):
        sym, tr, det, dim = full['symmetry'], full['traceless'], full['determinant'], full['dimension']
        cplx = full['complex'] or sym in ('hermitian', 'antihermitian')
        if det == 0:
            if tr:
                return False
            if sym == 'antisymmetric' and (cplx or dim % 2 == 0):
                return False
        if det == 1:
            if dim == 2 and tr:
                if sym == 'diagonal' and not cplx:
                    return False
                if sym == 'symmetric' and not cplx:
                    return False
                if sym == 'hermitian':
                    return False
            if dim % 2 == 1 and sym in ('antisymmetric', 'antihermitian'):
                return False
        return True
    sq = square_opts(symmetry=Opt(None, SYMMETRY), traceless=Opt(False, BOOL), determinant=Opt(None, DETERMINANT))
    sq['complex'] = Opt(False, BOOL, derived_when_given=True)      # hermitian / antihermitian force complex=True
    T['SquareMatrices'] = Table(M.SquareMatrices, sq, rules=square_rules)
    T['SquareMatrices'].derived_keys = {'complex'}
    T['OrthogonalMatrices'] = Table(M.OrthogonalMatrices, square_opts(unitdet=Opt(False, BOOL)))
    T['UnitaryMatrices'] = Table(M.UnitaryMatrices, square_opts(unitdet=Opt(False, BOOL)))

    # ---- credit schedules and the comparer ---------------------------------------------------
    T['LinearCredit'] = Table(M.LinearCredit, {
        'decrease_credit_after': Opt(1, POS_INT), 'decrease_credit_steps': Opt(4, POS_INT),
        'minimum_credit': Opt(0.2, UNIT_FLOAT)})
    T['GeometricCredit'] = Table(M.GeometricCredit, {'factor': Opt(0.75, UNIT_FLOAT)})
    T['ReciprocalCredit'] = Table(M.ReciprocalCredit, {})
    T['LinearComparer'] = Table(LinearComparer, {
        'equals': Opt(1.0, UNIT_OR_NONE), 'proportional': Opt(0.5, UNIT_OR_NONE), 'offset': Opt(None, UNIT_OR_NONE),
        'linear': Opt(None, UNIT_OR_NONE), 'equals_msg': Opt('', STR),
        'proportional_msg': Opt('The submitted answer differs from an expected answer by a constant factor.', STR),
        'offset_msg': Opt('', STR), 'linear_msg': Opt('', STR)})

    # classes whose configuration is not a dictionary of options: positional forms
    POS = {
        'DiscreteSet': (M.DiscreteSet, Dom([3, 3.5, (1, 2), (1, 2.5, 7), MathArray([1, 2]), (1, MathArray([[1, 0], [0, 1]]))],
                                           ['a', None, (), [1, 2], ('a',), (1, 'a'), {'a': 1}],
                                           norm=lambda v: v if isinstance(v, tuple) else (v,), name='number(s)/arrays')),
        'SpecificFunctions': (M.SpecificFunctions, Dom([f1, [f1], [f1, f2], abs], ['a', None, [], 5, [f1, 5], (f1,)],
                                                       norm=lambda v: v if isinstance(v, list) else [v],
                                                       name='function or list of functions')),
        'RealInterval': (M.RealInterval, Dom([[1, 3], [3, 1], [0.5, 2.5], {'start': 0, 'stop': 2}, {'start': 2}, {}],
                                             [[1], [1, 2, 3], 'ab', ['a', 'b'], 5, (1, 2), [1j, 2], {'begin': 1}],
                                             norm=lambda v: dict(zip(('start', 'stop'), sorted(nr_norm(v).values()))),
                                             name='[start, stop]')),
        'IntegerRange': (M.IntegerRange, Dom([[1, 3], [3, 1], {'start': 0, 'stop': 2}],
                                             [[1], [1, 2, 3], [1.5, 2], 'ab', 5, (1, 2), [1, 2.0]],
                                             norm=lambda v: dict(zip(('start', 'stop'), sorted(nr_norm(v).values()))),
                                             name='[start, stop] integers')),
    }
    return T, POS
