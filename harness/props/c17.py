"""C17 -- attempt-based credit.  Tie: (A) Gen/Credit.v regenerated from attemptcredit.py, (B) pipeline correspondence."""
import itertools
import random
import re
from fractions import Fraction

from harness import core
from harness.core import qlit, zlit, listlit, boollit, optlit
from translate import credit as tr_credit

ID = 'C17'
PROPS = 'Props/C17.v'
TRANSLATORS = [('Gen/Credit.v', tr_credit.generate)]
MIRRORED = [('mitxgraders/baseclasses.py', 'AbstractGrader.apply_attempt_based_credit'),
            ('mitxgraders/baseclasses.py', 'AbstractGrader.grade_decimal_to_ok'),
            ('mitxgraders/attemptcredit.py', '*')]
REFUTED = []
TRUSTED = [
    'translator translate/credit.py + translate/pyq.py (Python ast -> Gallina over Q; float literals taken as the decimal the author wrote)',
    'correspondence harness harness/props/c17.py; floats enter Coq as exact dyadic rationals, agreement decided in Coq within 1e-12',
    'modelled, not verified: IEEE rounding of the float arithmetic (guard band around 4-decimal rounding ties), '
    'Python round()/Decimal.quantize (modelled as round-half-even on the exact value), dict lookup {0: False, 1: True}.get',
]
ASSUMPTIONS = ['schedule parameters lie in the schema domain (Positive(int), 0<=minimum_credit<=1, 0<=factor<=1)',
               'author-defined schedules are arbitrary functions Q->Q in the pipeline theorems']

HEADER = ('From Coq Require Import ZArith QArith Qabs List Bool.\n'
          'From Verif.Lib Require Import QRound PyNum.\n'
          'From Verif.Model Require Import Result Credit.\n'
          'From Verif.Gen Require Credit.\nImport ListNotations.\nOpen Scope Q_scope.\n')

AGREE_DEFS = r'''
Definition eps : Q := 1 # 1000000000000.
Fixpoint agree_seq (f : Q -> Q) (n : Z) (l : list (option Q)) : bool :=
  match l with
  | [] => true
  | None :: r => agree_seq f (n + 1)%Z r
  | Some v :: r => Qclose eps (f (inject_Z n)) v && agree_seq f (n + 1)%Z r
  end.
(* property predicates evaluated on the REGENERATED definitions (model-side witness search) *)
Fixpoint sweep (f : Q -> Q) (lo : Q) (n : Z) (k : nat) (prev : Q) : bool :=
  match k with
  | O => true
  | S k' => let c := f (inject_Z n) in
            Qle_bool 0 c && Qle_bool c 1 && Qle_bool c prev && Qle_bool lo c && sweep f lo (n + 1)%Z k' c
  end.
Definition sched_ok (f : Q -> Q) (lo : Q) (l : list (option Q)) : bool :=
  Qeq_bool (f 1) 1 && sweep f lo 1%Z (length l) 1 && agree_seq f 1%Z l.
Inductive sched := SLin (a s : Z) (m : Q) | SGeo (f : Q) | SRec.
Definition sched_fn (s : sched) : Q -> Q :=
  match s with
  | SLin a s m => Gen.Credit.gen_linear_credit (inject_Z a) (inject_Z s) m
  | SGeo f => Gen.Credit.gen_geometric_credit f
  | SRec => Gen.Credit.gen_reciprocal_credit
  end.
Definition sched_lo (s : sched) : Q := match s with SLin _ _ m => round4 m | _ => 0 end.
Definition sched_case (c : sched * list (option Q)) : bool := sched_ok (sched_fn (fst c)) (sched_lo (fst c)) (snd c).

(* pipeline cases: (credit value returned by the schedule, msg flag, attempt, entries, observed) *)
Definition entry_agree (a b : entry) : bool :=
  okv_eqb (e_ok a) (e_ok b) && Qclose eps (e_grade a) (e_grade b).
Fixpoint entries_agree (a b : list entry) : bool :=
  match a, b with
  | [], [] => true
  | x :: a', y :: b' => entry_agree x y && entries_agree a' b'
  | _, _ => false
  end.
Record observed := mkObs { o_entries : list entry; o_note : bool; o_attempt : Z; o_pct10 : Z }.
Definition pipe_case (c : Q * bool * option Z * list entry * option observed) : bool :=
  match c with
  | (cv, flag, att, es, obs) =>
    match apply_credit (fun _ => cv) flag att es, obs with
    | None, None => true
    | Some r, Some o =>
        entries_agree (c_entries r) (o_entries o) && Bool.eqb (c_note r) (o_note o)
        && (negb (c_note r) || ((c_attempt r =? o_attempt o)%Z && ((o_pct10 o =? -1)%Z || (c_pct10 r =? o_pct10 o)%Z)))
    | _, _ => false
    end
  end.
'''


def okterm(ok):
    return {True: 'OkTrue', False: 'OkFalse', 'partial': 'OkPartial'}[ok]


def entry_term(e):
    return '(mkEntry %s %s [])' % (okterm(e['ok']), qlit(e['grade_decimal']))


# ------------------------------------------------------------------------------------------------
def raw_exact(kind, params, n):
    """exact pre-rounding value (Fractions), used only to guard-band 4-decimal rounding ties"""
    if n == 1:
        return None
    if kind == 'lin':
        a, s, m = params
        st = n - a
        if st <= 0:
            return None
        m = Fraction(str(m))
        return m if st >= s else 1 + (m - 1) * st / s
    if kind == 'geo':
        return Fraction(str(params[0])) ** (n - 1)
    return Fraction(1, n)


def near_tie(x):
    if x is None:
        return False
    y = x * 10000
    frac = y - (y.numerator // y.denominator)
    return abs(frac - Fraction(1, 2)) < Fraction(1, 10**7)


def schedule_grid(tier):
    grid = []
    mins = [0, 0.1, 0.2, 0.5, 1]
    for a in range(1, 7):
        for s in range(1, 7):
            for m in mins:
                grid.append(('lin', (a, s, m)))
    for f in [0, 0.1, 0.25, 1.0 / 3, 0.5, 0.6, 0.75, 0.9, 0.99, 1, 1.0]:
        grid.append(('geo', (f,)))
    grid.append(('rec', ()))
    if tier == 'thorough':
        for a in (7, 10, 50):
            for s in (7, 9, 30, 199):
                for m in (0.05, 0.3333, 0.75, 0.99):
                    grid.append(('lin', (a, s, m)))
        for f in (0.001, 0.05, 0.3, 0.45, 0.55, 0.8, 0.95, 0.999):
            grid.append(('geo', (f,)))
    return grid


def make_schedule(kind, params):
    from mitxgraders import LinearCredit, GeometricCredit, ReciprocalCredit
    if kind == 'lin':
        a, s, m = params
        return LinearCredit(decrease_credit_after=a, decrease_credit_steps=s, minimum_credit=m)
    if kind == 'geo':
        return GeometricCredit(factor=params[0])
    return ReciprocalCredit()


def sched_term(kind, params):
    if kind == 'lin':
        a, s, m = params
        return '(SLin %s %s %s)' % (zlit(a), zlit(s), qlit(Fraction(str(m))))
    if kind == 'geo':
        f = params[0]
        fr = Fraction(1, 3) if f == 1.0 / 3 else Fraction(str(f))
        return '(SGeo %s)' % qlit(fr)
    return 'SRec'


def run_schedules(ctx, res):
    """impl values of every schedule on attempts 1..N; oracle on the implementation; Coq agreement + sweep"""
    N = 200 if ctx['tier'] == 'quick' else 400
    terms, metas = [], []
    for kind, params in schedule_grid(ctx['tier']):
        status, sched = core.guarded(make_schedule, kind, params)
        if status != 'ret':
            res.witnesses.append({'key': 'construct:%s%r' % (kind, params), 'kind': 'schedule-construct',
                                  'sched': [kind, list(params)], 'what': 'in-domain schedule refused: %r' % (sched,)})
            continue
        vals, prev = [], None
        lo = round(params[2], 4) if kind == 'lin' else 0
        for n in range(1, N + 1):
            st, v = core.guarded(sched, n)
            res.oracle_evals += 1
            bad = None
            if st != 'ret':
                bad = 'schedule raised %r' % (v,)
            else:
                if n == 1 and v != 1:
                    bad = 'first attempt gives %r, not 1' % (v,)
                elif not (0 <= v <= 1):
                    bad = 'credit %r outside [0,1]' % (v,)
                elif prev is not None and v > prev:
                    bad = 'credit increases from %r (attempt %d) to %r' % (prev, n - 1, v)
                elif v < lo:
                    bad = 'credit %r below the configured minimum %r' % (v, lo)
            if bad:
                res.witnesses.append({'key': 'schedule:%s%r@%d' % (kind, params, n), 'kind': 'schedule',
                                      'sched': [kind, list(params)], 'attempt': n, 'what': bad})
                vals.append(None)
                prev = v if st == 'ret' else prev
                continue
            prev = v
            if near_tie(raw_exact(kind, params, n)):
                res.boundary += 1
                vals.append(None)
            else:
                vals.append(v)
            res.nontrivial.add((kind, params, round(float(v), 4)))
        terms.append('(%s, %s)' % (sched_term(kind, params), listlit([optlit(v, qlit) for v in vals])))
        metas.append((kind, params, vals))
    if metas:
        k, p, v = metas[len(metas) // 3]
        res.samples.append({'schedule': [k, list(p)], 'attempts_1_to_8': v[:8]})
    res.distribution['schedules'] = len(metas)
    res.distribution['attempts_per_schedule'] = N
    if ctx['model_built'] or True:
        n, failing, errors = core.eval_agreement('c17_sched', HEADER + AGREE_DEFS, 'sched_case', terms, shard=12)
        res.programs += n * N
        res.corr_errors += errors
        for i in failing:
            kind, params, vals = metas[i]
            res.disagreements.append({'kind': 'schedule', 'sched': [kind, list(params)],
                                      'what': 'regenerated definition violates first=1/unit/monotone/minimum or differs from the implementation'})


# ------------------------------------------------------------------------------------------------
GRADES = [0, 1, 0.5, 0.25, 0.1, 1.0 / 3, 0.7, 0.0, 1.0]
CREDITS = [1, 0, 0.5, 0.75, 0.2, 0.3333, 0.12345678, 1.0, 0.99995, 0.1 + 0.2, 0.00004, 2.0 / 3]
NOTE_RE = re.compile(r'Maximum credit for attempt #(-?\d+) is (-?[\d.]+)%\.$')


def ok_of(g):
    return {0: False, 1: True}.get(g, 'partial')


def run_pipeline(ctx, res, rng):
    from mitxgraders import StringGrader
    from mitxgraders.exceptions import ConfigError
    n_cases = 400 if ctx['tier'] == 'quick' else 3000
    if ctx['escalate']:
        n_cases = max(n_cases, 2000)
    terms, metas = [], []
    shared = {}
    for i in range(n_cases):
        cv = rng.choice(CREDITS)
        flag = rng.random() < 0.7
        att = rng.choice([None, 0, -3, 1, 2, 3, 7, 50, 200]) if rng.random() < 0.5 else rng.randint(-2, 12)
        multi = rng.random() < 0.6
        k = rng.randint(1, 5) if multi else 1
        base = [rng.choice(GRADES) for _ in range(k)]
        entries = [{'ok': ok_of(g), 'grade_decimal': g, 'msg': ''} for g in base]
        if rng.random() < 0.15:     # author-pinned ok at full credit
            for e in entries:
                if e['grade_decimal'] == 1:
                    e['ok'] = rng.choice([True, 'partial'])
        seen_attempts = []
        if rng.random() < 0.5:
            # history: one long-lived grader per flag serves many calls (attempts in any order, credits changing
            # between calls); the property makes every call a function of (schedule, attempt, result) alone
            cell = shared.setdefault(flag, {})
            cell['cv'], cell['seen'] = cv, seen_attempts
            if 'g' not in cell:
                cell['g'] = StringGrader(attempt_based_credit=(lambda n, cell=cell: (cell['seen'].append(n), cell['cv'])[1]),
                                         attempt_based_credit_msg=flag)
                cell['g'].create_debuglog('x')
            g = cell['g']
            res.distribution['pipeline_reused_grader'] = res.distribution.get('pipeline_reused_grader', 0) + 1
        else:
            def sched(n, cv=cv, seen=seen_attempts):
                seen.append(n)
                return cv
            g = StringGrader(attempt_based_credit=sched, attempt_based_credit_msg=flag)
            g.create_debuglog('x')
        import copy
        before = copy.deepcopy(entries)
        result = {'overall_message': '', 'input_list': entries} if multi else dict(entries[0])
        st, out = core.guarded(g.apply_attempt_based_credit, result, att)
        res.oracle_evals += 1
        obs = None
        cround = round(float(cv), 4)
        if att is None:
            if not (st == 'exc' and isinstance(out, ConfigError)):
                res.witnesses.append({'key': 'pipeline:missing-attempt', 'kind': 'pipeline', 'credit': cv, 'flag': flag,
                                      'attempt': None, 'grades': base, 'multi': multi,
                                      'what': 'missing attempt number did not raise ConfigError: %r %r' % (st, out)})
            terms.append('(%s, %s, None, %s, None)' % (qlit(cv), boollit(flag), listlit([entry_term(e) for e in before])))
            metas.append((cv, flag, att, base, multi))
            continue
        if st != 'ret':
            res.witnesses.append({'key': 'pipeline:raised', 'kind': 'pipeline', 'credit': cv, 'flag': flag, 'attempt': att,
                                  'grades': base, 'multi': multi, 'what': 'apply_attempt_based_credit raised %r' % (out,)})
            continue
        after = result['input_list'] if multi else [result]
        msg = result['overall_message'] if multi else result['msg']
        m = NOTE_RE.search(msg)
        note = m is not None
        # --- oracle: the property, in Fractions, on the implementation's result
        what = None
        clamp = max(att, 1)
        if seen_attempts != [clamp]:
            what = 'schedule consulted at %r, expected [%d]' % (seen_attempts, clamp)
        cq = Fraction(cround)
        reduced = False
        for b, a in zip(before, after):
            gb = b['grade_decimal']
            if gb > 0 and cround != 1:
                want = Fraction(gb) * cq
                if abs(Fraction(a['grade_decimal']) - want) > Fraction(1, 10**12):
                    what = 'grade %r became %r, expected %r*%r' % (gb, a['grade_decimal'], gb, cround)
                elif a['ok'] != ok_of(a['grade_decimal']):
                    what = 'ok %r does not match scaled grade %r' % (a['ok'], a['grade_decimal'])
                reduced = True
            else:
                if a['grade_decimal'] != gb or a['ok'] != b['ok']:
                    what = 'entry with grade %r was altered to %r/%r' % (gb, a['grade_decimal'], a['ok'])
        if len(after) != len(before):
            what = 'number of entries changed'
        if note != (flag and reduced):
            what = 'note present=%r but flag=%r and some grade reduced=%r' % (note, flag, reduced)
        if note and int(m.group(1)) != clamp:
            what = 'note names attempt %s, expected %d' % (m.group(1), clamp)
        if what:
            res.witnesses.append({'key': 'pipeline:%r/%r/%r/%r/%r' % (cv, flag, att, base, multi), 'kind': 'pipeline',
                                  'credit': cv, 'flag': flag, 'attempt': att, 'grades': base, 'multi': multi, 'what': what})
        pct10 = int(round(Fraction(m.group(2)) * 10)) if note else 0
        y = cq * 1000
        if abs((y - (y.numerator // y.denominator)) - Fraction(1, 2)) < Fraction(1, 10**7):
            pct10 = -1          # guard band: the percentage in the note sits on a one-decimal rounding tie
            res.boundary += 1
        obs = ('(Some (mkObs %s %s %s %s))' %
               (listlit([entry_term(e) for e in after]), boollit(note), zlit(int(m.group(1)) if note else 0), zlit(pct10)))
        # guard band: a credit*1000 that sits on a one-decimal rounding tie in the note
        terms.append('(%s, %s, Some %s, %s, %s)' % (qlit(cv), boollit(flag), zlit(att),
                                                      listlit([entry_term(e) for e in before]), obs))
        metas.append((cv, flag, att, base, multi))
        res.nontrivial.add(('pipe', cv, flag, clamp, tuple(base), multi))
    res.samples.append({'pipeline_case': dict(zip(['credit', 'msg_flag', 'attempt', 'base_grades', 'list_result'], metas[0]))})
    res.distribution['pipeline_cases'] = len(terms)
    res.distribution['pipeline_list_results'] = sum(1 for m in metas if m[4])
    res.distribution['pipeline_attempt_missing'] = sum(1 for m in metas if m[2] is None)
    res.distribution['pipeline_attempt_below_1'] = sum(1 for m in metas if m[2] is not None and m[2] < 1)
    n, failing, errors = core.eval_agreement('c17_pipe', HEADER + AGREE_DEFS, 'pipe_case', terms, shard=200)
    res.programs += n
    res.corr_errors += errors
    for i in failing:
        res.disagreements.append({'kind': 'pipeline', 'case': dict(zip(['credit', 'flag', 'attempt', 'grades', 'multi'], metas[i]))})


# ------------------------------------------------------------------------------------------------
def full_calls(ctx, res, rng):
    """grader(None, x, attempt=n) against the same grader without attempt credit (product law, note, error)"""
    from mitxgraders import StringGrader, ListGrader, LinearCredit, GeometricCredit, ReciprocalCredit
    from mitxgraders.exceptions import ConfigError
    answers = ({'expect': 'a', 'grade_decimal': 1}, {'expect': 'b', 'grade_decimal': 0.5, 'msg': 'half'},
               {'expect': 'c', 'grade_decimal': 0.25}, {'expect': 'd', 'grade_decimal': 0})
    scheds = [LinearCredit(), LinearCredit(decrease_credit_after=2, decrease_credit_steps=3, minimum_credit=0.5),
              GeometricCredit(), GeometricCredit(factor=0), GeometricCredit(factor=1), ReciprocalCredit(),
              lambda n: 1, lambda n: 0, lambda n: 0.5]
    n_cases = 600 if ctx['tier'] == 'quick' else 4000
    pool, reused = {}, 0
    for i in range(n_cases):
        si = rng.randrange(len(scheds))
        sched = scheds[si]
        flag = rng.random() < 0.7
        att = rng.choice([-1, 0, 1, 2, 3, 4, 5, 6, 9, 30])
        reuse = rng.random() < 0.6      # history: the same grader objects serve many calls, attempts in any order
        if rng.random() < 0.5:
            inp = rng.choice(['a', 'b', 'c', 'd', 'zzz'])
            key = (si, flag, 'single')
            if not (reuse and key in pool):
                pool[key] = (StringGrader(answers=answers, attempt_based_credit=sched, attempt_based_credit_msg=flag),
                             StringGrader(answers=answers))
        else:
            k = rng.randint(2, 4)
            inp = [rng.choice(['a', 'b', 'c', 'd', 'zzz']) for _ in range(k)]
            ordered = rng.random() < 0.5
            key = (si, flag, k, ordered)
            if not (reuse and key in pool):
                pool[key] = (ListGrader(answers=[answers] * k, subgraders=StringGrader(), ordered=ordered,
                                        attempt_based_credit=sched, attempt_based_credit_msg=flag),
                             ListGrader(answers=[answers] * k, subgraders=StringGrader(), ordered=ordered))
            else:
                reused += 1
        g1, g0 = pool[key]
        st0, r0 = core.guarded(g0, None, inp)
        st1, r1 = core.guarded(g1, None, inp, attempt=att)
        stm, rm = core.guarded(g1, None, inp)
        res.oracle_evals += 2
        what = None
        if not (stm == 'exc' and isinstance(rm, ConfigError)):
            what = 'call without attempt returned %r instead of ConfigError' % (rm,)
        elif st0 != 'ret' or st1 != 'ret':
            what = 'call failed: %r / %r' % (r0, r1)
        else:
            clamp = max(att, 1)
            c = round(float(sched(clamp)), 4)
            e0 = r0['input_list'] if isinstance(inp, list) else [r0]
            e1 = r1['input_list'] if isinstance(inp, list) else [r1]
            reduced = False
            for a, b in zip(e0, e1):
                want = Fraction(a['grade_decimal']) * Fraction(c) if a['grade_decimal'] > 0 else Fraction(a['grade_decimal'])
                if abs(Fraction(b['grade_decimal']) - want) > Fraction(1, 10**12):
                    what = 'grade %r -> %r, expected x%r' % (a['grade_decimal'], b['grade_decimal'], c)
                if b['ok'] != ok_of(b['grade_decimal']):
                    what = 'ok %r inconsistent with grade %r' % (b['ok'], b['grade_decimal'])
                if a['grade_decimal'] > 0 and c != 1:
                    reduced = True
            msg = r1['overall_message'] if isinstance(inp, list) else r1['msg']
            note = 'Maximum credit for attempt #%d is' % clamp in msg
            if note != (flag and reduced) or (('Maximum credit for attempt' in msg) != note):
                what = 'note=%r, flag=%r, reduced=%r, msg=%r' % (note, flag, reduced, msg)
        if what:
            res.witnesses.append({'key': 'call:%d/%r/%r/%r' % (si, flag, att, inp), 'kind': 'call', 'sched_index': si,
                                  'flag': flag, 'attempt': att, 'input': inp, 'what': what})
        res.nontrivial.add(('call', si, flag, att, repr(inp)))
    res.distribution['full_grader_calls'] = n_cases
    res.distribution['full_grader_calls_on_reused_list_graders'] = reused


def out_of_domain_schedules(ctx, res):
    """Parameters outside the documented domain: the constructor may refuse them; if it accepts them the
    schedule it hands out must still satisfy the property (first attempt 1, values in [0,1], non-increasing)."""
    from mitxgraders import LinearCredit, GeometricCredit
    tries = []
    for m in (1.5, 2.0, 1.0001, -0.1, -1.0, 7):
        tries.append(('LinearCredit', LinearCredit, {'minimum_credit': m}))
        tries.append(('LinearCredit', LinearCredit, {'minimum_credit': m, 'decrease_credit_after': 2, 'decrease_credit_steps': 1}))
    for k in (0, -1, 1.5):
        tries.append(('LinearCredit', LinearCredit, {'decrease_credit_after': k}))
        tries.append(('LinearCredit', LinearCredit, {'decrease_credit_steps': k}))
    for f in (1.5, 2.0, 1.0001, -0.5, -1.0, 3):
        tries.append(('GeometricCredit', GeometricCredit, {'factor': f}))
    refused = 0
    for name, cls, kw in tries:
        st, sched = core.guarded(lambda: cls(**kw))
        res.oracle_evals += 1
        if st != 'ret':
            refused += 1
            continue
        vals = []
        for n in range(1, 25):
            st2, v = core.guarded(sched, n)
            vals.append(v if st2 == 'ret' else None)
        bad = None
        if vals[0] != 1:
            bad = 'first attempt gives %r' % (vals[0],)
        elif any(v is None or not (0 <= v <= 1) for v in vals):
            bad = 'a credit outside [0,1] (or an exception): %r' % ([v for v in vals if v is None or not (0 <= v <= 1)][:3],)
        elif any(b > a for a, b in zip(vals, vals[1:])):
            bad = 'credit increases with the attempt number: %r' % (vals[:6],)
        if bad:
            res.witnesses.append({'key': 'accepted-out-of-domain:%s%r' % (name, sorted(kw.items())), 'kind': 'accepted-out-of-domain',
                                  'cls': name, 'kwargs': kw,
                                  'what': '%s(%s) was accepted and its schedule violates the property: %s' % (name, kw, bad)})
    res.distribution['out_of_domain_constructions'] = len(tries)
    res.distribution['out_of_domain_refused'] = refused


def run(ctx):
    res = core.Result()
    rng = random.Random(1000003 * ctx['seed'] + 17)
    res.rule = ('schedules: the property grid (LinearCredit 6x6x5, GeometricCredit 11 factors, ReciprocalCredit) x attempts 1..N, '
                'one case per (schedule, parameters, attempt, value); pipeline: random (credit, flag, attempt incl. None/0/negative, '
                'base grades, single/list) cases, distinct by that tuple; full grader calls distinct by (schedule, flag, attempt, input)')
    run_schedules(ctx, res)
    out_of_domain_schedules(ctx, res)
    run_pipeline(ctx, res, rng)
    full_calls(ctx, res, rng)
    return res


def replay(w):
    res = core.Result()
    ctx = {'tier': 'quick', 'seed': 0, 'escalate': True, 'model_built': False}
    if w.get('kind') == 'schedule':
        kind, params = w['sched']
        sched = make_schedule(kind, tuple(params))
        vals = [sched(n) for n in range(1, w['attempt'] + 1)]
        bad = vals[0] != 1 or any(not (0 <= v <= 1) for v in vals) or any(b > a for a, b in zip(vals, vals[1:])) \
            or (kind == 'lin' and min(vals) < round(params[2], 4))
        return bad, 'schedule %s%r on attempts 1..%d: %r' % (kind, params, w['attempt'], vals[-6:])
    if w.get('kind') == 'accepted-out-of-domain':
        out_of_domain_schedules(ctx, res)
        hit = [x for x in res.witnesses if x['key'] == w.get('key')]
        return bool(hit), 'out-of-domain construction %s(%s): %s' % (w.get('cls'), w.get('kwargs'), hit[0]['what'] if hit else 'refused or harmless on the current tree')
    # pipeline / call witnesses: re-run the generators with escalation and look for the same key
    rng = random.Random(17)
    run_pipeline(ctx, res, rng)
    full_calls(ctx, res, rng)
    hit = [x for x in res.witnesses if x['kind'] == w.get('kind')]
    return bool(hit), 'witnesses of kind %s on the current tree: %d (first: %r)' % (w.get('kind'), len(hit), hit[:1])

LEVEL_TEXT = ('Theorems for all parameters in the schema domain and all attempt numbers (not a grid): each built-in schedule is 1 at '
              'attempt 1, stays in [0,1] (LinearCredit never below round4(minimum)), is non-increasing; the pipeline clamps attempts '
              'below 1, multiplies every positive grade by the credit with ok recomputed, leaves zero grades/messages/order untouched, '
              'adds the note iff enabled and some grade was reduced, and a missing attempt is an error. Schedule theorems are stated on '
              'definitions regenerated from attemptcredit.py on every run; the pipeline model is tied by differential correspondence.')
LEVEL_NOTE = ('Exact rational arithmetic; IEEE rounding and Python round()/Decimal are modelled (round-half-even on the exact value) and '
              'guard-banded at ties; trusted: Coq kernel, translator translate/pyq.py, harness/props/c17.py; no axioms.')
TECHNIQUE = 'Coq proof (Q arithmetic, lra/nra, induction on lists) + source-to-Gallina translator + vm_compute correspondence'
DESIGN_REF = 'DESIGN.md section 3, C17'
