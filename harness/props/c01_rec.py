"""C01 helper: run-time recorder (no hooks in /repo) and Coq term emitter.

The recorder wraps, for the duration of one grader call,
  * every `check` (ItemGrader, ListGrader, SummationGraderBase) and every `check_response` (StringGrader,
    FormulaGrader, MatrixGrader, SingleListGrader, IntervalGrader and the harness' own author-defined ItemGrader);
    each invocation becomes a FRAME whose PATH is the list of "k-th child call made inside the parent frame";
  * listgrader.padded_check (so that padded pairs consume a child index too), Munkres.compute (assignment
    oracle), ListGrader.get_best_result (choice among answer lists), ItemGrader.standardize_cfn_return (the raw
    comparer returns = oracle of formula-type leaves), StringGrader.construct_message.
From the frames it derives the three oracle tables of Model/Pipeline.v.
"""
import numbers
from fractions import Fraction

from harness.core import qlit, zlit, natlit, boollit, listlit, optlit


def strlit(s):
    """Python str -> Coq `str` (list Z of code points), packed 3 code points per primitive int (see PipelineAgree.S_)"""
    if not s:
        return '(@nil Z)'
    out = []
    for a in range(0, len(s), 3):
        n = 0
        for i, c in enumerate(s[a:a + 3]):
            n |= (ord(c) + 1) << (21 * i)
        out.append(str(n))
    return '(S_ [%s]%%uint63)' % ';'.join(out)


class Frame(object):
    __slots__ = ('path', 'kind', 'grader', 'status', 'value', 'cfns', 'construct', 'perms', 'best', 'nchildren', 'answer')

    def __init__(self, path, kind, grader):
        self.path, self.kind, self.grader = path, kind, grader
        self.status, self.value = None, None
        self.cfns, self.construct, self.perms, self.best = [], None, [], None
        self.nchildren = 0
        self.answer = None


def _snap(v):
    """snapshot of a returned result dictionary (the implementation mutates these objects later)"""
    if isinstance(v, dict):
        out = {}
        for k, x in v.items():
            if k == 'individual':
                out[k] = [_snap(i) for i in x]
            elif k == 'input_list':
                out[k] = [_snap(i) for i in x]
            else:
                out[k] = x
        return out
    if isinstance(v, list):
        return [_snap(i) for i in v]
    return v


class Recorder(object):
    """context manager; `frames` maps path tuples to Frame objects"""

    def __init__(self, extra_item_classes=()):
        self.frames = {}
        self.stack = []
        self.root_children = 0
        self.patches = []
        self.extra = tuple(extra_item_classes)
        self.unsupported = []

    # -- frame bookkeeping ---------------------------------------------------------------------
    def _next_index(self):
        if self.stack:
            f = self.stack[-1]
            i = f.nchildren
            f.nchildren += 1
            return f.path + (i,)
        # the root frame has the empty path; a second root-level call would collide -> number them
        i = self.root_children
        self.root_children += 1
        return () if i == 0 else ('root%d' % i,)

    def consume_index(self):
        if self.stack:
            self.stack[-1].nchildren += 1

    def _wrap_frame(self, kind, fn):
        rec = self

        def wrapper(self_, *a, **k):
            path = rec._next_index()
            fr = Frame(path, kind, self_)
            if kind == 'response' and a:
                fr.answer = a[0]
            rec.frames[path] = fr
            rec.stack.append(fr)
            try:
                v = fn(self_, *a, **k)
                fr.status, fr.value = 'ret', _snap(v)
                return v
            except BaseException as e:       # noqa
                fr.status, fr.value = 'exc', e
                raise
            finally:
                rec.stack.pop()
        wrapper.__wrapped__ = fn
        return wrapper

    def _patch(self, obj, name, new):
        old = obj.__dict__[name]
        self.patches.append((obj, name, old))
        setattr(obj, name, new)

    def __enter__(self):
        from mitxgraders.baseclasses import ItemGrader
        from mitxgraders import listgrader, stringgrader
        from mitxgraders.listgrader import ListGrader, SingleListGrader
        from mitxgraders.formulagrader.formulagrader import FormulaGrader
        from mitxgraders.formulagrader.matrixgrader import MatrixGrader
        from mitxgraders.formulagrader.intervalgrader import IntervalGrader
        from mitxgraders.formulagrader.integralgrader import SummationGraderBase
        from mitxgraders.helpers import munkres
        rec = self
        for cls in (ItemGrader, ListGrader, SummationGraderBase):
            self._patch(cls, 'check', self._wrap_frame('check', cls.__dict__['check']))
        for cls in (stringgrader.StringGrader, FormulaGrader, MatrixGrader, SingleListGrader, IntervalGrader) + self.extra:
            if 'check_response' in cls.__dict__:
                self._patch(cls, 'check_response', self._wrap_frame('response', cls.__dict__['check_response']))

        # padded_check: every pair consumes one child index, padded or not
        orig_padded = listgrader.__dict__['padded_check']

        def padded_check(check):
            inner = orig_padded(check)

            def _check(ans, inp):
                if isinstance(ans, listgrader._AutomaticFailure) or isinstance(inp, listgrader._AutomaticFailure):
                    rec.consume_index()
                return inner(ans, inp)
            return _check
        self.patches.append((listgrader, 'padded_check', orig_padded))
        listgrader.padded_check = padded_check

        orig_compute = munkres.Munkres.__dict__['compute']

        def compute(self_, cost_matrix):
            out = orig_compute(self_, cost_matrix)
            if rec.stack:
                rec.stack[-1].perms.append([(int(i), int(j)) for i, j in out])
            return out
        self._patch(munkres.Munkres, 'compute', compute)

        orig_best = ListGrader.__dict__['get_best_result'].__func__

        def get_best_result(results):
            out = orig_best(results)
            if rec.stack:
                idx = [i for i, r in enumerate(results) if r is out]
                rec.stack[-1].best = idx[0] if idx else None
            return out
        self._patch(ListGrader, 'get_best_result', staticmethod(get_best_result))

        orig_std = ItemGrader.__dict__['standardize_cfn_return'].__func__

        def standardize_cfn_return(value):
            if rec.stack:
                rec.stack[-1].cfns.append(_snap(value))
            return orig_std(value)
        self._patch(ItemGrader, 'standardize_cfn_return', staticmethod(standardize_cfn_return))

        orig_cm = stringgrader.StringGrader.__dict__['construct_message']

        def construct_message(self_, msg, msg_type):
            try:
                out = orig_cm(self_, msg, msg_type)
            except BaseException:      # noqa
                if rec.stack:
                    rec.stack[-1].construct = ('exc', None)
                raise
            if rec.stack:
                rec.stack[-1].construct = ('ret', _snap(out))
            return out
        self._patch(stringgrader.StringGrader, 'construct_message', construct_message)
        return self

    def __exit__(self, *a):
        for obj, name, old in reversed(self.patches):
            setattr(obj, name, old)
        self.patches = []
        return False


# ------------------------------------------------------------------------------------------------
# Coq terms
# ------------------------------------------------------------------------------------------------
def okterm(ok):
    if ok is True:
        return 'OkTrue'
    if ok is False:
        return 'OkFalse'
    if ok == 'partial':
        return 'OkPartial'
    raise ValueError('ok value outside the model: %r' % (ok,))


def num(x):
    if isinstance(x, bool):
        return qlit(int(x))
    if isinstance(x, numbers.Integral):
        return qlit(int(x))
    if isinstance(x, numbers.Real):
        return qlit(float(x))
    raise ValueError('grade outside the model: %r' % (x,))


def entry_term(d):
    return '(mkEntry %s %s %s)' % (okterm(d['ok']), num(d['grade_decimal']), strlit(d['msg']))


def ires_term(d):
    return '(mkI %s %s)' % (entry_term(d), boollit(bool(d.get('all_awarded', False))))


def path_term(p):
    return listlit([natlit(i) for i in p])


class Unmodelled(Exception):
    """the case uses something the Coq model does not cover (counted, not compared)"""


def grader_term(g):
    from mitxgraders import StringGrader, FormulaGrader, MatrixGrader, SingleListGrader, IntervalGrader, ListGrader, SumGrader
    from mitxgraders.baseclasses import ItemGrader
    c = g.config
    if isinstance(g, IntervalGrader):
        return '(GInterval (mkIV %s %s %s %s) %s %s)' % (
            boollit(c['partial_credit']), strlit(c['delimiter']), strlit(c['opening_brackets']),
            strlit(c['closing_brackets']), strlit(c['wrong_msg']), grader_term(c['subgrader']))
    if isinstance(g, SingleListGrader):
        return '(GSList (mkSL %s %s %s %s %s) %s %s)' % (
            boollit(c['ordered']), boollit(c['partial_credit']), boollit(c['length_error']),
            boollit(c['missing_error']), strlit(c['delimiter']), strlit(c['wrong_msg']), grader_term(c['subgrader']))
    if isinstance(g, ListGrader):
        subs = c['subgraders']
        single = not isinstance(subs, list)
        sl = [subs] if single else subs
        return '(GList (mkL %s %s %s %s) %s)' % (
            boollit(c['ordered']), boollit(c['partial_credit']), listlit([natlit(x) for x in c['grouping']]),
            boollit(single), listlit([grader_term(s) for s in sl]))
    if isinstance(g, SumGrader):
        return '(GSum %s)' % natlit(c['failable_evals'])
    if isinstance(g, MatrixGrader):
        return '(GItem (KMatrix %s (mkM %s %s %s)) %s)' % (
            natlit(c['failable_evals']), boollit(c['suppress_matrix_messages']), boollit(c['shape_errors']),
            boollit(c['answer_shape_mismatch']['is_raised']), strlit(c['wrong_msg']))
    if isinstance(g, FormulaGrader):
        return '(GItem (KFormula %s) %s)' % (natlit(c['failable_evals']), strlit(c['wrong_msg']))
    if isinstance(g, StringGrader):
        return '(GItem KString %s)' % strlit(c['wrong_msg'])
    if isinstance(g, ItemGrader):
        return '(GItem KOpaque %s)' % strlit(c['wrong_msg'])
    raise Unmodelled('grader class %s' % type(g).__name__)


def alt_term(expect_terms, a):
    return '(Alt %s %s %s %s)' % (listlit(expect_terms), num(a['grade_decimal']), strlit(a['msg']), okterm(a['ok']))


def ans_term(g, answers):
    """validated config['answers'] (or the answers handed down by a parent) of grader g"""
    from mitxgraders import SingleListGrader, IntervalGrader, ListGrader, StringGrader
    from mitxgraders.baseclasses import ItemGrader
    if isinstance(g, ListGrader):
        subs = g.config['subgraders']
        out = []
        for al in answers:
            row = []
            for i, a in enumerate(al):
                sub = subs[i] if isinstance(subs, list) else subs
                row.append(ans_term(sub, a))
            out.append(listlit(row))
        return '(AList %s)' % listlit(out)
    if isinstance(g, IntervalGrader):
        sg = StringGrader()
        alts = []
        for a in answers:
            exps = []
            for e in a['expect']:
                exps.append('(EItems %s)' % listlit([ans_term(sg, e[0]), ans_term(g.config['subgrader'], e[1]),
                                                     ans_term(g.config['subgrader'], e[2]), ans_term(sg, e[3])]))
            alts.append(alt_term(exps, a))
        return '(AItem %s)' % listlit(alts)
    if isinstance(g, SingleListGrader):
        alts = []
        for a in answers:
            exps = ['(EItems %s)' % listlit([ans_term(g.config['subgrader'], x) for x in e]) for e in a['expect']]
            alts.append(alt_term(exps, a))
        return '(AItem %s)' % listlit(alts)
    if isinstance(g, ItemGrader):
        alts = []
        for a in answers:
            exps = ['(ELeaf %s)' % (strlit(e) if isinstance(e, str) else '[]') for e in a['expect']]
            alts.append(alt_term(exps, a))
        return '(AItem %s)' % listlit(alts)
    return '(AItem [])'         # SumGrader: answers are not consulted by the model


def input_term(x):
    if isinstance(x, list):
        return '(IList %s)' % listlit([strlit(s) for s in x])
    return '(IStr %s)' % strlit(x)


def cfn_term(v):
    import numpy as np
    if isinstance(v, (bool, np.bool_)):
        return 'CfTrue' if v else 'CfFalse'
    if isinstance(v, str):
        if v.lower() == 'partial':
            return 'CfPartial'
        raise Unmodelled('comparer returned the string %r' % v)
    if isinstance(v, dict) and 'grade_decimal' in v:
        return '(CfDict %s %s)' % (num(v['grade_decimal']), strlit(v.get('msg', '')))
    raise Unmodelled('comparer returned %r' % (v,))


ZERO = {'ok': False, 'grade_decimal': 0, 'msg': ''}


def leaf_out(rec, fr):
    """oracle answer for a leaf check_response frame"""
    from mitxgraders import StringGrader, FormulaGrader, MatrixGrader
    from mitxgraders.helpers.calc.exceptions import MathArrayShapeError, ArgumentShapeError, MathArrayError
    from mitxgraders.exceptions import InputTypeError
    g = fr.grader
    if isinstance(g, MatrixGrader):
        inner = rec.frames.get(fr.path + (0,))
        if inner is None:
            return 'LRaise' if fr.status == 'exc' else 'LMissing'
        if inner.status == 'exc':
            e = inner.value
            if isinstance(e, MathArrayShapeError):
                return '(LMatErr MShape %s)' % strlit(str(e))
            if isinstance(e, InputTypeError):
                return '(LMatErr MInputType %s)' % strlit(str(e))
            if isinstance(e, (ArgumentShapeError, MathArrayError)):
                return '(LMatErr MOther %s)' % strlit(str(e))
            return 'LRaise'
        return '(LCfn %s)' % listlit([cfn_term(v) for v in inner.cfns])
    if fr.status == 'exc':
        return 'LRaise'
    if isinstance(g, FormulaGrader):
        return '(LCfn %s)' % listlit([cfn_term(v) for v in fr.cfns])
    if isinstance(g, StringGrader):
        if fr.construct is not None and fr.construct[0] == 'ret':
            return '(LStr (SInvalid %s))' % strlit(fr.construct[1]['msg'])
        v = fr.value
        if {k: v[k] for k in ('ok', 'grade_decimal', 'msg')} == ZERO:
            return '(LStr SReject)'        # (an accepted alternative that IS the zero result gives the same dictionary)
        return '(LStr SAccept)'
    return '(LRet %s)' % ires_term(fr.value)


def oracle_tables(rec):
    """(leaf rows, perm rows, best rows) as Coq list terms"""
    from mitxgraders import SingleListGrader, ListGrader, MatrixGrader, SumGrader, FormulaGrader
    from mitxgraders.formulagrader.integralgrader import SummationGraderBase
    leafs, perms, bests = [], [], []
    for path, fr in rec.frames.items():
        if path and isinstance(path[0], str):
            continue
        g = fr.grader
        if fr.kind == 'response':
            if isinstance(g, SingleListGrader):
                if fr.perms:
                    perms.append('(%s, %s)' % (path_term(path), listlit(['(%s, %s)' % (natlit(i), natlit(j)) for i, j in fr.perms[0]])))
                continue
            parent = rec.frames.get(path[:-1])
            if parent is not None and parent.kind == 'response' and isinstance(parent.grader, MatrixGrader) \
                    and isinstance(g, FormulaGrader) and g is parent.grader:
                continue            # the FormulaGrader.check_response frame inside MatrixGrader.check_response
            leafs.append('(%s, %s)' % (path_term(path), leaf_out(rec, fr)))
        else:
            if isinstance(g, ListGrader):
                for k, pm in enumerate(fr.perms):
                    perms.append('(%s, %s)' % (path_term(path + (k,)), listlit(['(%s, %s)' % (natlit(i), natlit(j)) for i, j in pm])))
                if fr.best is not None:
                    bests.append('(%s, %s)' % (path_term(path), natlit(fr.best)))
            elif isinstance(g, SummationGraderBase):
                if fr.status == 'exc':
                    leafs.append('(%s, LRaise)' % path_term(path))
                else:
                    leafs.append('(%s, (LCfn %s))' % (path_term(path), listlit([cfn_term(v) for v in fr.cfns])))
    return listlit(leafs), listlit(perms), listlit(bests)


def edx_term(result):
    if 'input_list' in result:
        return '(EMulti %s %s)' % (strlit(result.get('overall_message', '')), listlit([entry_term(e) for e in result['input_list']]))
    return '(ESingle %s)' % entry_term(result)
