"""C05 -- ListGrader gives the best consistent assignment and reports it per input box.

Tie (B), differential correspondence: real ListGraders (ordered / unordered, 1-3 alternative answer lists,
partial_credit on/off, groupings of up to 8 inputs with nested ListGrader / SingleListGrader subgraders) are
built around an author-defined table-driven ItemGrader (arbitrary credit matrices, optionally
sibling-sensitive).  The `check` method of every item-level subgrader instance is wrapped at run time (no
hooks in /repo): each invocation is recorded as (grader, answer object, input, siblings) -> outcome,
snapshotted at return.  Each case becomes one Coq term holding the grader tree, the answer tree, the inputs,
the recorded item calls, the observed per-answer-list results of the top-level perform_check and the observed
grader(None, inputs)['input_list'];  Model.ListGrader (lg_call / lg_performs), with the recorded table as its
item oracle and the Q instance of the Munkres model as its solver, is evaluated by vm_compute and compared
INSIDE Coq (Model/ListGraderAgree.v).

Property oracle on the implementation (independent of the model and of the wrappers' records): for every
level of the grader tree whose check was entered, the returned entries are compared with FRESH calls of the
subgraders (ordered: entry-by-entry, correct siblings; unordered: some one-to-one assignment reproduces the
entries and its total credit equals the maximum over all n! assignments, Fractions), the reported answer
list must reach the maximal total among the alternative lists, every entry must sit at the box of the
input it grades (through groupings), and partial_credit=False must zero everything unless all are correct.
"""
import ast
import itertools
import random
from math import gcd as _gcd
import zlib
from fractions import Fraction

from harness import core

ID = 'C05'
PROPS = 'Props/C05.v'
TRANSLATORS = []
MIRRORED = [('mitxgraders/listgrader.py', 'find_optimal_order'),
            ('mitxgraders/listgrader.py', 'consolidate_grades'),
            ('mitxgraders/listgrader.py', 'ListGrader.check'),
            ('mitxgraders/listgrader.py', 'ListGrader.perform_check'),
            ('mitxgraders/listgrader.py', 'ListGrader.get_ordered_input_list'),
            ('mitxgraders/listgrader.py', 'ListGrader.validate_submission'),
            ('mitxgraders/listgrader.py', 'ListGrader.create_grouping_map'),
            ('mitxgraders/listgrader.py', 'ListGrader.validate_grouping'),
            ('mitxgraders/listgrader.py', 'ListGrader.groupify_list'),
            ('mitxgraders/listgrader.py', 'ListGrader.ungroupify_list'),
            ('mitxgraders/listgrader.py', 'ListGrader.get_best_result'),
            ('mitxgraders/listgrader.py', 'ListGrader.schema_answers'),
            ('mitxgraders/helpers/munkres.py', 'Munkres'),
            ('mitxgraders/helpers/munkres.py', 'make_cost_matrix')]
REFUTED = []

HEADER = ('From Coq Require Import ZArith QArith List Bool Arith.\n'
          'From Verif.Lib Require Import QRound.\n'
          'From Verif.Model Require Import Result Munkres ListGrader ListGraderAgree.\n'
          'Import ListNotations.\nOpen Scope Z_scope.\n')
CASE_TYPE = 'lg_case'

EXACT = [0, 0, 0, 1, 1, 0.5, 0.25, 0.75, 0.125, 0.5]
TIES = [0, 1, 1, 0.5]
ROUNDED = [0, 1, 0.1, 0.3, 0.7, 1.0 / 3, 0.9, 0.45, 0.6, 0.2]
UNIVERSE = ['u%d' % i for i in range(8)] + ['u0,u1', 'u1,u0', 'u2,u3,u4', 'u5', 'u1,u2', 'u3 , u0']
RAISING = ['u1,,u2']          # makes a SingleListGrader subgrader raise MissingInput
# a second token family: short texts that collide under concatenation / prefixing ('1'+'12' = '11'+'2'), digits,
# shared prefixes and suffixes, near-duplicates differing by a blank
COLLIDING = ['1', '11', '2', '12', '21', '1', '2', '121', 'a', 'ab', 'b', 'ba', '1 ', ' 1']


# ------------------------------------------------------------------------------------------------
# the author-defined table-driven ItemGrader (built lazily: /repo must be importable first)
# ------------------------------------------------------------------------------------------------
_TABLE_CLS = []


def table_grader_class():
    if _TABLE_CLS:
        return _TABLE_CLS[0]
    from voluptuous import Required
    from mitxgraders.baseclasses import ItemGrader

    class TableGrader(ItemGrader):
        """credit(expect, input[, siblings]) is read from a deterministic table: an arbitrary credit matrix"""
        @property
        def schema_config(self):
            return super(TableGrader, self).schema_config.extend({
                Required('salt', default=0): int,
                Required('palette', default=(0, 1)): tuple,
                Required('fine', default=0): int,
                Required('sib', default=False): bool,
                Required('gid', default=0): int,
            })

        def credit(self, expect, student_input, siblings):
            cfg = self.config
            sibkey = ''
            if cfg['sib'] and siblings is not None:
                sibkey = '|'.join('%s:%r' % (getattr(s['grader'], 'verif_gid', '?'), s['input']) for s in siblings)
            h = zlib.crc32(('%d|%s|%s|%s' % (cfg['salt'], expect, student_input, sibkey)).encode())
            if expect == student_input and not cfg['sib']:
                return 1, h
            base = cfg['palette'][h % len(cfg['palette'])]
            fine = cfg['fine']
            if fine == 1:                      # credits k/1000
                return (h % 1001) / 1000.0, h
            if fine == 2:                      # arbitrary floats in [0, 1)
                return ((h * 2654435761) % 2 ** 32) / 2.0 ** 32, h
            if fine == 3:                      # near-ties: a coarse credit moved by 0, +-eps, +-2 eps, eps = 1e-3 .. 1e-6
                eps = 10.0 ** -(3 + (h >> 5) % 4)
                return min(1.0, max(0.0, base + ((h >> 9) % 5 - 2) * eps)), h
            return base, h

        def check_response(self, answer, student_input, **kwargs):
            c, h = self.credit(answer['expect'], student_input, kwargs.get('siblings'))
            grade = c * answer['grade_decimal']
            msg = ''
            if grade > 0:
                msg = answer['msg']
            elif h % 5 == 0:
                msg = 'w%d' % (h % 3)
            return {'ok': self.grade_decimal_to_ok(grade), 'grade_decimal': grade, 'msg': msg}

    _TABLE_CLS.append(TableGrader)
    return TableGrader


# ------------------------------------------------------------------------------------------------
# case specification: grader tree + answer tree
# ------------------------------------------------------------------------------------------------
class Item(object):
    def __init__(self, gid, kind, sib, salt, palette, slg_opts=None, fine=0):
        self.gid, self.kind, self.sib, self.salt, self.palette = gid, kind, sib, salt, palette
        self.fine = fine
        self.slg_opts = slg_opts or {}
        self.grader = None

    def describe(self):
        return {'item': self.gid, 'kind': self.kind, 'sib': self.sib, 'salt': self.salt,
                'palette': list(self.palette), 'slg': self.slg_opts, 'fine': self.fine}


class LNode(object):
    def __init__(self, gid, ordered, partial, sublist, subs, grouping):
        self.gid, self.ordered, self.partial, self.sublist, self.subs, self.grouping = \
            gid, ordered, partial, sublist, subs, grouping
        self.grader = None

    def describe(self):
        return {'list': self.gid, 'ordered': self.ordered, 'partial_credit': self.partial, 'sublist': self.sublist,
                'grouping': list(self.grouping), 'subs': [s.describe() for s in self.subs]}

    def group_map(self):
        if not self.grouping:
            return None
        gm = [[] for _ in range(max(self.grouping))]
        for i, g in enumerate(self.grouping):
            gm[g - 1].append(i)
        return gm

    def sub_at(self, slot):
        return self.subs[slot] if self.sublist else self.subs[0]


class Gen(object):
    """all random choices come from rng (derived from ctx['seed'])"""
    def __init__(self, rng, palette, allow_slg=True, allow_sib=True, nested_partial=None):
        self.rng, self.palette, self.allow_slg, self.allow_sib = rng, tuple(palette), allow_slg, allow_sib
        self.nested_partial = nested_partial       # partial_credit of nested ListGraders (None: random)
        self.fine = 0                              # fine-grained credit mode of the table graders (0: palette only)
        self.gid = 0
        self.aid = 0
        self.salt = rng.randrange(10**6)
        self.tokens = list(UNIVERSE[:8]) if rng.random() < 0.6 else list(COLLIDING)

    def next_gid(self):
        self.gid += 1
        return self.gid

    def item(self, in_ordered):
        r = self.rng
        kind = 'slg' if (self.allow_slg and r.random() < 0.2) else 'table'
        sib = bool(in_ordered and self.allow_sib and kind == 'table' and r.random() < 0.35)
        opts = {}
        if kind == 'slg':
            opts = {'ordered': r.random() < 0.5, 'partial_credit': r.random() < 0.7}
        return Item(self.next_gid(), kind, sib, self.salt + self.gid, self.palette, opts, self.fine)

    def lnode(self, m, depth, force=None):
        """a ListGrader spec for m >= 2 inputs"""
        r = self.rng
        gid = self.next_gid()
        force = force or {}
        ordered = force.get('ordered', r.random() < 0.5)
        partial = force.get('partial', r.random() < 0.7)
        if depth > 0 and self.nested_partial is not None:
            partial = self.nested_partial
        grouped = force.get('grouped', m >= 2 and depth < 2 and r.random() < (0.5 if depth == 0 else 0.3))
        grouping = force.get('grouping')
        if grouping is not None:
            grouped = bool(grouping)
        if not grouped:
            if ordered and r.random() < 0.6:
                return LNode(gid, True, partial, True, [self.item(True) for _ in range(m)], [])
            return LNode(gid, ordered, partial, False, [self.item(ordered)], [])
        if not ordered:
            ks = [k for k in range(2, m) if m % k == 0 and m // k >= 2]
            if not ks and grouping is None:
                return self.lnode_flat(gid, ordered, partial, m)
            if grouping is None:
                k = r.choice(ks)
                grouping = [g for g in range(1, m // k + 1) for _ in range(k)]
                r.shuffle(grouping)
            k = grouping.count(1)
            return LNode(gid, False, partial, False, [self.lnode(k, depth + 1)], grouping)
        if grouping is None:
            G = r.randint(2, m)
            while True:
                grouping = [r.randint(1, G) for _ in range(m)]
                if set(grouping) == set(range(1, G + 1)):
                    break
        sizes = [grouping.count(g) for g in range(1, max(grouping) + 1)]
        if len(set(sizes)) == 1 and sizes[0] >= 2 and r.random() < 0.4:
            return LNode(gid, True, partial, False, [self.lnode(sizes[0], depth + 1)], grouping)
        subs = [self.item(True) if s == 1 else self.lnode(s, depth + 1) for s in sizes]
        return LNode(gid, True, partial, True, subs, grouping)

    def lnode_flat(self, gid, ordered, partial, m):
        return LNode(gid, ordered, partial, False, [self.item(ordered)], [])

    # ---- answers ----
    def item_answer(self, node):
        r = self.rng
        self.aid += 1
        aid = self.aid
        if node.kind == 'slg':
            k = r.randint(1, 3)
            exp = [r.choice(self.tokens).strip() or '1' for _ in range(k)]
            cfg = {'expect': exp, 'grade_decimal': r.choice([1, 1, 0.5]), 'msg': r.choice(['', 'a%d' % aid])}
            return ('AItem', aid), cfg
        alts = []
        for _ in range(r.choice([1, 1, 2, 3])):
            exps = tuple(r.choice(self.tokens) for _ in range(r.choice([1, 1, 2])))
            alts.append({'expect': exps if len(exps) > 1 else exps[0],
                         'grade_decimal': r.choice([1, 1, 1, 0.5, 0.25]), 'msg': r.choice(['', 'a%d' % aid, 'b%d' % aid])})
        cfg = tuple(alts) if len(alts) > 1 or r.random() < 0.5 else alts[0]
        return ('AItem', aid), cfg

    def slots(self, node, m):
        return len(node.group_map()) if node.grouping else m

    def answer_list(self, node, m):
        """one answer list for LNode `node` over m inputs: (atree list, config list)"""
        gm = node.group_map()
        trees, cfgs = [], []
        for s in range(self.slots(node, m)):
            sub = node.sub_at(s)
            size = len(gm[s]) if gm else 1
            if isinstance(sub, Item):
                t, c = self.item_answer(sub)
            else:
                t, c = self.nested_answer(sub, size)
            trees.append(t)
            cfgs.append(c)
        return trees, cfgs

    def nested_answer(self, node, m):
        r = self.rng
        n = r.choice([1, 1, 2])
        lists = [self.answer_list(node, m) for _ in range(n)]
        tree = ('AAlts', [t for t, _ in lists])
        if n == 1 and r.random() < 0.6:
            return tree, lists[0][1]
        return tree, tuple(c for _, c in lists)

    def top_answers(self, node, m, n_alts):
        lists = [self.answer_list(node, m) for _ in range(n_alts)]
        tree = ('AAlts', [t for t, _ in lists])
        cfg = lists[0][1] if n_alts == 1 and self.rng.random() < 0.5 else tuple(c for _, c in lists)
        return tree, cfg


# ------------------------------------------------------------------------------------------------
# building the real graders
# ------------------------------------------------------------------------------------------------
def build(node, answers_cfg=None):
    from mitxgraders import ListGrader, SingleListGrader
    if isinstance(node, Item):
        TG = table_grader_class()
        tg = TG(salt=node.salt, palette=tuple(node.palette), sib=node.sib, gid=node.gid, fine=node.fine)
        if node.kind == 'slg':
            g = SingleListGrader(subgrader=tg, **node.slg_opts)
        else:
            g = tg
        g.verif_gid = node.gid
        node.grader = g
        return g
    subs = [build(s) for s in node.subs]
    kw = {'subgraders': subs if node.sublist else subs[0], 'ordered': node.ordered, 'partial_credit': node.partial}
    if node.grouping:
        kw['grouping'] = list(node.grouping)
    if answers_cfg is not None:
        kw['answers'] = answers_cfg
    g = ListGrader(**kw)
    g.verif_gid = node.gid
    node.grader = g
    return g


def map_answer_ids(node, tree, cfg_obj, idmap, keep):
    """walk the VALIDATED answers (grader.config['answers'] and below) alongside the answer tree"""
    assert tree[0] == 'AAlts' and isinstance(cfg_obj, tuple) and len(cfg_obj) == len(tree[1]), 'answer tuple shape'
    for alt_tree, alt_cfg in zip(tree[1], cfg_obj):
        assert isinstance(alt_cfg, list) and len(alt_cfg) == len(alt_tree), 'answer list shape'
        for s, (t, c) in enumerate(zip(alt_tree, alt_cfg)):
            sub = node.sub_at(s)
            if isinstance(sub, Item):
                assert t[0] == 'AItem'
                idmap[id(c)] = t[1]
                keep.append(c)
            else:
                map_answer_ids(sub, t, c, idmap, keep)


def items_of(node):
    if isinstance(node, Item):
        return [node]
    return [x for s in node.subs for x in items_of(s)]


def snap(entry):
    if not isinstance(entry, dict):
        return None
    return (entry.get('ok'), entry.get('grade_decimal'), entry.get('msg'))


def ginput_key(x):
    if isinstance(x, list):
        return ('many', tuple(x))
    return ('one', x)


class Recorder(object):
    def __init__(self, top, idmap):
        self.rows = {}
        self.order = []
        self.idmap = idmap
        self.problems = []
        self.performs = []
        self.perform_failed = False
        self.wrapped = []
        for it in items_of(top):
            self.wrap_item(it)
        self.wrap_perform(top)

    def wrap_item(self, it):
        orig = it.grader.check
        rec = self

        def wrapper(answers, student_input, **kwargs):
            aid = rec.idmap.get(id(answers))
            if aid is None:
                rec.problems.append('answer object not identified for grader %d' % it.gid)
            sibs = kwargs.get('siblings')
            skey = None
            if sibs is not None:
                skey = tuple((getattr(s['grader'], 'verif_gid', -1), ginput_key(s['input'])) for s in sibs)
            key = (it.gid, aid, ginput_key(student_input), skey)
            try:
                out = orig(answers, student_input, **kwargs)
            except Exception:
                rec.note(key, None)
                raise
            rec.note(key, snap(out))
            return out
        it.grader.check = wrapper
        self.wrapped.append(it.grader)

    def wrap_perform(self, top):
        orig = top.grader.perform_check
        rec = self

        def wrapper(answers, student_list):
            try:
                out = orig(answers, student_list)
            except Exception:
                rec.perform_failed = True
                raise
            rec.performs.append([snap(e) for e in out['input_list']])
            return out
        top.grader.perform_check = wrapper
        self.wrapped.append(top.grader)

    def note(self, key, val):
        if key in self.rows:
            if self.rows[key] != val:
                self.problems.append('item grader not a function of its arguments at %r' % (key,))
            return
        self.rows[key] = val
        self.order.append(key)

    def reset(self):
        self.rows, self.order, self.problems, self.performs, self.perform_failed = {}, [], [], [], False

    def unwrap(self):
        for g in self.wrapped:
            for name in ('check', 'perform_check'):
                if name in g.__dict__:
                    del g.__dict__[name]


class Case(object):
    """one built grader tree with its answers; can be called on many input lists"""
    def __init__(self, top, tree, answers_cfg, palette_name, tokens=None):
        self.top, self.tree, self.palette_name = top, tree, palette_name
        self.tokens = list(tokens or UNIVERSE[:8])
        self.answers_repr = repr(answers_cfg)
        build(top, answers_cfg)
        self.idmap, self.keep = {}, []
        map_answer_ids(top, tree, top.grader.config['answers'], self.idmap, self.keep)
        self.rec = Recorder(top, self.idmap)

    def call(self, inputs):
        self.rec.reset()
        self.history = getattr(self, 'history', [])
        self.history.append(list(inputs))
        st, out = core.guarded(self.top.grader, None, list(inputs))
        if st == 'timeout':
            return 'timeout', None
        if st == 'exc':
            return 'exc', out
        return 'ret', [snap(e) for e in out['input_list']]


# ------------------------------------------------------------------------------------------------
# Coq terms (compact constructors of Model/ListGraderAgree.v; Z_scope is open in the case files, the
# constructors' argument types select nat / positive scopes)
# ------------------------------------------------------------------------------------------------
def zl(n):
    n = int(n)
    return '(%d)' % n if n < 0 else '%d' % n


def bl(b):
    return 'true' if b else 'false'


def gtree_term(node):
    if isinstance(node, Item):
        return '(TItem %d)' % node.gid
    cfg = '(cfg %s %s %s %d %s)' % (bl(node.ordered), bl(node.partial), bl(node.sublist),
                                    len(node.subs) if node.sublist else 0,
                                    ('[' + ';'.join('%d' % g for g in node.grouping) + ']%nat') if node.grouping else '[]')
    return '(TList %d %s [%s])' % (node.gid, cfg, ';'.join(gtree_term(s) for s in node.subs))


def atree_term(t):
    if t[0] == 'AItem':
        return '(AItem %d)' % t[1]
    return '(AAlts [%s])' % ';'.join('[' + ';'.join(atree_term(x) for x in alt) + ']' for alt in t[1])


class Universe(object):
    def __init__(self):
        self.ix = {}

    def z(self, s):
        if s not in self.ix:
            self.ix[s] = len(self.ix)
        return '%d' % self.ix[s]


def ginput_term(k, uni):
    if k[0] == 'one':
        return '(o1 %s)' % uni.z(k[1])
    return '(om [%s])' % ';'.join(uni.z(x) for x in k[1])


OK_FN = {True: 'eT', False: 'eF', 'partial': 'eP'}


def entry_term(e):
    ok, grade, msg = e
    fr = Fraction(grade)
    return '(%s %s %d [%s])' % (OK_FN[ok], zl(fr.numerator), fr.denominator, ';'.join('%d' % ord(ch) for ch in msg))


def entries_ok(es):
    return es is not None and all(e is not None and e[0] in (True, False, 'partial') and isinstance(e[2], str)
                                  and isinstance(e[1], (int, float)) for e in es)


def case_term(case, inputs, status, out):
    rec = case.rec
    uni = Universe()
    xs = '[' + ';'.join(uni.z(x) for x in inputs) + ']'
    rows, sib_names, lets = [], {}, []
    for key in rec.order:
        gid, aid, gk, skey = key
        val = rec.rows[key]
        if skey is None:
            sib = 'None'
        else:
            if skey not in sib_names:
                sib_names[skey] = 's%d' % len(sib_names)
                lets.append('let %s := Some [%s] in ' % (sib_names[skey],
                            ';'.join('sb %d %s' % (g, ginput_term(k, uni)) for g, k in skey)))
            sib = sib_names[skey]
        o = 'None' if val is None else '(Some %s)' % entry_term(val)
        rows.append('rw %d %d %s %s %s' % (gid, aid if aid is not None else 0, ginput_term(gk, uni), sib, o))
    table = '[' + ';'.join(rows) + ']'
    if rec.perform_failed or not all(entries_ok(p) for p in rec.performs):
        performs = 'None'
    else:
        performs = '(Some [%s])' % ';'.join('[' + ';'.join(entry_term(e) for e in p) + ']' for p in rec.performs)
    obs = 'None' if status != 'ret' else '(Some [%s])' % ';'.join(entry_term(e) for e in out)
    return '(%smkcase %s %s %s %s %s %s)' % (''.join(lets), gtree_term(case.top), atree_term(case.tree), xs, table, performs, obs)


# ------------------------------------------------------------------------------------------------
# the property oracle (on the implementation, fresh subgrader calls, Fractions)
# ------------------------------------------------------------------------------------------------
EPS = Fraction(1, 10**9)


def F(x):
    return Fraction(x)


def fmt(msg):
    return msg.replace('\n', '<br/>\n')


def snapf(entry, formatted):
    t = snap(entry)
    if formatted and t is not None and isinstance(t[2], str):
        return (t[0], t[1], fmt(t[2]))
    return t


def unwrapped(g, name):
    """the class's method bound to g: bypasses the recording wrapper installed on the instance"""
    return getattr(type(g), name).__get__(g)


def fresh_sub(sub, answer, ginput, siblings, formatted):
    """what the subgrader returns for (answer, input): a list of entry triples, or ('exc', e)"""
    kw = {} if siblings is None else {'siblings': siblings}
    st, out = core.guarded(unwrapped(sub.grader, 'check'), answer, ginput, **kw)
    if st != 'ret':
        return ('exc', out)
    if 'input_list' in out:
        return [snapf(e, formatted) for e in out['input_list']]
    return [snapf(out, formatted)]


def group_inputs(node, inputs):
    gm = node.group_map()
    if gm is None:
        return [[i] for i in range(len(inputs))], list(inputs)
    return gm, [inputs[g[0]] if len(g) == 1 else [inputs[i] for i in g] for g in gm]


def level_oracle(node, answers, inputs, observed, formatted, count):
    """The property at one ListGrader level.  answers: the validated tuple of answer lists given to check;
    inputs: list of str; observed: the entry triples returned by this level (or ('exc', e)).
    Returns None or a description of the violation."""
    count[0] += 1
    n_in = len(inputs)
    if node.grouping and len(node.grouping) != n_in:
        return None if isinstance(observed, tuple) else 'a submission with the wrong number of inputs was graded'
    gm, ginputs = group_inputs(node, inputs)
    per_list = []
    raised = False
    for alist in answers:
        if not node.grouping and len(alist) != n_in:
            raised = True
            continue
        if len(alist) != len(ginputs):
            return None                   # number of groups != number of answers: outside the quantifier (never generated)
        if node.ordered:
            graders = [node.sub_at(s) for s in range(len(alist))]
            sibs = [{'grader': g.grader, 'input': x} for g, x in zip(graders, ginputs)]
            row = [fresh_sub(g, a, x, sibs, formatted) for g, a, x in zip(graders, alist, ginputs)]
            if any(isinstance(r, tuple) for r in row):
                raised = True
                continue
            per_list.append(('ordered', row))
        else:
            sub = node.sub_at(0)
            R = [[fresh_sub(sub, a, x, None, formatted) for a in alist] for x in ginputs]
            if any(isinstance(r, tuple) for rw in R for r in rw):
                raised = True
                continue
            per_list.append(('unordered', R))
    if isinstance(observed, tuple):
        return None if raised else ('raised %r although no subgrader call raises and the submission has the right length'
                                    % (observed[1],))
    if raised:
        return 'returned a result although a subgrader raises / the submission has the wrong length'
    if len(observed) != n_in or any(e is None for e in observed):
        return 'result has %d entries (some possibly empty) for %d inputs' % (len(observed), n_in)

    def lay_out(rows):
        """entries of the chosen sub-results at the boxes of the inputs they grade"""
        boxes = [None] * n_in
        for g, r in zip(gm, rows):
            if len(r) != len(g):
                return None
            for i, e in zip(g, r):
                boxes[i] = e
        return boxes

    # total credit of every sub-result, once, as integers over a common denominator
    fr = [[[sum(F(e[1]) for e in r) for r in rw] for rw in (data if kind == 'unordered' else [data])]
          for kind, data in per_list]
    den = 1
    for m3 in fr:
        for rw in m3:
            for t in rw:
                den = den * t.denominator // _gcd(den, t.denominator)
    ints = [[[int(t * den) for t in rw] for rw in m3] for m3 in fr]
    eps_i = EPS * den

    def assignments(k):
        kind, data = per_list[k]
        T = ints[k]
        if kind == 'ordered':
            yield sum(T[0]), None
        else:
            n = len(data)
            rng_n = range(n)
            for p in itertools.permutations(rng_n):
                yield sum(T[i][p[i]] for i in rng_n), p

    def rows_of(k, p):
        kind, data = per_list[k]
        return data if p is None else [data[i][p[i]] for i in range(len(data))]

    overall_i = max(t for k in range(len(per_list)) for t, _ in assignments(k))
    overall = Fraction(overall_i, den)
    # acceptable results before zeroing: an alternative list, a one-to-one assignment, maximal total, right boxes
    in_cands, some_imperfect = False, False
    for k in range(len(per_list)):
        for t, p in assignments(k):
            if t < overall_i - eps_i:
                continue
            lay = lay_out(rows_of(k, p))
            if lay is None or any(e is None for e in lay):
                some_imperfect = True
                continue
            if lay == observed:
                in_cands = True
            if not all(e[0] is True for e in lay):
                some_imperfect = True
    if node.partial:
        if in_cands:
            return None
        return ('the entries %r are not those of an answer list under a one-to-one assignment of maximal total credit (%s), '
                'placed at the boxes of the inputs they grade' % (observed, float(overall)))
    if all(e[0] is True for e in observed):
        return None if in_cands else 'all-correct result %r is not that of any answer list / assignment' % (observed,)
    if not all(e[0] is False and e[1] == 0 for e in observed):
        return 'partial_credit=False but a not-fully-correct result was not zeroed: %r' % (observed,)
    if not some_imperfect:
        return 'every maximal result is fully correct, yet the entries were zeroed'
    return None


def nested_levels(node, answers, inputs, count, problems, seen):
    """every nested ListGrader invocation that this level performs is checked in isolation (fresh call of its
    own check against fresh calls of its own subgraders)"""
    if node.grouping and len(node.grouping) != len(inputs):
        return
    gm, ginputs = group_inputs(node, inputs)
    for alist in answers:
        if len(alist) != len(ginputs):
            continue
        pairs = [(s, s) for s in range(len(alist))] if node.ordered else \
                [(i, j) for i in range(len(ginputs)) for j in range(len(alist))]
        for i, j in pairs:
            sub = node.sub_at(j)
            if not (isinstance(sub, LNode) and isinstance(ginputs[i], list)):
                continue
            key = (sub.gid, id(alist[j]), tuple(ginputs[i]))
            if key in seen:
                continue
            seen.add(key)
            st, out = core.guarded(unwrapped(sub.grader, 'check'), alist[j], list(ginputs[i]))
            obs = [snap(e) for e in out['input_list']] if st == 'ret' else ('exc', out)
            what = level_oracle(sub, alist[j], list(ginputs[i]), obs, False, count)
            if what:
                problems.append('nested ListGrader %d on %r: %s' % (sub.gid, ginputs[i], what))
            nested_levels(sub, alist[j], list(ginputs[i]), count, problems, seen)


def oracle(top, inputs, status, out, count, nested=True):
    """top level: `out` = entry triples of grader(None, inputs)['input_list'] (messages formatted) or the exception"""
    answers = top.grader.config['answers']
    observed = out if status == 'ret' else ('exc', out)
    what = level_oracle(top, answers, list(inputs), observed, True, count)
    if what is None and nested and status == 'ret':
        problems = []
        nested_levels(top, answers, list(inputs), count, problems, set())
        if problems:
            what = problems[0]
    return what


# ------------------------------------------------------------------------------------------------
# generators
# ------------------------------------------------------------------------------------------------
def grouped_levels(node, boxes):
    """every ListGrader level with a grouping, with the top-level box numbers of its own boxes"""
    if isinstance(node, Item):
        return []
    out = []
    gm = node.group_map()
    if gm is not None and len(node.grouping) == len(boxes):
        out.append((node, boxes))
        for s, g in enumerate(gm):
            out += grouped_levels(node.sub_at(s), [boxes[i] for i in g])
    return out


def resplit(rng, text, k):
    """cut `text` into k non-empty pieces at random places (None if too short)"""
    if len(text) < k:
        return None
    cuts = sorted(rng.sample(range(1, len(text)), k - 1)) if k > 1 else []
    return [text[a:b] for a, b in zip([0] + cuts, cuts + [len(text)])]


def first_expect(sub, answer):
    """a text the subgrader's first alternative of `answer` (validated form) expects; None if not expressible"""
    if isinstance(sub, Item):
        first = answer[0]['expect'][0]
        if sub.kind == 'slg':
            parts = [first_expect(Item(0, 'table', False, 0, ()), a) for a in first]
            return None if any(q is None for q in parts) else ','.join(parts)
        return first if isinstance(first, str) else None
    return None


def correct_inputs(rng, node, answers, m):
    """a submission built from the answers: every box receives the text its (first) answer expects; for unordered
    levels the answers are dealt to the boxes / groups in a random order"""
    alist = list(answers[rng.randrange(len(answers))])
    gm = node.group_map() or [[i] for i in range(m)]
    if len(alist) != len(gm):
        return None
    if not node.ordered:
        rng.shuffle(alist)
    xs = [None] * m
    for s, (g, a) in enumerate(zip(gm, alist)):
        sub = node.sub_at(s)
        if isinstance(sub, LNode):
            inner = correct_inputs(rng, sub, a, len(g))
            if inner is None:
                return None
            for i, x in zip(g, inner):
                xs[i] = x
        else:
            if len(g) != 1:
                return None
            xs[g[0]] = first_expect(sub, a)
    return None if any(x is None for x in xs) else xs


def any_expect(rng, sub, answer):
    """a text that SOME alternative of `answer` (validated form) expects"""
    alt = answer[rng.randrange(len(answer))]
    exp = alt['expect'][rng.randrange(len(alt['expect']))]
    if sub.kind == 'slg':
        return ','.join(any_expect(rng, Item(0, 'table', False, 0, ()), a) for a in exp)
    return exp


def mixed_inputs(rng, node, answers, m, cross=0.35):
    """a submission assembled from the author's expected texts ACROSS rows, alternative lists and alternatives: each
    box / group mostly follows one answer list (dealt in random order when unordered) but with probability `cross`
    takes the expected text of another row or list at the same nesting position -- groups that are correct for one
    row, partly correct for several, or correct for none"""
    gm = node.group_map() or [[i] for i in range(m)]
    base = answers[rng.randrange(len(answers))]
    if len(base) != len(gm):
        return None
    order = list(range(len(gm)))
    if not node.ordered:
        rng.shuffle(order)
    xs = [None] * m
    for s, g in enumerate(gm):
        alist = base if rng.random() >= cross else answers[rng.randrange(len(answers))]
        col = order[s]
        if not node.sublist and rng.random() < cross:
            col = rng.randrange(len(alist))
        a = alist[col]
        sub = node.sub_at(s)
        if isinstance(sub, LNode):
            inner = mixed_inputs(rng, sub, a, len(g), cross)
            if inner is None:
                return None
            for i, x in zip(g, inner):
                xs[i] = x
        else:
            if len(g) != 1:
                return None
            xs[g[0]] = any_expect(rng, sub, a)
    return xs


def gen_inputs(rng, case, m, with_raising):
    has_slg = any(it.kind == 'slg' for it in items_of(case.top))
    toks = case.tokens
    pool = toks + ([','.join(rng.choice(toks).strip() or '1' for _ in range(rng.randint(2, 3))) for _ in range(4)]
                   + ['u3 , u0'] if has_slg else [])
    mode = rng.random()
    xs = None
    if mode < 0.25:                                  # built from the answers (mostly fully correct submissions)
        xs = correct_inputs(rng, case.top, case.top.grader.config['answers'], m)
        if xs is not None and rng.random() < 0.4:    # ... with one box spoiled
            xs[rng.randrange(m)] = rng.choice(pool)
    elif mode < 0.45:                                # assembled from expected texts across rows / lists
        xs = mixed_inputs(rng, case.top, case.top.grader.config['answers'], m)
    if xs is None:
        xs = [rng.choice(pool[:4]) if mode < 0.6 else rng.choice(pool) for _ in range(m)]   # < 0.6: many duplicates
    # two groups of one level whose boxes differ but read the same when concatenated / re-split, or are duplicates
    levels = grouped_levels(case.top, list(range(m))) if len(xs) == m else []
    levels = [(nd, bx) for nd, bx in levels if len(nd.group_map()) >= 2]
    if levels and rng.random() < 0.35:
        nd, bx = levels[rng.randrange(len(levels))]
        gm = nd.group_map()
        g1, g2 = rng.sample(range(len(gm)), 2)
        if len(gm[g1]) == len(gm[g2]):
            text = ''.join(xs[bx[i]] for i in gm[g1])
            pieces = resplit(rng, text, len(gm[g2])) if rng.random() < 0.8 else [xs[bx[i]] for i in gm[g1]]
            if pieces is not None:
                for i, piece in zip(gm[g2], pieces):
                    xs[bx[i]] = piece
    if with_raising and has_slg and rng.random() < 0.3:
        xs[rng.randrange(m)] = RAISING[0]
    return xs


def history_of(rng, case, m):
    """a sequence of related submissions for one grader object: a base submission (built from the answers when
    possible), the base with one box spoiled, the base again, the base with two groups / boxes exchanged, another
    spoiled variant, the base once more, an unrelated submission, the base"""
    top = case.top
    base = correct_inputs(rng, top, top.grader.config['answers'], m) or gen_inputs(rng, case, m, False)

    def spoiled():
        xs = list(base)
        xs[rng.randrange(m)] = rng.choice(case.tokens + ['zz'])
        return xs

    def exchanged():
        xs = list(base)
        gm = top.group_map() or [[i] for i in range(m)]
        same = [(a, b) for a in range(len(gm)) for b in range(a + 1, len(gm)) if len(gm[a]) == len(gm[b])]
        if same:
            a, b = rng.choice(same)
            for i, j in zip(gm[a], gm[b]):
                xs[i], xs[j] = xs[j], xs[i]
        return xs
    seq = [spoiled(), list(base), exchanged(), spoiled(), list(base), gen_inputs(rng, case, m, False), list(base)]
    if rng.random() < 0.5:
        seq.insert(0, list(base))
    return seq


def make_case(rng, palette_name, m=None, force=None, n_alts=None, allow_slg=True, nested_partial=None):
    palette = {'exact': EXACT, 'ties': TIES, 'rounded': ROUNDED, 'fine': TIES}[palette_name]
    gen = Gen(rng, palette, allow_slg=allow_slg, nested_partial=nested_partial)
    if palette_name == 'fine':              # credits k/1000, arbitrary floats, or near-ties around coarse credits
        gen.fine = rng.choice([1, 2, 3, 3])
    m = m or rng.choice([2, 2, 3, 3, 4, 4, 5, 6, 6, 7, 8])
    top = gen.lnode(m, 0, force)
    n_alts = n_alts or rng.choice([1, 1, 2, 3])
    tree, cfg = gen.top_answers(top, m, n_alts)
    return Case(top, tree, cfg, palette_name, gen.tokens), m


def valid_groupings(m, unordered):
    """every valid grouping of m inputs (contiguous group numbers from 1; equal sizes when unordered)"""
    out = []
    for lab in itertools.product(range(1, m + 1), repeat=m):
        G = max(lab)
        if set(lab) != set(range(1, G + 1)) or G < 2:      # one group = a single answer: refused by the schema
            continue
        if unordered:
            sizes = {lab.count(g) for g in range(1, G + 1)}
            if len(sizes) != 1 or G < 2 or min(sizes) < 2:
                continue
        out.append(list(lab))
    return out


def pow2(k):
    return k >= 1 and (k & (k - 1)) == 0


def averages_exact(node):
    """find_optimal_order averages the entries of long-form results (sum / k): exact in binary floating point
    only when every unordered grouped level has groups of 1, 2, 4 or 8 boxes"""
    if isinstance(node, Item):
        return True
    if node.grouping and not node.ordered and not pow2(node.grouping.count(1)):
        return False
    return all(averages_exact(s) for s in node.subs)


def float_exact(case):
    """every float operation of this run is exact (then entries are compared by equality, otherwise totals within
    1e-9): recorded subgrader grades are dyadic with small denominators and all averages are over 2^k entries"""
    if not averages_exact(case.top):
        return False
    for v in case.rec.rows.values():
        if v is not None and isinstance(v[1], (int, float)) and Fraction(v[1]).denominator > 1024:
            return False
    return True


class Runner(object):
    def __init__(self, ctx, res):
        self.ctx, self.res = ctx, res
        self.terms_exact, self.metas_exact = [], []
        self.terms_total, self.metas_total = [], []
        self.count = [0]
        self.dist = {}

    def bump(self, k, n=1):
        self.dist[k] = self.dist.get(k, 0) + n

    def one(self, case, inputs, check_nested=True, fresh_reference=False):
        """grade `inputs` on the case's grader OBJECT (which keeps whatever earlier submissions left behind) and judge
        the result.  fresh_reference: the oracle's subgrader calls go to a grader tree rebuilt from the configuration
        alone, so that nothing the graded object remembers can enter the expected result."""
        res = self.res
        earlier = list(getattr(case, 'history', []))      # shallow: the inner lists are never mutated
        status, out = case.call(inputs)
        meta = {'grader': case.top.describe(), 'answers': case.answers_repr, 'inputs': list(inputs),
                'palette': case.palette_name, 'history': earlier}
        if status == 'timeout':
            res.witnesses.append(dict(meta, key='timeout:%r' % (inputs,), kind='timeout', what='grader call did not return in 10 s'))
            return status, out
        if case.rec.problems:
            res.corr_errors.append(('c05-recorder', '; '.join(case.rec.problems[:3])))
        exact_entries = case.palette_name not in ('rounded', 'fine') and float_exact(case)
        term = case_term(case, inputs, status, out)
        if exact_entries:
            self.terms_exact.append(term)
            self.metas_exact.append(meta)
        else:
            self.terms_total.append(term)
            self.metas_total.append(meta)
        judge = rebuild(meta) if fresh_reference else case.top
        what = oracle(judge, inputs, status, out, self.count, nested=check_nested)
        if what and earlier:
            what += '  [same grader object, after %d earlier submission(s)]' % len(earlier)
        if what:
            res.witnesses.append(dict(meta, key='case:%s|%s|%r' % (case.top.describe(), case.answers_repr, inputs),
                                      kind='call', observed=repr(out), what=what))
        top = case.top
        self.bump('ordered' if top.ordered else 'unordered')
        self.bump('grouped' if top.grouping else 'flat')
        self.bump('n=%d' % len(inputs))
        self.bump('alts=%d' % len(case.tree[1]))
        self.bump('partial_credit=%s' % top.partial)
        self.bump('raised' if status != 'ret' else 'returned')
        if status == 'ret':
            grades = tuple(e[1] for e in out)
            if len(set(grades)) > 1 or (grades and 0 < grades[0] < 1):
                res.nontrivial.add((repr(case.top.describe()), case.answers_repr, tuple(inputs)))
        if len(res.samples) < 4 and status == 'ret' and top.grouping and self.count[0] % 3 == 0:
            res.samples.append(dict(meta, observed=repr(out)))
        return status, out

    def flush(self):
        res = self.res
        hdr = HEADER
        for tag, fn, terms, metas in (('c05_exact', 'agree_exact', self.terms_exact, self.metas_exact),
                                      ('c05_total', 'agree_total', self.terms_total, self.metas_total)):
            if not terms:
                continue
            shard = max(30, (len(terms) + 9) // 10) if len(terms) < 3000 else 300
            n, failing, errors = core.eval_agreement(tag, hdr, fn, terms, shard=shard, case_type=CASE_TYPE)
            res.programs += n
            res.corr_errors += errors
            for i in failing:
                res.disagreements.append(dict(metas[i], stream=tag))
        res.oracle_evals += self.count[0]
        res.distribution.update(self.dist)


def corpus(runner, rng):
    """fixed shapes that run first on every seed: the docstring grouping, box-permuting singleton groups,
    nested unordered inside unordered, three alternative lists with equal totals"""
    shapes = [
        dict(m=7, force={'ordered': True, 'grouping': [3, 1, 1, 2, 2, 1, 2]}),
        dict(m=3, force={'ordered': True, 'grouping': [2, 3, 1]}),
        dict(m=4, force={'ordered': False, 'grouping': [1, 2, 1, 2]}),
        dict(m=6, force={'ordered': False, 'grouping': [2, 1, 3, 3, 1, 2]}),
        dict(m=8, force={'ordered': False, 'grouping': [1, 2, 2, 1, 1, 2, 2, 1]}),
        dict(m=8, force={'ordered': False, 'grouping': [4, 1, 3, 2, 2, 3, 1, 4]}),
        dict(m=6, force={'ordered': False, 'grouped': False}),
        dict(m=5, force={'ordered': True, 'grouped': False}),
        dict(m=4, force={'ordered': False, 'grouped': False, 'partial': False}, n_alts=3),
        dict(m=2, force={'ordered': False, 'grouped': False}, n_alts=2),
    ]
    for k, sh in enumerate(shapes):
        for pal in ('exact', 'ties'):
            r = random.Random(7919 * k + (1 if pal == 'ties' else 0))
            case, m = make_case(r, pal, m=sh['m'], force=dict(sh['force']), n_alts=sh.get('n_alts'))
            for _ in range(3):
                runner.one(case, gen_inputs(r, case, m, False))
            case.rec.unwrap()


def run(ctx):
    res = core.Result()
    rng = random.Random(1000003 * ctx['seed'] + 5)
    thorough = ctx['tier'] == 'thorough'
    big = thorough or ctx['escalate']
    runner = Runner(ctx, res)
    res.rule = ('one case = (grader tree, answer lists, input list); non-trivial = the returned grades are not all equal or '
                'lie strictly between 0 and 1; distinct by the triple')
    table_grader_class()
    corpus(runner, rng)

    # 1. random trees x random inputs (exact / tie-heavy / rounded credit tables)
    n_cases = 2500 if thorough else (700 if big else 250)
    for i in range(n_cases):
        pal = 'fine' if i % 7 == 6 else ('exact', 'ties', 'rounded')[i % 3]
        case, m = make_case(rng, pal)
        for _ in range(2):
            runner.one(case, gen_inputs(rng, case, m, True))
        if rng.random() < 0.15:                       # wrong number of inputs: validate_submission
            xs = gen_inputs(rng, case, m, False)
            runner.one(case, xs[:-1] if rng.random() < 0.5 else xs + ['u0'])
        case.rec.unwrap()

    # 1b. histories: the SAME grader object grades a sequence of related submissions (correct, one box spoiled,
    #     correct again, two groups / boxes exchanged, ...) in every ordered / grouping / partial_credit mode; each
    #     result is judged against a tree rebuilt from the configuration alone
    n_hist = 160 if thorough else (64 if big else 40)
    for i in range(n_hist):
        ordered, grouped, partial = bool(i & 1), bool(i & 2), bool(i & 4)
        m = rng.choice([4, 6, 8] if grouped and not ordered else [2, 3, 4, 5, 6])
        case, m = make_case(rng, ('exact', 'ties', 'rounded')[i % 3] if i % 5 else 'exact', m=m,
                            force={'ordered': ordered, 'grouped': grouped, 'partial': partial},
                            n_alts=rng.choice([1, 1, 2]), nested_partial=bool(i & 8))
        for xs in history_of(rng, case, m):
            runner.one(case, xs, fresh_reference=True)
        runner.bump('history_sequences')
        case.rec.unwrap()

    # 1c. grouped graders over nested ListGraders with partial_credit False / True: what the parent optimises must be
    #     the nested grader's REPORTED (post-zeroing) credit.  Tie-heavy credit tables, overlapping answer rows,
    #     submissions assembled from the expected texts across rows; every result judged by the exhaustive oracle
    n_nest = 120 if thorough else (48 if big else 30)
    for i in range(n_nest):
        ordered = (i % 4 == 3)
        case, m = make_case(rng, ('ties', 'ties', 'exact')[i % 3], m=rng.choice([4, 4, 6, 6, 8]),
                            force={'ordered': ordered, 'grouped': True, 'partial': bool(i & 4)},
                            n_alts=rng.choice([1, 1, 2]), allow_slg=False, nested_partial=(i % 5 == 4))
        answers = case.top.grader.config['answers']
        for k in range(6):
            xs = mixed_inputs(rng, case.top, answers, m, cross=(0.2, 0.35, 0.5)[k % 3]) or gen_inputs(rng, case, m, False)
            runner.one(case, xs)
        runner.bump('nested_zeroing_cases')
        case.rec.unwrap()

    # 1d. arbitrary credit matrices with fine-grained credits (k/1000, arbitrary floats, near-ties: assignments whose
    #     totals differ by 1e-3 .. 1e-6): the reported assignment must still be the maximal one (oracle tolerance 1e-9)
    n_fine = 400 if thorough else (150 if big else 90)
    for i in range(n_fine):
        grouped = (i % 6 == 5)
        case, m = make_case(rng, 'fine', m=rng.choice([4, 6] if grouped else [2, 2, 3, 3, 4, 5]),
                            force={'ordered': False, 'grouped': grouped, 'partial': True},
                            n_alts=rng.choice([1, 1, 2]), allow_slg=False, nested_partial=True)
        for _ in range(4):
            runner.one(case, gen_inputs(rng, case, m, False))
        runner.bump('fine_credit_cases')
        case.rec.unwrap()

    # 2. all permutations of an input list (n <= 4 quick, n <= 6 thorough), unordered and ordered, flat
    max_perm_n = 6 if thorough else 4
    reps = 6 if thorough else 2
    for n in range(2, max_perm_n + 1):
        for rep in range(reps if n < 6 else 2):
            for ordered in (False, True):
                pal = ('exact', 'ties', 'rounded')[(n + rep) % 3]
                case, m = make_case(rng, pal, m=n, force={'ordered': ordered, 'grouped': False},
                                    n_alts=rng.choice([1, 2, 3]), allow_slg=False)
                base = gen_inputs(rng, case, n, False)
                totals = set()
                perms = sorted(set(itertools.permutations(base)))
                for p in perms:
                    st, out = runner.one(case, list(p), check_nested=False)
                    if st == 'ret' and not ordered and case.top.partial:
                        totals.add(sum(F(e[1]) for e in out))
                runner.bump('permutation_sweeps')
                if len(totals) > 1 and max(totals) - min(totals) > EPS:
                    res.witnesses.append({'key': 'perm:%s|%s|%r' % (case.top.describe(), case.answers_repr, base),
                                          'kind': 'permutation', 'grader': case.top.describe(),
                                          'answers': case.answers_repr, 'inputs': base, 'palette': pal,
                                          'what': 'total credit of an unordered grader depends on the order of the inputs: %r'
                                                  % sorted(map(float, totals))})
                case.rec.unwrap()

    # 3. every valid grouping of m inputs (m <= 4 quick: exhaustive; up to 6 thorough: exhaustive, 7-8: sampled)
    max_g = 6 if thorough else 4
    for m in range(2, max_g + 1):
        for unordered in (False, True):
            for grouping in valid_groupings(m, unordered):
                pal = ('exact', 'ties')[len(grouping) % 2]
                case, _ = make_case(rng, pal, m=m, force={'ordered': not unordered, 'grouping': grouping},
                                    n_alts=rng.choice([1, 2]))
                runner.one(case, gen_inputs(rng, case, m, False))
                runner.bump('groupings_enumerated')
                case.rec.unwrap()
    for m in ((5, 6, 7, 8) if not thorough else (7, 8)):
        for _ in range(60 if thorough else 14):
            unordered = rng.random() < 0.4
            case, _ = make_case(rng, ('exact', 'ties')[m % 2], m=m,
                                force={'ordered': not unordered, 'grouped': True}, n_alts=rng.choice([1, 2, 3]))
            runner.one(case, gen_inputs(rng, case, m, False))
            runner.bump('groupings_sampled')
            case.rec.unwrap()

    res.exhaustive = False
    runner.flush()
    res.notes.append('exact/ties palettes: every entry compared with Qeq_bool; rounded palette: totals within 1e-9 and the '
                     'oracle with the same tolerance (float ties between assignments / lists of equal exact total are "any maximal one")')
    return res


# ------------------------------------------------------------------------------------------------
def rebuild(w):
    """re-create the grader of a witness from its description"""
    def node_of(d):
        if 'item' in d:
            return Item(d['item'], d['kind'], d['sib'], d['salt'], tuple(d['palette']), d['slg'], d.get('fine', 0))
        return LNode(d['list'], d['ordered'], d['partial_credit'], d['sublist'], [node_of(s) for s in d['subs']], d['grouping'])
    top = node_of(w['grader'])
    answers = ast.literal_eval(w['answers'])      # a Python literal written by this module
    build(top, answers)

    def init_logs(node):
        # check() is called directly on these graders by the oracle; __call__ would have created the debug log
        node.grader.debuglog = []
        for sub in getattr(node, 'subs', []):
            init_logs(sub)
    init_logs(top)
    return top


def replay(w):
    table_grader_class()
    top = rebuild(w)
    count = [0]
    if w.get('kind') == 'permutation':
        totals = set()
        for p in sorted(set(itertools.permutations(w['inputs']))):
            st, out = core.guarded(top.grader, None, list(p))
            if st == 'ret':
                totals.add(sum(F(e['grade_decimal']) for e in out['input_list']))
        bad = len(totals) > 1 and max(totals) - min(totals) > EPS
        return bad, 'totals over all permutations of %r: %r' % (w['inputs'], sorted(map(float, totals)))
    for h in w.get('history') or []:                 # the submissions the same grader object graded before
        core.guarded(top.grader, None, list(h))
    st, out = core.guarded(top.grader, None, list(w['inputs']))
    if st == 'timeout':
        return True, 'grader call still does not return'
    o = [snap(e) for e in out['input_list']] if st == 'ret' else out
    what = oracle(rebuild(w), list(w['inputs']), st, o, count)      # judged against a fresh tree
    return what is not None, 'grader %r\nanswers %s\nearlier submissions %r\ninputs %r\nobserved %r\noracle: %s' % (
        w['grader'], w['answers'], w.get('history'), w['inputs'], o, what or 'property holds')


TRUSTED = [
    'hand-written model coq/Model/ListGrader.v tied to listgrader.py by differential correspondence decided inside Coq '
    '(harness/props/c05.py wraps the item-level subgraders\' check and the top-level perform_check at run time; answer objects are '
    'identified by identity inside the validated configuration; compared: the per-answer-list results of perform_check and the '
    'final input_list, entry by entry)',
    'assignment solver: the model calls the integer instance of the Munkres model (computeZ, C06) on the costs D*(1 - grade), D a '
    'common denominator; its optimality on rational matrices is PROVED from C06\'s munkres_partial_correct (solveZ_optimal, '
    'C05_solver_optimal), termination unconditionally from munkres_terminates (C05_unordered_returns: no bound on grades or on the '
    'scaled costs).  That the real code, which runs the solver on '
    'the float costs 1 - grade, takes the same decisions as on the scaled integers (scale invariance of every comparison / minimum / subtraction of the solver) is '
    'validated by the correspondence, not proved',
    'modelled, not verified: the subgraders (an arbitrary oracle in every theorem; the recorded results in the cases), IEEE '
    'rounding of 1 - grade, of sum/len in consolidate_grades, of the Munkres arithmetic and of numpy\'s row sums (runs in which every '
    'float operation is exact are compared by equality, the others by totals within 1e-9), Python zip/max/list semantics, voluptuous',
]
ASSUMPTIONS = [
    'subgrader check is a function of (answer, input, siblings) returning a result or raising',
    'the grouping is valid (create_grouping_map / validate_grouping accept it); as many answers as groups / inputs and, for a list of '
    'subgraders, as many subgraders as answers (schema_answers enforces the latter; the former is an explicit hypothesis where used)',
    'grouped unordered graders, statement about the sum of all reported entries: equal-size groups, grades non-negative, every group '
    'result has one entry per input of the group (explicit hypotheses of C05_unordered_grouped_total_max)',
    'ties between alternative lists / assignments of equal total: any maximal one satisfies the property; the model reproduces the '
    'code\'s choice (which tests grades for being non-zero, not for being the highest, see C05_ex_tie_rule_is_nonzero_first)',
]
LEVEL_TEXT = ('Theorems about an executable model of ListGrader over an arbitrary subgrader oracle, lists of any length, any nesting depth: '
              'ordered graders report, at every box, exactly what the positional subgrader returns (siblings passed unchanged); groupify/'
              'ungroupify are mutually inverse on valid groupings and every entry lands at the box of the input it grades; unordered graders '
              'report a one-to-one assignment of inputs (groups) to answers whose total credit is maximal over all assignments (solver '
              'optimality on rational costs derived from C06, no hypothesis left); the reported answer list has maximal total over all '
              'alternative lists and all their assignments; partial_credit=False zeroes everything unless all entries are correct; '
              'the unordered branch always returns when the subgraders do (C06 termination for arbitrary integer matrices, no size or grade bound).')
LEVEL_NOTE = ('Exact rational arithmetic; float effects (costs 1 - grade, averages, numpy sums) are covered by the correspondence and the '
              'oracle with tolerance 1e-9, not by theorems; trusted: Coq kernel, harness/props/c05.py; no axioms.')
TECHNIQUE = 'Coq proof (induction on lists, permutations, Q arithmetic, C06 solver theorems) + vm_compute differential correspondence + exhaustive n! oracle'
DESIGN_REF = 'DESIGN.md section 3, C05'
