"""C04 -- a formula is marked correct exactly when enough samples agree within tolerance.

Ties:  (A) Gen/Tolerance.v regenerated from mathfuncs.within_tolerance / percentage_as_number and
           MathMixin.consolidate_results on every run (translate/tolerance.py), bridged to Model/Tolerance.v;
       (B) differential correspondence: full grader calls (FormulaGrader / NumericalGrader / MatrixGrader) with the
           per-sample evaluations and per-sample comparer outcomes captured by wrapping gen_evaluations /
           compare_evaluations at run time, plus direct calls of within_tolerance and consolidate_results; the model,
           the regenerated definitions and an independent direct decision are evaluated INSIDE Coq on the very
           values the implementation saw (floats as exact dyadic rationals).
Oracle: the property recomputed in Fractions from the sample values handed out by an author-defined recording
        VariableSamplingSet and from the formulas' own syntax trees (never from the library's parser/evaluator).
"""
import math
import random
from fractions import Fraction

from harness import core
from harness.core import zlit, listlit, boollit, strlit
from translate import tolerance as tr_tolerance

ID = 'C04'
PROPS = 'Props/C04.v'
TRANSLATORS = [('Gen/Tolerance.v', tr_tolerance.generate)]
MIRRORED = [('mitxgraders/helpers/calc/mathfuncs.py', 'within_tolerance'),
            ('mitxgraders/helpers/calc/mathfuncs.py', 'percentage_as_number'),
            ('mitxgraders/comparers/comparers.py', 'EqualityComparer.__call__'),
            ('mitxgraders/helpers/math_helpers.py', 'MathMixin.consolidate_results'),
            ('mitxgraders/helpers/math_helpers.py', 'MathMixin.compare_evaluations'),
            ('mitxgraders/helpers/math_helpers.py', 'MathMixin.get_comparer_utils'),
            ('mitxgraders/formulagrader/formulagrader.py', 'FormulaGrader.raw_check'),
            ('mitxgraders/formulagrader/formulagrader.py', 'FormulaGrader.gen_evaluations'),
            ('mitxgraders/helpers/validatorfuncs.py', 'PercentageString'),
            ('mitxgraders/helpers/validatorfuncs.py', 'NonNegative')]
REFUTED = []
TRUSTED = [
    'translator translate/tolerance.py (typed Python-ast -> Gallina; float literals taken as the decimal the author wrote)',
    'correspondence harness harness/props/c04.py: run-time wrappers around FormulaGrader.gen_evaluations / compare_evaluations; '
    'floats enter Coq as exact dyadic rationals; agreement decided in Coq',
    'modelled, not verified: IEEE rounding of x - y, np.linalg.norm and norm(x) * (p * 0.01) (the model decides on exact squares; '
    'comparisons whose squared margin is below 1e-8 relative are guard-banded), numpy ==, the expression parser/evaluator '
    '(the oracle evaluates the formulas\' own syntax trees in exact arithmetic), voluptuous',
]
ASSUMPTIONS = [
    'tolerance >= 0 and failable_evals >= 0 (what NonNegative / PercentageString admit); finite tolerance',
    'no NaN; infinities only as scalar values (allow_inf graders); arrays have finite entries; no float underflow in norms',
    'student and author values have the same shape at every sample (shape errors belong to other properties)',
    'the clause "formulas that miss at every sample never earn any credit" is claimed for failable_evals < samples '
    '(or one sample); for failable_evals >= samples > 1 the first sentence of the property awards the credit '
    '(theorem C04_budget_not_below_samples_accepts_all)',
]

HEADER = ('From Coq Require Import ZArith QArith Qabs List Bool.\n'
          'From Verif.Lib Require Import QRound.\n'
          'From Verif.Model Require Import Result Tolerance.\n'
          'From Verif.Gen Require Tolerance.\nImport ListNotations.\nOpen Scope Q_scope.\n')

AGREE_DEFS = r'''
Definition band : Q := 1 # 100000000.
Definition ob_eqb (a b : option bool) : bool :=
  match a, b with Some x, Some y => Bool.eqb x y | None, None => true | _, _ => false end.
(* squared difference and squared tolerance of a finite comparison *)
Definition d2t2 (t : tolx) (x y : value) : option (Q * Q) :=
  if v_finite x && v_finite y
  then match v_sub x y with Some d => Some (v_norm2 d, tol_sq t x) | None => None end
  else None.
Definition near_of (dt : option (Q * Q)) : bool :=
  match dt with
  | Some (d2, t2) => if Qeq_bool d2 0 && Qeq_bool t2 0 then false
                     else Qle_bool (Qabs (d2 - t2)) (band * (d2 + t2))
  | None => false
  end.
(* the property's decision, stated directly (squares; infinities match only themselves) *)
Definition direct_of (dt : option (Q * Q)) (x y : value) : option bool :=
  match x, y with
  | VInf p, VInf q => Some (Bool.eqb p q)
  | VInf _, VNum _ => Some false
  | VNum _, VInf _ => Some false
  | _, _ => match dt with Some (d2, t2) => Some (Qle_bool d2 t2) | None => None end
  end.
(* (model = regenerated = direct decision, and = the implementation's outcome unless guard-banded ; guard-banded?) *)
Definition wt_check (t : tolx) (x y : value) (obs : option bool) : bool * bool :=
  let m := within_tolerance x y t in
  let g := Gen.Tolerance.gen_within_tolerance x y t in
  let dt := d2t2 t x y in
  let near := near_of dt in
  (ob_eqb m g && ob_eqb g (direct_of dt x y) && (near || ob_eqb m obs), near).
Definition wt_case (c : tolx * value * value * option bool) : bool :=
  match c with (t, x, y, obs) => fst (wt_check t x y obs) end.

Definition entry_eqb (a b : entry) : bool :=
  okv_eqb (e_ok a) (e_ok b) && Qeq_bool (e_grade a) (e_grade b) && str_eqb (e_msg a) (e_msg b).
Definition count_spec (results : list entry) (answer : option entry) (failable : Z) : entry :=
  let nf := zlen (filter (fun r => negb (okv_eqb (e_ok r) OkTrue)) results) in
  let ans := match answer with Some a => a | None => mkEntry OkTrue 1 [] end in
  if (if (zlen results =? 1)%Z then (nf =? 0)%Z else (nf <=? failable)%Z) then ans
  else nth (if (zlen results =? 1)%Z then 0%nat else Z.to_nat failable)
           (filter (fun r => negb (okv_eqb (e_ok r) OkTrue)) results) ans.
Definition cons_case (c : list entry * option entry * Z * entry) : bool :=
  match c with (results, answer, failable, obs) =>
    entry_eqb (consolidate_results results answer failable) obs
    && entry_eqb (Gen.Tolerance.gen_consolidate_results results answer failable) obs
    && entry_eqb (count_spec results answer failable) obs
  end.

(* one grader call: tolerance, failable_evals, the matched answer, per sample (expected, student, comparer said ok),
   and the result the grader returned *)
Record gcase := mkG { k_tol : tolx; k_fail : Z; k_ans : entry; k_evs : list (value * value * bool); k_obs : entry }.
Definition gen_raw_check := raw_check_with Gen.Tolerance.gen_within_tolerance Gen.Tolerance.gen_consolidate_results.
Definition grader_case (c : gcase) : bool :=
  let t := k_tol c in
  let checks := map (fun ev => match ev with (x, y, ok) => wt_check t x y (Some ok) end) (k_evs c) in
  forallb fst checks
  && (let results := map (fun ev => scale_result (k_ans c) (standardize_bool (snd ev))) (k_evs c) in
      cons_case (results, Some (k_ans c), k_fail c, k_obs c))
  && (existsb snd checks
      || match gen_raw_check t (k_fail c) (k_ans c) (map (fun ev => match ev with (x, y, _) => ([x], y) end) (k_evs c)) with
         | Some r => entry_eqb r (k_obs c)
         | None => false
         end).
'''


# ================================================================================================
# exact values, expression trees, rendering
# ================================================================================================
class V:
    """exact value: scalar (shape None) or array; items are (re, im) Fractions; mag bounds every intermediate
    component; den = power of two bounding all denominators; cert = every float operation was exact"""
    __slots__ = ('shape', 'items', 'mag', 'den', 'cert')

    def __init__(self, shape, items, mag, den, cert):
        self.shape, self.items, self.mag, self.den, self.cert = shape, items, mag, den, cert
        if cert and not (mag * (1 << den) < (1 << 52) and den <= 60):
            self.cert = False


def frac_den_exp(fr):
    d = fr.denominator
    if d & (d - 1):
        return None
    return d.bit_length() - 1


def leaf(pyval):
    """Python / numpy value handed out by the sampler -> V"""
    import numpy as np
    if isinstance(pyval, np.ndarray):
        shape = tuple(int(k) for k in pyval.shape)
        items = [cfrac(x) for x in pyval.flat]
    else:
        shape, items = None, [cfrac(pyval)]
    den = 0
    mag = Fraction(0)
    for re, im in items:
        for c in (re, im):
            den = max(den, frac_den_exp(c))
            mag = max(mag, abs(c))
    return V(shape, items, mag, den, True)


def cfrac(x):
    if isinstance(x, complex) or hasattr(x, 'imag') and not isinstance(x, (int, float)):
        return (Fraction(float(x.real)), Fraction(float(x.imag)))
    return (Fraction(x), Fraction(0))


def cmul(a, b):
    return (a[0] * b[0] - a[1] * b[1], a[0] * b[1] + a[1] * b[0])


class EvalError(Exception):
    pass


def ev(node, env):
    """exact evaluation of an expression tree; env: name -> V"""
    op = node[0]
    if op == 'num':
        fr = Fraction(float(node[1]))
        return V(None, [(fr, Fraction(0))], abs(fr), frac_den_exp(fr), True)
    if op == 'var':
        return env[node[1]]
    if op == 'i':
        return V(None, [(Fraction(0), Fraction(1))], Fraction(1), 0, True)
    if op in ('add', 'sub'):
        a, b = ev(node[1], env), ev(node[2], env)
        if a.shape != b.shape:
            raise EvalError('shape')
        sg = 1 if op == 'add' else -1
        items = [(x[0] + sg * y[0], x[1] + sg * y[1]) for x, y in zip(a.items, b.items)]
        return V(a.shape, items, a.mag + b.mag, max(a.den, b.den), a.cert and b.cert)
    if op == 'mul':
        a, b = ev(node[1], env), ev(node[2], env)
        cert = a.cert and b.cert
        den = a.den + b.den
        if a.shape is None or b.shape is None:
            s, arr = (a, b) if a.shape is None else (b, a)
            items = [cmul(s.items[0], x) for x in arr.items]
            return V(arr.shape, items, 2 * a.mag * b.mag, den, cert)
        if len(a.shape) == 2 and len(b.shape) in (1, 2) and a.shape[1] == b.shape[0]:
            n, k = a.shape
            m = b.shape[1] if len(b.shape) == 2 else 1
            items = []
            for r in range(n):
                for c in range(m):
                    acc = (Fraction(0), Fraction(0))
                    for j in range(k):
                        p = cmul(a.items[r * k + j], b.items[j * m + c])
                        acc = (acc[0] + p[0], acc[1] + p[1])
                    items.append(acc)
            shape = (n, m) if len(b.shape) == 2 else (n,)
            return V(shape, items, 2 * k * a.mag * b.mag, den, cert)
        raise EvalError('product shape')
    if op == 'neg':
        a = ev(node[1], env)
        return V(a.shape, [(-x[0], -x[1]) for x in a.items], a.mag, a.den, a.cert)
    if op == 'pow':
        a = ev(node[1], env)
        if a.shape is not None:
            raise EvalError('array power')
        acc = (Fraction(1), Fraction(0))
        for _ in range(node[2]):
            acc = cmul(acc, a.items[0])
        return V(None, [acc], max(Fraction(1), (2 * a.mag) ** node[2]), a.den * node[2], False)
    if op == 'div':
        a, b = ev(node[1], env), ev(node[2], env)
        if b.shape is not None or b.items[0][1] != 0 or b.items[0][0] == 0:
            raise EvalError('division')
        d = b.items[0][0]
        return V(a.shape, [(x[0] / d, x[1] / d) for x in a.items], a.mag / abs(d) + a.mag, 0, False)
    if op == 'call':
        f, a = node[1], ev(node[2], env)
        if a.shape is not None:
            raise EvalError('function of array')
        re, im = a.items[0]
        if f == 'abs':
            if im != 0:
                raise EvalError('abs of complex')
            return V(None, [(abs(re), Fraction(0))], a.mag, a.den, a.cert)
        if f == 'conj':
            return V(None, [(re, -im)], a.mag, a.den, a.cert)
        if f == 're':
            return V(None, [(re, Fraction(0))], a.mag, a.den, a.cert)
        if f == 'im':
            return V(None, [(im, Fraction(0))], a.mag, a.den, a.cert)
        raise EvalError('function ' + f)
    if op == 'app':             # application of a SAMPLED function (user_functions with a sampling set)
        fn = env['fn:' + node[1]]
        args = [ev(a, env) for a in node[2]]
        if any(a.shape is not None or a.items[0][1] != 0 for a in args):
            raise EvalError('function argument')
        if hasattr(fn, 'tree'):
            # a function whose body is one of our own trees: evaluated exactly, like everything else
            return ev(fn.tree, dict(zip(fn.params, args)))
        # an opaque function handed out by RandomFunction / SpecificFunctions: the oracle calls the very function
        # the sampler handed out (it is part of the sample), at the exactly evaluated arguments
        val = fn(*[float(a.items[0][0]) for a in args])
        lf = leaf(complex(val) if isinstance(val, complex) else float(val))
        return V(None, lf.items, (lf.mag + 1) * 1000, 0, False)
    if op == 'sqrtsq':          # sqrt((a)^2) for a real a: |a|, evaluated by the library through pow and sqrt
        a = ev(node[1], env)
        re, im = a.items[0]
        if a.shape is not None or im != 0:
            raise EvalError('sqrtsq')
        return V(None, [(abs(re), Fraction(0))], max(Fraction(1), (2 * a.mag) ** 2), 0, False)
    if op == 'vec':
        parts = [ev(x, env) for x in node[1]]
        if any(p.shape is not None for p in parts):
            raise EvalError('nested vec')
        return V((len(parts),), [p.items[0] for p in parts], max(p.mag for p in parts),
                 max(p.den for p in parts), all(p.cert for p in parts))
    if op == 'mat':
        rows = [[ev(x, env) for x in row] for row in node[1]]
        flat = [p for row in rows for p in row]
        return V((len(rows), len(rows[0])), [p.items[0] for p in flat], max(p.mag for p in flat),
                 max(p.den for p in flat), all(p.cert for p in flat))
    raise EvalError('node ' + op)


def render(node, rng=None, spaces=False, extra_parens=False):
    """expression tree -> the text handed to the grader.  Every binary operation is parenthesised, so the text
    does not depend on the library's precedence rules; `spaces` / `extra_parens` add redundant whitespace / parentheses."""
    def sp():
        return ' ' * rng.choice([0, 1, 1, 2]) if spaces and rng else ''

    def wrap(t):
        if extra_parens and rng and rng.random() < 0.4:
            return '(' + sp() + t + sp() + ')'
        return t

    def r(n):
        op = n[0]
        if op == 'num':
            return wrap(n[1])
        if op == 'var':
            return wrap(n[1])
        if op == 'i':
            return wrap('i')
        if op in ('add', 'sub', 'mul', 'div'):
            sym = {'add': '+', 'sub': '-', 'mul': '*', 'div': '/'}[op]
            return '(' + sp() + r(n[1]) + sp() + sym + sp() + r(n[2]) + sp() + ')'
        if op == 'neg':
            return '(' + sp() + '-' + sp() + r(n[1]) + sp() + ')'
        if op == 'pow':
            return '(' + r(n[1]) + sp() + '^' + sp() + str(n[2]) + ')'
        if op == 'call':
            return n[1] + '(' + sp() + r(n[2]) + sp() + ')'
        if op == 'app':
            return n[1] + '(' + (',' + sp()).join(r(x) for x in n[2]) + ')'
        if op == 'sqrtsq':
            return 'sqrt((' + r(n[1]) + ')^2)'
        if op == 'vec':
            return '[' + (',' + sp()).join(r(x) for x in n[1]) + ']'
        if op == 'mat':
            return '[' + (',' + sp()).join('[' + (',' + sp()).join(r(x) for x in row) + ']' for row in n[1]) + ']'
        raise EvalError('render ' + op)
    return r(node)


def num(x):
    """numeric literal node for a non-negative int/float, or its negation"""
    if x < 0:
        return ('neg', num(-x))
    t = repr(x)
    assert 'inf' not in t and 'nan' not in t
    return ('num', t)


_REC = {}


def feval(node, env):
    """float evaluation of a function body (the arithmetic a Python lambda with that body would perform)"""
    op = node[0]
    if op == 'num':
        return float(node[1])
    if op == 'var':
        return env[node[1]]
    if op == 'add':
        return feval(node[1], env) + feval(node[2], env)
    if op == 'sub':
        return feval(node[1], env) - feval(node[2], env)
    if op == 'mul':
        return feval(node[1], env) * feval(node[2], env)
    if op == 'neg':
        return -feval(node[1], env)
    raise EvalError('function body ' + op)


def tree_function(params, tree):
    """a plain Python function computing `tree` in floats; it carries its own syntax tree for the oracle"""
    params = list(params)

    def fn(*args):
        if len(args) != len(params):
            raise TypeError('arity')
        return feval(tree, dict(zip(params, args)))
    fn.nin = len(params)
    fn.params = params
    fn.tree = tree
    return fn


NAMED_FUNCTIONS = {}


def named_function(name):
    """opaque unary functions offered to SpecificFunctions / RandomFunction-style sampling"""
    import numpy as np
    if not NAMED_FUNCTIONS:
        NAMED_FUNCTIONS.update({'sin': np.sin, 'cos': np.cos, 'tanh': np.tanh,
                                'cube': tree_function(['t'], ('mul', X('t'), ('mul', X('t'), X('t')))),
                                'twice_plus_one': tree_function(['t'], ('add', ('mul', N(2), X('t')), N(1))),
                                'square': tree_function(['t'], ('mul', X('t'), X('t')))})
    return NAMED_FUNCTIONS[name]


def record_function_sampler(s):
    """wrap one FunctionSamplingSet INSTANCE so that every function it hands out is recorded (run time, no hooks)"""
    orig = s.gen_sample
    s.handed_out = []

    def gen_sample():
        f = orig()
        s.handed_out.append(f)
        return f
    s.gen_sample = gen_sample
    return s


def function_samplers(case):
    """case['funcs'] -> the user_functions entries of the grader configuration"""
    from mitxgraders import RandomFunction, SpecificFunctions
    out = {}
    for name, spec in case.get('funcs', {}).items():
        if spec['type'] == 'tree':
            fns = [tree_function(spec['params'], t) for t in spec['trees']]
            out[name] = rec_functions_class()(functions=fns)
        elif spec['type'] == 'random':
            out[name] = RandomFunction(**spec['config'])
        elif spec['type'] == 'specific':
            out[name] = SpecificFunctions([named_function(k) for k in spec['names']])
        elif spec['type'] == 'list':           # a bare list, coerced to SpecificFunctions by the schema
            out[name] = [named_function(k) for k in spec['names']]
        else:
            raise ValueError(spec['type'])
    return out


def rec_functions_class():
    if 'fcls' not in _REC:
        from voluptuous import Schema, Required
        from mitxgraders.sampling import FunctionSamplingSet

        class OrderedFunctions(FunctionSamplingSet):
            """author-defined function sampling set: hands out the configured functions in order"""
            schema_config = Schema({Required('functions'): list})

            def __init__(self, config=None, **kwargs):
                super(OrderedFunctions, self).__init__(config, **kwargs)
                self.k = 0

            def gen_sample(self):
                fns = self.config['functions']
                f = fns[self.k % len(fns)]
                self.k += 1
                return f
        _REC['fcls'] = OrderedFunctions
    return _REC['fcls']


# ================================================================================================
# the recording sampling set (author-defined, as the property says) and the run-time wrappers
# ================================================================================================
def rec_class():
    if 'cls' not in _REC:
        from voluptuous import Schema, Required
        from mitxgraders.sampling import VariableSamplingSet

        class RecordingSet(VariableSamplingSet):
            """hands out the configured values in order and records every value it hands out"""
            schema_config = Schema({Required('values'): list})

            def __init__(self, config=None, **kwargs):
                super(RecordingSet, self).__init__(config, **kwargs)
                self.handed_out = []
                self.k = 0

            def gen_sample(self):
                vals = self.config['values']
                v = vals[self.k % len(vals)]
                self.k += 1
                self.handed_out.append(v)
                return v
        _REC['cls'] = RecordingSet
    return _REC['cls']


class Capture:
    """wrap FormulaGrader.gen_evaluations / compare_evaluations while a block runs (no hooks in /repo)"""
    def __init__(self):
        self.evals = None
        self.results = None

    def __enter__(self):
        import copy
        from mitxgraders.formulagrader.formulagrader import FormulaGrader
        self.cls = FormulaGrader
        self.had_ce = 'compare_evaluations' in FormulaGrader.__dict__
        self.orig_ge = FormulaGrader.__dict__['gen_evaluations']
        orig_ge = self.orig_ge
        orig_ce = FormulaGrader.compare_evaluations
        cap = self

        def gen_evaluations(g, *a, **k):
            out = orig_ge(g, *a, **k)
            cap.evals = (copy.deepcopy(out[0]), copy.deepcopy(out[1]))
            return out

        def compare_evaluations(g, *a, **k):
            out = orig_ce(g, *a, **k)
            cap.results = [dict(r) for r in out]
            return out
        FormulaGrader.gen_evaluations = gen_evaluations
        FormulaGrader.compare_evaluations = compare_evaluations
        return self

    def __exit__(self, *exc):
        self.cls.gen_evaluations = self.orig_ge
        if not self.had_ce:
            del self.cls.compare_evaluations
        return False

    def reset(self):
        self.evals = None
        self.results = None


# ================================================================================================
# Coq terms
# ================================================================================================
def qlit(x):
    """exact rational literal (hexadecimal numerals: several times faster for coqc to read than decimal ones)"""
    fr = Fraction(x)
    n = '(-0x%x)' % -fr.numerator if fr.numerator < 0 else '0x%x' % fr.numerator
    return '(Qmake %s 0x%x)' % (n, fr.denominator)


def value_term(v):
    """Python / numpy value -> Coq `value` term, or None if it contains NaN (outside the model)"""
    import numpy as np
    if isinstance(v, np.ndarray) and v.ndim > 0:
        items = []
        for x in v.flat:
            c = complex(x)
            if not (math.isfinite(c.real) and math.isfinite(c.imag)):
                return None
            items.append('(%s, %s)' % (qlit(c.real), qlit(c.imag)))
        return '(VArr %s %s)' % (listlit([zlit(k) for k in v.shape]), listlit(items))
    if isinstance(v, np.ndarray):
        v = v.item()
    c = complex(v)
    if math.isnan(c.real) or math.isnan(c.imag):
        return None
    if math.isinf(c.real) or math.isinf(c.imag):
        if c.imag == 0 and math.isinf(c.real):
            return '(VInf %s)' % boollit(c.real > 0)
        return None
    return '(VNum (%s, %s))' % (qlit(c.real), qlit(c.imag))


def tol_term(tol):
    """('abs', number) | ('pct', text) -> Coq tolx, exactly as the validated config holds it"""
    if tol[0] == 'abs':
        return '(t_abs %s)' % qlit(tol[1])
    return '(XStr %s)' % qlit(float(tol[1].strip()[:-1]))


def okterm(ok):
    return {True: 'OkTrue', False: 'OkFalse', 'partial': 'OkPartial'}[ok if not hasattr(ok, 'item') else bool(ok)]


def entry_term(d):
    return '(mkEntry %s %s %s)' % (okterm(d['ok']), qlit(d['grade_decimal']), strlit(d['msg']))


# ================================================================================================
# the property oracle (Fractions; independent of the library's parser, evaluator and comparer)
# ================================================================================================
def frac_sqrt(fr):
    n, d = fr.numerator, fr.denominator
    if n < 0:
        return None
    rn, rd = math.isqrt(n), math.isqrt(d)
    if rn * rn == n and rd * rd == d:
        return Fraction(rn, rd)
    return None


def repr53(fr):
    """is the rational exactly a double (normal range, generous exponent window)?"""
    if fr == 0:
        return True
    d = fr.denominator
    if d & (d - 1):
        return False
    n = abs(fr.numerator)
    while n % 2 == 0:
        n //= 2
    return n.bit_length() <= 53 and d.bit_length() < 900 and abs(fr.numerator).bit_length() < 900


def pct_factor(text):
    """what 'p%' means: p/100 (exact), and whether the library's float(p) * 0.01 is exactly that"""
    p = Fraction(float(text.strip()[:-1]))
    exact = Fraction(float(text.strip()[:-1]) * 0.01) == p / 100
    return p / 100, exact


STATS = {'certified_exact': 0, 'certified_on_boundary': 0, 'guard_banded': 0, 'clear_of_band': 0}


def classify(e, s, tol):
    """one sample: 'ok' | 'fail' | 'band'.  e, s: V with equal shapes (finite)."""
    d2 = sum(((x[0] - y[0]) ** 2 + (x[1] - y[1]) ** 2 for x, y in zip(e.items, s.items)), Fraction(0))
    e2 = sum((x[0] ** 2 + x[1] ** 2 for x in e.items), Fraction(0))
    n = len(e.items)
    if tol[0] == 'abs':
        T = Fraction(tol[1])
        T2 = T * T
        fexact = True
    else:
        f, fexact = pct_factor(tol[1])
        T2 = f * f * e2
        T = None
    # -- certified exact: every float operation of the implementation is exact, so the verdict is demanded
    #    even on the boundary itself
    if e.cert and s.cert and fexact:
        den = max(e.den, s.den)
        magd = e.mag + s.mag
        rd = frac_sqrt(d2)
        ok = (magd * (1 << den) < (1 << 52) and 2 * n * magd * magd * (1 << (2 * den)) < (1 << 52)
              and rd is not None and repr53(rd) and repr53(d2))
        if ok and tol[0] == 'pct':
            re_ = frac_sqrt(e2)
            ok = (re_ is not None and repr53(re_) and repr53(e2) and repr53(re_ * f)
                  and 2 * n * e.mag * e.mag * (1 << (2 * e.den)) < (1 << 52))
        if ok:
            STATS['certified_exact'] += 1
            if d2 == T2:
                STATS['certified_on_boundary'] += 1
            return 'ok' if d2 <= T2 else 'fail'
    # -- otherwise: guard band of 1e-9 relative to the magnitudes that entered the computation
    dn = math.sqrt(float(d2))
    Tn = math.sqrt(float(T2))
    scale = float(e.mag + s.mag) * math.sqrt(n) * (1.0 + Tn / (math.sqrt(float(e2)) + 1e-300) if tol[0] == 'pct' else 1.0) + Tn + dn
    if abs(dn - Tn) <= 1e-9 * scale:
        STATS['guard_banded'] += 1
        return 'band'
    STATS['clear_of_band'] += 1
    return 'ok' if d2 <= T2 else 'fail'


def expected_verdict(classes, n, failable):
    """three-valued: True (must earn the answer's credit), False (must earn none), None (inside the guard band)"""
    fails = sum(1 for c in classes if c == 'fail')
    maybe = sum(1 for c in classes if c == 'band')
    budget = 0 if n == 1 else failable
    if fails + maybe <= budget:
        return True
    if fails > budget:
        return False
    return None


# ================================================================================================
# generators
# ================================================================================================
def X(n):
    return ('var', n)


def N(x):
    return num(x)


REAL_ANSWERS = [
    lambda: ('add', ('mul', X('x'), X('y')), N(3)),
    lambda: ('sub', ('mul', N(2), X('x')), X('y')),
    lambda: ('mul', X('x'), ('add', X('y'), N(1))),
    lambda: ('add', ('mul', X('x'), X('x')), ('mul', N(0.5), X('y'))),
    lambda: ('mul', ('add', X('x'), N(2)), ('sub', X('y'), N(1))),
    lambda: ('add', X('x'), ('neg', ('mul', N(4), X('y')))),
]
REAL_ANSWERS_ROUNDED = REAL_ANSWERS + [
    lambda: ('add', ('pow', X('x'), 2), X('y')),
    lambda: ('div', ('add', ('pow', X('x'), 3), N(1)), N(7)),
    lambda: ('mul', N(0.3), ('sub', ('pow', X('y'), 2), ('mul', N(1.7), X('x')))),
]
CPLX_ANSWERS = [
    lambda: ('add', X('z'), ('mul', ('i',), X('w'))),
    lambda: ('mul', X('z'), X('w')),
    lambda: ('sub', ('mul', N(2), X('z')), ('call', 'conj', X('w'))),
    lambda: ('add', ('mul', X('z'), ('add', X('w'), ('i',))), N(1)),
]
CPLX_ANSWERS_ROUNDED = CPLX_ANSWERS + [lambda: ('add', ('pow', X('z'), 2), X('w'))]
VEC_ANSWERS = [
    lambda: ('add', X('A'), X('B')),
    lambda: ('sub', ('mul', X('x'), X('A')), ('mul', N(2), X('B'))),
    lambda: ('add', ('vec', [X('x'), N(1), ('mul', X('x'), X('x'))]), X('A')),
]
MAT_ANSWERS = [
    lambda: ('add', ('mul', X('A'), X('B')), X('A')),
    lambda: ('sub', ('mul', X('x'), X('A')), X('B')),
    lambda: ('mul', X('A'), ('add', X('B'), ('mat', [[N(1), N(0)], [N(0), N(1)]]))),
    lambda: ('add', ('mat', [[X('x'), N(2)], [N(0), ('mul', X('x'), X('x'))]]), X('B')),
]


def F(name, *args):
    return ('app', name, list(args))


# answers that depend on SAMPLED FUNCTIONS only (no variables), on functions and variables, and on nothing
FUNC_ANSWERS = [
    lambda: ('sub', F('f', N(1)), F('f', N(0))),
    lambda: ('mul', N(2), F('g', N(3))),
    lambda: ('add', ('mul', F('f', N(2)), F('g', N(1))), N(1)),
    lambda: ('add', F('f', F('g', N(1))), N(0.5)),
    lambda: ('sub', F('h', N(1), N(2)), F('f', N(3))),
]
FUNCVAR_ANSWERS = [
    lambda: ('add', F('f', X('x')), X('y')),
    lambda: ('sub', ('mul', X('x'), F('f', N(2))), F('g', X('y'))),
    lambda: ('add', F('f', ('mul', X('x'), X('y'))), N(1)),
    lambda: ('mul', F('h', X('x'), N(2)), ('add', X('y'), N(1))),
]
CONST_ANSWERS = [
    lambda: ('add', ('mul', N(3), N(4)), N(1)),
    lambda: N(2.5),
    lambda: ('mul', ('add', N(1), N(2)), ('sub', N(3), N(5))),
]


def gen_functions(rng, n, exact, names):
    """how each sampled function is produced: our own trees (exactly evaluable), RandomFunction, SpecificFunctions,
    or a bare list (which the schema coerces to SpecificFunctions)"""
    def coef():
        return float(rng.choice([-3, -2, -1, 1, 2, 3, 4, 0.5])) if exact else round(rng.uniform(-3, 3), 3) or 1.0

    def body(params):
        if len(params) == 2:
            return ('add', ('mul', N(coef()), X(params[0])), ('mul', N(coef()), X(params[1])))
        t = X(params[0])
        return rng.choice([
            lambda: ('add', ('mul', N(coef()), t), N(coef())),
            lambda: ('add', ('mul', N(coef()), ('mul', t, t)), N(coef())),
            lambda: ('sub', ('mul', t, ('add', t, N(coef()))), N(coef()))])()
    out = {}
    for name in names:
        params = ['s', 't'] if name == 'h' else ['t']
        mode = 'tree' if (exact or name == 'h') else rng.choice(['tree', 'random', 'specific', 'list'])
        if mode == 'tree':
            out[name] = {'type': 'tree', 'params': params, 'trees': [body(params) for _ in range(n)]}
        elif mode == 'random':
            out[name] = {'type': 'random', 'config': {'center': rng.choice([0, 2]), 'amplitude': rng.choice([1, 10]),
                                                      'num_terms': rng.choice([1, 3])}}
        else:
            out[name] = {'type': mode, 'names': rng.sample(['sin', 'cos', 'tanh', 'cube', 'twice_plus_one', 'square'], 3)}
    return out


def is_scalar_kind(kind):
    return kind in ('real', 'complex', 'numerical')


def rewrite(node, rng, scalar_names, depth=0):
    """equivalence-preserving rewriting: commutation (of + anywhere, of * between scalars), left distribution,
    adding 0 (as 0*X, which has X's shape), multiplying by 1"""
    op = node[0]

    def scalar(n):
        o = n[0]
        if o in ('num', 'i', 'call', 'pow', 'sqrtsq', 'app'):
            return True
        if o == 'var':
            return n[1] in scalar_names
        if o in ('vec', 'mat'):
            return False
        if o == 'neg':
            return scalar(n[1])
        return all(scalar(c) for c in n[1:] if isinstance(c, tuple))
    if op in ('add', 'sub', 'mul', 'div'):
        a = rewrite(node[1], rng, scalar_names, depth + 1)
        b = rewrite(node[2], rng, scalar_names, depth + 1)
        out = (op, a, b)
        r = rng.random()
        if op == 'add' and r < 0.5:
            out = ('add', b, a)
        elif op == 'mul' and r < 0.5 and scalar(a) and scalar(b):
            out = ('mul', b, a)
        elif op == 'mul' and b[0] == 'add' and r < 0.8:
            out = ('add', ('mul', a, b[1]), ('mul', a, b[2]))
    elif op == 'neg':
        out = ('neg', rewrite(node[1], rng, scalar_names, depth + 1))
    elif op == 'vec':
        out = ('vec', [rewrite(x, rng, scalar_names, depth + 1) for x in node[1]])
    elif op == 'mat':
        out = ('mat', [[rewrite(x, rng, scalar_names, depth + 1) for x in row] for row in node[1]])
    elif op == 'call':
        out = ('call', node[1], rewrite(node[2], rng, scalar_names, depth + 1))
    elif op == 'pow':
        out = ('pow', rewrite(node[1], rng, scalar_names, depth + 1), node[2])
    elif op == 'app':
        out = ('app', node[1], [rewrite(x, rng, scalar_names, depth + 1) for x in node[2]])
    else:
        out = node
    r = rng.random()
    if r < 0.12:
        out = ('add', out, ('mul', N(0), out))
    elif r < 0.24:
        out = ('mul', N(1), out)
    elif r < 0.32 and (scalar(out) or True):
        out = ('mul', out, N(1))
    return out


def pick_tol(rng, exact):
    """(kind, config value)"""
    if rng.random() < 0.5:
        if exact:
            return ('abs', rng.choice([0, 1, 2, 5, 0.5, 0.25, 10, 3]))
        return ('abs', rng.choice([0, 0.1, 1e-3, 0.5, 2, 1e-6, 0.37, 5]))
    if exact:
        return ('pct', rng.choice(['50%', '25%', '100%', '0%', '12.5%', '200%', ' 50 %', '50.0%']))
    return ('pct', rng.choice(['0.01%', '5%', '1%', '10%', '0%', '0.5%', '33%', '2.5e0%', ' 7 %', '150%']))


def gen_samples(rng, kind, n, exact):
    """values each recording sampler will hand out, per variable"""
    from mitxgraders import MathArray

    def real():
        if exact:
            return float(rng.choice([-6, -4, -3, -2, -1, 1, 2, 3, 4, 5, 7, 8, 0.5, -1.5, 12]))
        v = rng.uniform(-6, 6)
        return v if abs(v) > 0.05 else v + 1.0

    def cplx():
        if exact:
            return complex(rng.choice([-3, -1, 0, 1, 2, 4, 3]), rng.choice([-4, -2, 0, 1, 3, 4]))
        return complex(rng.uniform(-4, 4), rng.uniform(-4, 4))

    def arr(shape, cx):
        size = shape[0] * (shape[1] if len(shape) == 2 else 1)
        ents = [(cplx() if cx else real()) for _ in range(size)]
        import numpy as np
        return MathArray(np.array(ents).reshape(shape))
    if kind == 'real':
        return {'x': [real() for _ in range(n)], 'y': [real() for _ in range(n)]}
    if kind == 'complex':
        return {'z': [cplx() for _ in range(n)], 'w': [cplx() for _ in range(n)]}
    if kind == 'vector':
        cx = rng.random() < 0.3
        return {'A': [arr((3,), cx) for _ in range(n)], 'B': [arr((3,), cx) for _ in range(n)],
                'x': [real() for _ in range(n)]}
    if kind == 'matrix':
        cx = rng.random() < 0.3
        return {'A': [arr((2, 2), cx) for _ in range(n)], 'B': [arr((2, 2), cx) for _ in range(n)],
                'x': [real() for _ in range(n)]}
    raise ValueError(kind)


DELTA_SHAPES = {
    # exactly representable offsets with a rational norm (so that the boundary itself can be hit exactly)
    'real': [(lambda k: N(k), lambda k: Fraction(k))],
    'complex': [(lambda k: ('add', N(3 * k), ('mul', N(4 * k), ('i',))), lambda k: 5 * Fraction(k)),
                (lambda k: ('mul', N(k), ('i',)), lambda k: Fraction(k)),
                (lambda k: N(k), lambda k: Fraction(k))],
    'vector': [(lambda k: ('vec', [N(3 * k), N(4 * k), N(0)]), lambda k: 5 * Fraction(k)),
               (lambda k: ('vec', [N(0), N(0), N(k)]), lambda k: Fraction(k)),
               (lambda k: ('vec', [N(2 * k), N(k), N(2 * k)]), lambda k: 3 * Fraction(k))],
    # diag(3,4): Frobenius norm 5, spectral norm 4, max-entry 4, 1-norm 4
    'matrix': [(lambda k: ('mat', [[N(3 * k), N(0)], [N(0), N(4 * k)]]), lambda k: 5 * Fraction(k)),
               (lambda k: ('mat', [[N(k), N(k)], [N(k), N(k)]]), lambda k: 2 * Fraction(k)),
               (lambda k: ('mat', [[N(0), N(k)], [N(0), N(0)]]), lambda k: Fraction(k))],
}
FACTORS_NEAR = [0.5, 1 - 1e-6, 1.0, 1 + 1e-6, 2.0, 0.999, 1.001, 1.0, 1.0]


def student_variant(rng, kind, ans, tol, exact, samples_hint, fams=None):
    """returns (family, student tree, tolerance)"""
    fam = rng.choice(fams or ['delta', 'delta', 'scale', 'scale', 'branch', 'rewrite', 'rewrite', 'same', 'imag', 'imag'])
    base = 'real' if kind == 'numerical' else kind
    if fam == 'delta':
        mk, nrm = rng.choice(DELTA_SHAPES[base])
        if exact:
            # offsets of rational norm nrm(m); an absolute tolerance is re-chosen so that the boundary can be hit exactly
            m = rng.choice([1, 2, 0.5, 3])
            fac = rng.choice([0.5, 1.0, 1.0, 1.0, 2.0, 1 + 2.0 ** -20, 1 - 2.0 ** -20, 1.5])
            if tol[0] == 'abs' and rng.random() < 0.8:
                t = nrm(m)
                tol = ('abs', int(t) if t.denominator == 1 and rng.random() < 0.5 else float(t))
            k = m * fac
        else:
            if tol[0] == 'abs' and tol[1] != 0:
                target = Fraction(tol[1])
            else:
                target = Fraction(rng.choice([0.3, 1e-3, 2.0, 0.05]))
            k = float(target / nrm(1)) * rng.choice(FACTORS_NEAR)
        if rng.random() < 0.3:
            return fam, ('sub', ans, mk(k)), tol
        return fam, ('add', ans, mk(k)), tol
    if fam == 'imag':
        # a purely IMAGINARY offset or factor on the author's value (real or not): answer + c*i*unit, answer*(1 + eps*i)
        facs = [0.5, 1.0, 1.0, 2.0, 1.5, 4.0] if exact else FACTORS_NEAR + [3.0, 10.0]
        if rng.random() < 0.5:
            mk, nrm = rng.choice(DELTA_SHAPES[base])
            if tol[0] == 'abs' and tol[1] != 0:
                target = Fraction(tol[1])
            else:
                target = Fraction(rng.choice([1, 2, 0.5, 25]))
            k = float(target / nrm(1)) * rng.choice(facs)
            return fam, ('add', ans, ('mul', mk(k), ('i',))), tol
        if tol[0] == 'pct':
            p = float(Fraction(float(tol[1].strip()[:-1])) / 100) or 0.25
        else:
            p = rng.choice([0.5, 0.25, 1.0, 3.0])
        return fam, ('mul', ans, ('add', N(1), ('mul', N(p * rng.choice(facs)), ('i',)))), tol
    if fam == 'scale':
        if tol[0] == 'pct':
            p = float(tol[1].strip()[:-1]) / 100 if not exact else float(Fraction(float(tol[1].strip()[:-1])) / 100)
            if p == 0:
                p = 0.25 if exact else 0.01
        else:
            p = rng.choice([0.5, 0.25, 1.0]) if exact else rng.choice([0.01, 1e-4, 0.2])
        fac = rng.choice(FACTORS_NEAR if not exact else [0.5, 1.0, 1.0, 1.0, 2.0, 1 + 2.0 ** -20, 1 - 2.0 ** -20])
        eps = p * fac
        if rng.random() < 0.3:
            return fam, ('mul', ans, ('sub', N(1), N(eps))), tol
        return fam, ('mul', ans, ('add', N(1), N(eps))), tol
    if fam == 'branch':
        # agrees with the answer exactly where the chosen real variable is >= 0 (resp. where z is real)
        c = rng.choice([1, 2, 0.5]) if exact else rng.choice([1.0, 0.3, 2.5])
        if base == 'complex':
            off = ('mul', N(c), ('sub', ('call', 'conj', X('z')), X('z')))      # -2i*c*im(z): zero where z is real
            return fam, ('add', ans, off), tol
        var = X('x')
        gap = ('sub', ('call', 'abs', var), var) if (exact or rng.random() < 0.6) else ('sub', ('sqrtsq', var), var)
        if base == 'real':
            return fam, ('add', ans, ('mul', N(c), gap)), tol
        mk, _ = rng.choice(DELTA_SHAPES[base])
        return fam, ('add', ans, ('mul', gap, mk(c))), tol
    if fam == 'rewrite':
        scal = {'x', 'y', 'z', 'w'}
        return fam, rewrite(ans, rng, scal), tol
    return fam, ans, tol


def tol_config(tol):
    return tol[1]


def build_grader(kind, ans_text, answer_cfg, tol, n, failable, samplers, user_functions=None):
    from mitxgraders import FormulaGrader, MatrixGrader, NumericalGrader
    cfg = dict(answers=dict(answer_cfg, expect=ans_text), tolerance=tol_config(tol))
    if user_functions:
        cfg['user_functions'] = user_functions
    if kind == 'numerical':
        return NumericalGrader(**cfg)
    cfg.update(samples=n, failable_evals=failable, variables=sorted(samplers), sample_from=samplers)
    if kind in ('vector', 'matrix'):
        return MatrixGrader(max_array_dim=2, **cfg)
    return FormulaGrader(**cfg)


ANSWER_CFGS = [{'grade_decimal': 1, 'msg': ''}, {'grade_decimal': 1, 'msg': ''}, {'grade_decimal': 0.5, 'msg': 'half'},
               {'grade_decimal': 1, 'msg': 'good'}, {'grade_decimal': 0.25, 'msg': ''}, {'grade_decimal': 0.75, 'msg': 'x'}]


def credited(result, answer):
    return (result['ok'] == answer['ok'] and result['grade_decimal'] == answer['grade_decimal']
            and result['msg'] == answer['msg'])


def no_credit(result):
    return result['grade_decimal'] == 0 and result['ok'] is False


def make_case(rng, exact, forced=None):
    """one random grader case (a dict that fully determines the call, so it can be replayed)"""
    kind = rng.choice(['real', 'real', 'complex', 'vector', 'matrix', 'numerical', 'func', 'funcvar', 'const'])
    n = 1 if kind == 'numerical' else rng.choice([1, 2, 3, 4, 5, 5, 7, 10])
    failable = 0 if kind == 'numerical' else rng.choice([0, 0, 1, 1, 2, 3, max(n - 1, 0), n, n + 1])
    tol = pick_tol(rng, exact)
    funcs = {}
    if kind == 'numerical':
        pool = [lambda: N(10), lambda: N(3.5), lambda: ('mul', N(4), N(2.5)), lambda: ('neg', N(8)),
                lambda: ('add', N(3), ('mul', N(4), ('i',)))]
        if not exact:
            pool += [lambda: N(0.1), lambda: ('div', N(22), N(7)), lambda: ('pow', N(1.1), 3)]
        ans = rng.choice(pool)()
        samples = {}
    elif kind in ('func', 'funcvar', 'const'):
        ans = rng.choice({'func': FUNC_ANSWERS, 'funcvar': FUNCVAR_ANSWERS, 'const': CONST_ANSWERS}[kind])()
        samples = gen_samples(rng, 'real', n, exact) if kind == 'funcvar' else {}
        funcs = gen_functions(rng, n, exact, sorted({x[1] for x in walk(ans) if x[0] == 'app'}))
    else:
        pools = {'real': REAL_ANSWERS if exact else REAL_ANSWERS_ROUNDED,
                 'complex': CPLX_ANSWERS if exact else CPLX_ANSWERS_ROUNDED,
                 'vector': VEC_ANSWERS, 'matrix': MAT_ANSWERS}
        ans = rng.choice(pools[kind])()
        samples = gen_samples(rng, kind, n, exact)
    skind = 'complex' if (kind == 'numerical' and any(isinstance(x, tuple) and x == ('i',) for x in walk(ans))) else kind
    vkind = {'numerical': skind, 'func': 'real', 'funcvar': 'real', 'const': 'real'}.get(kind, kind)
    fam, stu, tol = student_variant(rng, vkind, ans, tol, exact, samples)
    if kind in ('numerical', 'func', 'const') and fam == 'branch':
        fam, stu = 'same', ans
    style = {'spaces': rng.random() < 0.4, 'parens': rng.random() < 0.4, 'seed': rng.randrange(1 << 30)}
    return {'kind': kind, 'n': n, 'failable': failable, 'tol': list(tol), 'answer': ans, 'student': stu, 'family': fam,
            'samples': samples, 'funcs': funcs, 'exact': exact, 'answer_cfg': rng.choice(ANSWER_CFGS), 'style': style,
            'vkind': vkind}


def walk(node):
    yield node
    for c in node[1:]:
        if isinstance(c, tuple):
            yield from walk(c)
        elif isinstance(c, list):
            for x in c:
                if isinstance(x, tuple):
                    yield from walk(x)
                elif isinstance(x, list):
                    for y in x:
                        yield from walk(y)


def open_case(case):
    """build the grader object of a case (with recording samplers)"""
    tol = tuple(case['tol'])
    RecordingSet = rec_class()
    samplers = {k: RecordingSet(values=list(v)) for k, v in case['samples'].items()}
    ans_text = render(case['answer'])
    st, g = core.guarded(build_grader, case['kind'], ans_text, case['answer_cfg'], tol, case['n'], case['failable'], samplers,
                         function_samplers(case))
    if st != 'ret':
        return {'failed': repr(g), 'ans_text': ans_text}
    fsamplers = {}
    if case.get('funcs'):
        fsamplers = {k: record_function_sampler(v) for k, v in g.random_funcs.items()}
    answer = g.config['answers'][0]
    return {'g': g, 'samplers': samplers, 'fsamplers': fsamplers, 'ans_text': ans_text,
            'answer': {k: answer[k] for k in ('ok', 'grade_decimal', 'msg')}}


def submit(h, student, style, cap):
    """one submission to an open grader object; the recordings are those of THIS call only"""
    srng = random.Random(style['seed'])
    stu_text = render(student, srng, style['spaces'], style['parens'])
    g = h['g']
    if h['fsamplers']:
        import numpy as np
        # RandomFunction / SpecificFunctions draw from the global generators: pin them to the submission
        np.random.seed(style['seed'] % (1 << 32))
        random.seed(style['seed'])
    mark = {k: len(x.handed_out) for k, x in h['samplers'].items()}
    fmark = {k: len(x.handed_out) for k, x in h['fsamplers'].items()}
    cap.reset()
    st, out = core.guarded(g, None, stu_text)
    return {'status': st, 'result': out if st == 'ret' else None, 'error': None if st == 'ret' else repr(out),
            'answer': h['answer'], 'ans_text': h['ans_text'], 'stu_text': stu_text,
            'handed_out': {k: list(x.handed_out[mark[k]:]) for k, x in h['samplers'].items()},
            'handed_fn': {k: list(x.handed_out[fmark[k]:]) for k, x in h['fsamplers'].items()},
            'evals': cap.evals, 'results': cap.results, 'config_tolerance': g.config['tolerance']}


def run_case(case, cap):
    """run one grader case on the implementation: a fresh grader object, the earlier submissions of case['history'] (if any)
    on that same object, then the submission under test.  Returns a dict with everything observed for the last call."""
    h = open_case(case)
    if 'failed' in h:
        return {'status': 'construct-failed', 'error': h['failed'], 'ans_text': h['ans_text'], 'stu_text': render(case['student'])}
    for past in case.get('history', []):
        submit(h, past['student'], past['style'], cap)
    return submit(h, case['student'], case['style'], cap)


def run_session(session, cap):
    """one grader object, many submissions (wrong ones interleaved).  Yields (case, observation) per submission; each case
    carries the submissions that preceded it on the object, so it replays on its own."""
    base = session['base']
    h = open_case(base)
    history = []
    for sub in session['submissions']:
        case = dict(base, student=sub['student'], family=sub['family'], style=sub['style'], history=list(history))
        if 'failed' in h:
            yield case, {'status': 'construct-failed', 'error': h['failed'], 'ans_text': h['ans_text'], 'stu_text': ''}
            return
        yield case, submit(h, sub['student'], sub['style'], cap)
        history.append({'student': sub['student'], 'style': sub['style']})


def make_session(rng, exact):
    """a grader configuration with >= 2 samples and failable_evals in {0, 1, 2, samples - 1}, and 5-9 submissions:
    the usual families (more weight on formulas that agree on part of the sampling set) with far-off ones interleaved"""
    while True:
        base = make_case(rng, exact)
        if base['n'] >= 2 and base['kind'] != 'numerical':
            break
    base['failable'] = rng.choice([0, 1, 1, 2, 2, base['n'] - 1])
    tol = tuple(base['tol'])
    subs = [{'student': base['student'], 'family': base['family'], 'style': base['style']}]
    fams = ['delta', 'scale', 'scale', 'branch', 'branch', 'branch', 'rewrite', 'same', 'imag']
    if base['kind'] in ('func', 'const'):
        fams = ['delta', 'scale', 'scale', 'rewrite', 'same', 'imag']
    mk, _ = DELTA_SHAPES[base['vkind']][0]
    for _ in range(rng.randint(3, 6)):
        if rng.random() < 0.6:
            far = ('add', base['answer'], mk(rng.choice([100, 1000, 64])))
            subs.append({'student': far, 'family': 'far', 'style': {'spaces': False, 'parens': False, 'seed': rng.randrange(1 << 30)}})
        fam, stu, _t = student_variant(rng, base['vkind'], base['answer'], tol, exact, base['samples'], fams)
        subs.append({'student': stu, 'family': fam,
                     'style': {'spaces': rng.random() < 0.3, 'parens': rng.random() < 0.3, 'seed': rng.randrange(1 << 30)}})
    return {'base': base, 'submissions': subs}


def oracle_case(case, obs):
    """the property on one observed grader call.  Returns (witness text or None, verdict expected, classes)"""
    tol = tuple(case['tol'])
    n = case['n']
    names = sorted(case['samples'])
    handed = obs['handed_out']
    for k in names:
        if len(handed[k]) != n:
            return ('sampler for %s was consulted %d times for %d samples' % (k, len(handed[k]), n)), None, []
    fnames = sorted(case.get('funcs', {}))
    handed_fn = obs.get('handed_fn', {})
    for k in fnames:
        if len(handed_fn.get(k, [])) != n:
            return ('function sampler for %s was consulted %d times for %d samples' % (k, len(handed_fn.get(k, [])), n)), None, []
    classes = []
    for j in range(n):
        env = {k: leaf(handed[k][j]) for k in names}
        for k in fnames:
            env['fn:' + k] = handed_fn[k][j]
        e = ev(case['answer'], env)
        s = ev(case['student'], env)
        if e.shape != s.shape:
            raise EvalError('generator produced a shape mismatch')
        classes.append(classify(e, s, tol))
    want = expected_verdict(classes, n, case['failable'])
    if want is None:
        return None, None, classes
    if obs['status'] != 'ret':
        return ('grader raised %s on a well-formed formula' % obs['error']) if want else None, want, classes
    r = obs['result']
    if want and not credited(r, obs['answer']):
        return ('%d of %d samples differ by more than the tolerance (budget %d) but the answer\'s credit %r was not '
                'awarded: %r' % (classes.count('fail'), n, 0 if n == 1 else case['failable'], obs['answer'], r)), want, classes
    if not want and not no_credit(r):
        return ('%d of %d samples differ by more than the tolerance (budget %d) but credit was awarded: %r'
                % (classes.count('fail'), n, 0 if n == 1 else case['failable'], r)), want, classes
    return None, want, classes


def case_key(case):
    return 'grader:%s/%s/n%d/f%d/%r/%s%s' % (case['kind'], case['family'], case['n'], case['failable'], case['tol'],
                                             render(case['student']),
                                             ('/after %d on %s' % (len(case['history']), render(case['answer']))) if case.get('history') else '')


def grader_term(case, obs):
    """Coq gcase, or None when a value is outside the model (NaN)"""
    evs = []
    pe, se = obs['evals']
    for (params, student, res) in zip(pe, se, obs['results']):
        x, y = value_term(params[0]), value_term(student)
        if x is None or y is None:
            return None
        evs.append('(%s, %s, %s)' % (x, y, boollit(res['ok'] is True or res['ok'] == True)))   # noqa: E712
    tol = obs['config_tolerance']
    t = ('pct', tol) if isinstance(tol, str) else ('abs', tol)
    return '(mkG %s %s %s %s %s)' % (tol_term(t), zlit(case['failable']), entry_term(obs['answer']),
                                     listlit(evs), entry_term(obs['result']))


# ---- fixed corpus: boundary, norm, operand-order and counting cases that must be met on every run ----------------
def corpus():
    out = []

    def add(kind, ans, stu, tol, samples, n, failable, fam, cfg=None, funcs=None):
        out.append({'kind': kind, 'n': n, 'failable': failable, 'tol': list(tol), 'answer': ans, 'student': stu,
                    'family': fam, 'samples': samples, 'funcs': funcs or {}, 'exact': True, 'answer_cfg': cfg or {'grade_decimal': 1, 'msg': ''},
                    'style': {'spaces': False, 'parens': False, 'seed': 1}})
    xy = ('add', ('mul', X('x'), X('y')), N(3))
    s5 = {'x': [1.0, -2.0, 3.0, -4.0, 5.0], 'y': [2.0, 3.0, -1.0, 2.0, 4.0]}
    for t, d in [(2, 2), (2, 2.5), (2, 1.5), (0, 0), (0, 2.0 ** -30), (0.5, 0.5), (0.5, 0.5 + 2.0 ** -30)]:
        add('real', xy, ('add', xy, N(d)), ('abs', t), s5, 5, 0, 'delta')
        add('real', xy, ('sub', xy, N(d)), ('abs', t), s5, 5, 0, 'delta')
    for p, e in [('50%', 0.5), ('50%', 0.5 + 2.0 ** -20), ('50%', 0.25), ('25%', 0.25), ('100%', 1.0), ('0%', 0.0),
                 ('200%', 2.0), ('12.5%', 0.125)]:
        add('real', xy, ('mul', xy, ('add', N(1), N(e))), ('pct', p), s5, 5, 0, 'scale')
        add('real', xy, ('mul', xy, ('sub', N(1), N(e))), ('pct', p), s5, 5, 0, 'scale')
    # percentage is relative to the AUTHOR's value: student = answer/2 (off by 50% of expected, 100% of student)
    for p in ['50%', '75%', '100%', '40%']:
        add('real', xy, ('mul', xy, N(0.5)), ('pct', p), s5, 5, 0, 'scale')
        add('real', xy, ('mul', xy, N(2)), ('pct', p), s5, 5, 0, 'scale')
    # counting: x < 0 at samples 2 and 4 -> exactly two failing samples
    br = ('add', xy, ('mul', N(1), ('sub', ('call', 'abs', X('x')), X('x'))))
    for f in (0, 1, 2, 3, 5, 6):
        add('real', xy, br, ('abs', 1), s5, 5, f, 'branch', {'grade_decimal': 0.5, 'msg': 'half'})
    for f in (0, 1, 4):
        add('real', xy, br, ('abs', 1), {'x': [-2.0], 'y': [3.0]}, 1, f, 'branch')      # single sample: no failure tolerated
        add('real', xy, br, ('abs', 1), {'x': [2.0], 'y': [3.0]}, 1, f, 'branch')
        add('real', xy, br, ('abs', 1), {'x': [2.0, -1.0], 'y': [3.0, 1.0]}, 2, f, 'branch')
    # every sample off
    for n, f in [(3, 0), (3, 2), (3, 3), (3, 4), (1, 0), (1, 2), (2, 1), (2, 2)]:
        add('real', xy, ('add', xy, N(100)), ('abs', 1), {'x': s5['x'][:n], 'y': s5['y'][:n]}, n, f, 'delta')
    # complex and arrays: Frobenius / modulus on the boundary (3-4-5)
    zw = ('add', X('z'), ('mul', ('i',), X('w')))
    sc = {'z': [3 + 4j, 1 - 2j, -2 + 0j], 'w': [1 + 1j, 0 + 2j, 4 - 3j]}
    for t in (5, 4.5, 5.5, 4, 7):
        add('complex', zw, ('add', zw, ('add', N(3), ('mul', N(4), ('i',)))), ('abs', t), sc, 3, 0, 'delta')
    from mitxgraders import MathArray
    sa = {'A': [MathArray([[1.0, 2.0], [3.0, 4.0]]), MathArray([[0.0, -1.0], [2.0, 5.0]])],
          'B': [MathArray([[2.0, 0.0], [1.0, 1.0]]), MathArray([[1.0, 1.0], [-3.0, 2.0]])], 'x': [2.0, -3.0]}
    ab = ('add', ('mul', X('A'), X('B')), X('A'))
    for t in (5, 4.5, 5.5, 4, 3.5, 7, 7.5):
        add('matrix', ab, ('add', ab, ('mat', [[N(3), N(0)], [N(0), N(4)]])), ('abs', t), sa, 2, 0, 'delta')
    sv = {'A': [MathArray([1.0, 2.0, 2.0]), MathArray([0.0, 3.0, 4.0])], 'B': [MathArray([1.0, 0.0, 0.0]), MathArray([2.0, 2.0, 1.0])],
          'x': [1.0, 2.0]}
    va = ('sub', ('mul', X('x'), X('A')), ('mul', N(2), X('B')))
    for t in (5, 4.5, 5.5, 4, 7, 6.5):
        add('vector', va, ('add', va, ('vec', [N(3), N(4), N(0)])), ('abs', t), sv, 2, 0, 'delta')
    # percentage of the Frobenius norm of the expected array: A = [1,2,2] (norm 3), [0,3,4] (norm 5); offset norm 3 and 5
    for p in ('100%', '99%', '101%', '60%'):
        add('vector', X('A'), ('add', X('A'), ('vec', [N(0), N(0), N(3)])), ('pct', p), sv, 2, 1, 'delta')
    # imaginary perturbations of REAL author values: a miss at every sample, whatever the student's real part
    I = ('i',)
    for t in (('abs', 1), ('abs', 24), ('abs', 25), ('abs', 26), ('pct', '5%'), ('pct', '300%')):
        add('real', xy, ('add', xy, ('mul', N(25), I)), t, s5, 5, 0, 'imag')
        add('real', xy, ('mul', xy, ('add', N(1), ('mul', N(3), I))), t, s5, 5, 1, 'imag')
        add('numerical', N(3.5), ('add', N(3.5), ('mul', N(2), I)), t, {}, 1, 0, 'imag')
    for t in (('abs', 1), ('abs', 2), ('abs', 3), ('pct', '1%')):
        add('vector', va, ('add', va, ('vec', [I, ('mul', N(2), I), N(0)])), t, sv, 2, 0, 'imag')   # offset norm sqrt(5)
        add('matrix', ab, ('add', ab, ('mul', ('mat', [[N(3), N(0)], [N(0), N(4)]]), I)), ('abs', 5 if t[0] == 'pct' else t[1] + 3), sa, 2, 0, 'imag')
    # answers that depend on sampled functions only: f differs from sample to sample, so author and student must be
    # evaluated with the SAME sampled function at every sample
    fa = ('sub', F('f', N(1)), F('f', N(0)))
    ftrees = {'f': {'type': 'tree', 'params': ['t'],
                    'trees': [('add', ('mul', N(a), X('t')), N(b)) for a, b in [(1, 2), (3, -1), (-2, 5)]]}}
    for stu, fam in [(fa, 'same'), (('add', ('neg', F('f', N(0))), F('f', N(1))), 'rewrite'), (('add', fa, N(2)), 'delta'),
                     (('add', fa, N(2.5)), 'delta'), (('mul', N(1), fa), 'rewrite')]:
        for n in (1, 2, 3):
            add('func', fa, stu, ('abs', 2), {}, n, 0, fam, funcs=ftrees)
    ga = ('mul', N(2), F('g', N(3)))
    for spec in ({'type': 'specific', 'names': ['sin', 'cos', 'square']}, {'type': 'list', 'names': ['cube', 'tanh', 'twice_plus_one']},
                 {'type': 'random', 'config': {}}):
        for stu, fam in [(ga, 'same'), (('mul', F('g', N(3)), N(2)), 'rewrite'), (('add', F('g', N(3)), F('g', N(3))), 'rewrite'),
                         (('add', ga, N(1000)), 'delta')]:
            add('func', ga, stu, ('pct', '1%'), {}, 5, 0, fam, {'grade_decimal': 0.5, 'msg': 'half'}, funcs={'g': spec})
    mixed = ('add', F('f', X('x')), X('y'))
    for stu, fam in [(mixed, 'same'), (('add', X('y'), F('f', X('x'))), 'rewrite'), (('add', mixed, N(2)), 'delta'), (('add', mixed, N(3)), 'delta')]:
        add('funcvar', mixed, stu, ('abs', 2), {'x': s5['x'][:3], 'y': s5['y'][:3]}, 3, 0, fam, funcs=ftrees)
    const = ('add', ('mul', N(3), N(4)), N(1))
    for stu, fam in [(const, 'same'), (N(13), 'rewrite'), (N(15), 'delta'), (N(15.5), 'delta')]:
        add('const', const, stu, ('abs', 2), {}, 4, 1, fam)
    return out


def session_corpus():
    """fixed histories on one grader object: far-off submissions interleaved with a formula that misses at exactly two of
    five samples (x < 0 at samples 2 and 4), for every failable_evals of interest"""
    out = []
    st = {'spaces': False, 'parens': False, 'seed': 1}
    s5 = {'x': [1.0, -2.0, 3.0, -4.0, 5.0], 'y': [2.0, 3.0, -1.0, 2.0, 4.0]}
    xy = ('add', ('mul', X('x'), X('y')), N(3))
    br = ('add', xy, ('mul', N(1), ('sub', ('call', 'abs', X('x')), X('x'))))
    vec = ('vec', [X('x'), ('mul', N(2), X('x')), N(3)])
    vbr = ('vec', [('call', 'abs', X('x')), ('mul', N(2), X('x')), N(3)])
    for kind, ans, part, far in (('real', xy, br, ('add', xy, N(100))),
                                 ('vector', vec, vbr, ('add', vec, ('vec', [N(100), N(0), N(0)])))):
        for f in (0, 1, 2, 4):
            base = {'kind': kind, 'vkind': kind, 'n': 5, 'failable': f, 'tol': ['abs', 1], 'answer': ans, 'student': ans,
                    'family': 'same', 'samples': s5 if kind == 'real' else {'x': s5['x']}, 'funcs': {}, 'exact': True,
                    'answer_cfg': {'grade_decimal': 1, 'msg': ''}, 'style': st}
            subs = [(ans, 'same'), (part, 'branch'), (far, 'far'), (part, 'branch'), (far, 'far'), (far, 'far'), (part, 'branch'),
                    (ans, 'same'), (part, 'branch')]
            out.append({'base': base, 'submissions': [{'student': t, 'family': fam, 'style': st} for t, fam in subs]})
    return out


def run_graders(ctx, res, rng):
    quick = ctx['tier'] == 'quick'
    n_cases = 1100 if quick else 12000
    n_sessions = 90 if quick else 900
    cases = corpus()
    res.distribution['corpus_cases'] = len(cases)
    for i in range(n_cases):
        cases.append(make_case(rng, exact=(i % 2 == 0)))
    # perturb-then-probe: the fixed corpus runs once more AFTER the varied batch (other classes, options, sampled functions,
    # tolerances); the oracle is the property itself, so a verdict that depends on what ran before is a witness here too
    cases += corpus()
    # one grader object, many submissions: the verdict of every call is judged by the same per-call oracle
    sessions = session_corpus() + [make_session(rng, exact=(i % 2 == 0)) for i in range(n_sessions)]
    res.distribution['reused_grader_objects'] = len(sessions)
    res.distribution['submissions_to_reused_objects'] = sum(len(x['submissions']) for x in sessions)

    def stream(cap):
        for case in cases:
            try:
                yield case, run_case(case, cap)
            except EvalError as e:
                res.notes.append('generator problem: %s' % e)
        for session in sessions:
            try:
                for pair in run_session(session, cap):
                    yield pair
            except EvalError as e:
                res.notes.append('generator problem: %s' % e)
    terms, metas = [], []
    dist = {}
    verd = {'credit': 0, 'no-credit': 0, 'band': 0}
    with Capture() as cap:
        for case, obs in stream(cap):
            res.oracle_evals += 1
            if obs['status'] == 'construct-failed':
                res.witnesses.append({'key': 'construct:%r/%d/%d' % (case['tol'], case['n'], case['failable']),
                                      'kind': 'construct', 'case': case_json(case),
                                      'what': 'grader with an in-domain configuration (tolerance %r, samples %d, failable_evals %d) '
                                              'was refused: %s' % (case['tol'], case['n'], case['failable'], obs['error'])})
                continue
            try:
                what, want, classes = oracle_case(case, obs)
            except EvalError as e:
                res.notes.append('generator problem: %s' % e)
                continue
            dk = '%s/%s/%s%s' % (case['kind'], case['family'], case['tol'][0], '/reused' if 'history' in case else '')
            dist[dk] = dist.get(dk, 0) + 1
            verd['band' if want is None else ('credit' if want else 'no-credit')] += 1
            res.boundary += classes.count('band')
            if what:
                res.witnesses.append({'key': case_key(case), 'kind': 'grader', 'case': case_json(case), 'what': what,
                                      'answer_text': obs['ans_text'], 'student_text': obs['stu_text'],
                                      'handed_out': repr(obs['handed_out']), 'functions': case.get('funcs'),
                                      'earlier_submissions_on_the_same_object':
                                          [render(p['student']) for p in case.get('history', [])],
                                      'observed': repr(obs['result'])})
            if obs['status'] != 'ret' or obs['evals'] is None or obs['results'] is None:
                res.disagreements.append({'kind': 'grader-call', 'what': 'call did not return / evaluations not captured: %s'
                                          % obs['error'], 'student': obs['stu_text'], 'answer': obs['ans_text']})
                continue
            term = grader_term(case, obs)
            if term is None:
                continue
            terms.append(term)
            metas.append((case, obs))
            if want is not None and 0 < classes.count('fail') + classes.count('band') < len(classes) or case['family'] in ('delta', 'scale', 'imag'):
                res.nontrivial.add(case_key(case))
    res.distribution['grader_cases_by_kind/family/tolerance'] = dist
    res.distribution['oracle_verdicts'] = verd
    res.distribution['sample_counts'] = sorted({c['n'] for c, _ in metas})
    if metas:
        c, o = metas[len(metas) // 2]
        res.samples.append({'grader': c['kind'], 'answer': o['ans_text'], 'student': o['stu_text'], 'tolerance': c['tol'],
                            'samples': c['n'], 'failable_evals': c['failable'], 'handed_out': repr(o['handed_out'])[:300],
                            'result': repr(o['result'])})
    n, failing, errors = core.eval_agreement('c04_grader', HEADER + AGREE_DEFS, 'grader_case', terms,
                                             shard=max(40, -(-len(terms) // 15)), case_type='gcase')
    res.programs += n
    res.corr_errors += errors
    for i in failing:
        c, o = metas[i]
        res.disagreements.append({'kind': 'grader', 'answer': o['ans_text'], 'student': o['stu_text'], 'tolerance': c['tol'],
                                  'samples': c['n'], 'failable_evals': c['failable'], 'handed_out': repr(o['handed_out']),
                                  'per_sample': repr([r['ok'] for r in o['results']]), 'result': repr(o['result'])})


def case_json(case):
    """JSON-able copy (arrays and complex numbers as nested lists / [re, im])"""
    import numpy as np

    def conv(v):
        if isinstance(v, np.ndarray):
            return {'array': [conv(x) for x in v.tolist()]} if v.ndim == 1 else {'array': [[conv(x) for x in row] for row in v.tolist()]}
        if isinstance(v, complex):
            return {'complex': [v.real, v.imag]}
        return v
    d = dict(case)
    d['samples'] = {k: [conv(x) for x in vs] for k, vs in case['samples'].items()}
    return d


def case_from_json(d):
    from mitxgraders import MathArray

    def conv(v):
        if isinstance(v, dict) and 'complex' in v:
            return complex(*v['complex'])
        if isinstance(v, dict) and 'array' in v:
            rows = v['array']
            return MathArray([[conv(x) for x in r] for r in rows] if rows and isinstance(rows[0], list) else [conv(x) for x in rows])
        return v

    def tup(n):
        if isinstance(n, list):
            if n and isinstance(n[0], str):
                return tuple(tup(x) for x in n)
            return [tup(x) for x in n]
        return n
    c = dict(d)
    c['samples'] = {k: [conv(x) for x in vs] for k, vs in d['samples'].items()}
    c['answer'] = tup(d['answer'])
    c['student'] = tup(d['student'])
    c['funcs'] = {k: (dict(v, trees=[tup(t) for t in v['trees']]) if v.get('type') == 'tree' else v)
                  for k, v in d.get('funcs', {}).items()}
    if 'history' in d:
        c['history'] = [{'student': tup(h['student']), 'style': h['style']} for h in d['history']]
    return c


# ------------------------------------------------------------------------------------------------
# direct calls of within_tolerance (including infinities) and of consolidate_results
# ------------------------------------------------------------------------------------------------
def run_within(ctx, res, rng):
    import numpy as np
    from mitxgraders import MathArray
    from mitxgraders.helpers.calc.mathfuncs import within_tolerance
    quick = ctx['tier'] == 'quick'
    n_cases = 800 if quick else 12000
    inf = float('inf')
    cases = []
    # infinities: only the same infinity matches, whatever the tolerance
    for x in (inf, -inf, 1.0, 0.0, -2.5, 3 + 4j):
        for y in (inf, -inf, 1.0, 0.0, 3 + 4j):
            for tol in (0, 1, 1e300, '100%', '0%', '1e9%'):
                cases.append((x, y, tol))
    # docstring examples and 3-4-5 boundaries
    cases += [(10, 9.01, 1), (10, 9.01, 0.5), (10, 9.01, '10%'), (9.01, 10, '10%'),
              (MathArray([[1, 2], [-3, 1]]), MathArray([[1.1, 2], [-2.8, 1]]), 0.25),
              (MathArray([[1, 2], [-3, 1]]), MathArray([[1.1, 2], [-2.8, 1]]), 0.22),
              (0.0, 0.0, '10%'), (0.0, 1e-30, '10%'), (0.0, 0.0, 0), (4.0, 6.0, '50%'), (4.0, 6.0 + 2.0 ** -40, '50%'),
              (3 + 4j, 0j, 5), (3 + 4j, 0j, 5 - 2.0 ** -40), (3 + 4j, 0j, '100%'), (0j, 3 + 4j, '100%')]
    for _ in range(n_cases):
        shape = rng.choice([None, None, None, (3,), (2, 2), (2, 3)])
        cx = rng.random() < 0.35
        exact = rng.random() < 0.5

        def one():
            if exact:
                return complex(rng.randint(-8, 8), rng.randint(-8, 8) if cx else 0)
            return complex(rng.uniform(-8, 8), rng.uniform(-8, 8) if cx else 0)

        def val():
            if shape is None:
                c = one()
                return c if cx else c.real
            size = int(np.prod(shape))
            a = np.array([one() for _ in range(size)]).reshape(shape)
            return MathArray(a if cx else a.real)
        x = val()
        mode = rng.choice(['equal', 'near', 'far', 'boundary'])
        if rng.random() < 0.5:
            tol = rng.choice([0, 1, 2, 5, 0.5, 1e-3, 0.1, 10]) if exact else rng.choice([0, 1e-6, 0.1, 1.0, 3.7])
        else:
            tol = rng.choice(['0%', '50%', '25%', '100%', '10%', '1%', '0.01%', '150%'])
        if mode == 'equal':
            y = x
        elif mode == 'far':
            y = val()
        else:
            # place y at distance (factor * tolerance) from x along a random direction
            nx = float(np.linalg.norm(x))
            T = tol if not isinstance(tol, str) else nx * float(tol[:-1]) / 100
            fac = rng.choice([1.0, 1 - 1e-6, 1 + 1e-6, 0.5, 2.0]) if mode == 'boundary' else rng.choice([0.9, 1.1, 0.99, 1.01])
            if shape is None:
                d = complex(3, 4) / 5 if cx else 1.0
                y = x + d * T * fac * rng.choice([1, -1])
            else:
                size = int(np.prod(shape))
                dirn = np.zeros(size, dtype=complex if cx else float)
                dirn[0] = 3.0 / 5
                dirn[size - 1] += 4.0 / 5 if size > 1 else 0
                y = MathArray(np.asarray(x) + (dirn * T * fac).reshape(shape))
        cases.append((x, y, tol))
    terms, metas = [], []
    for x, y, tol in cases:
        st, out = core.guarded(within_tolerance, x, y, tol)
        res.oracle_evals += 1
        xt, yt = value_term(x), value_term(y)
        if xt is None or yt is None:
            continue
        # the property, directly on this call (Fractions), for infinities and exactly representable inputs
        what = direct_oracle(x, y, tol, st, out)
        if what:
            res.witnesses.append({'key': 'within:%r/%r/%r' % (x, y, tol), 'kind': 'within', 'x': repr(x), 'y': repr(y),
                                  'tolerance': tol, 'what': what})
        t = ('pct', tol) if isinstance(tol, str) else ('abs', tol)
        if t[0] == 'abs' and tol > 1e200:
            continue            # astronomically large tolerance: squares leave the double range of the harness only; skip in Coq
        obs = 'None' if st != 'ret' else '(Some %s)' % boollit(bool(out))
        terms.append('(%s, %s, %s, %s)' % (tol_term(t), xt, yt, obs))
        metas.append((x, y, tol, st, out))
        res.nontrivial.add(('within', repr(x), repr(y), tol))
    res.distribution['within_tolerance_direct_calls'] = len(terms)
    if metas:
        x, y, tol, st, out = metas[len(metas) // 3]
        res.samples.append({'within_tolerance': [repr(x), repr(y), tol], 'returned': repr(out)})
    n, failing, errors = core.eval_agreement('c04_within', HEADER + AGREE_DEFS, 'wt_case', terms,
                                             shard=max(40, -(-len(terms) // 8)),
                                             case_type='tolx * value * value * option bool')
    res.programs += n
    res.corr_errors += errors
    for i in failing:
        x, y, tol, st, out = metas[i]
        res.disagreements.append({'kind': 'within_tolerance', 'x': repr(x), 'y': repr(y), 'tolerance': tol,
                                  'returned': repr(out)})


def direct_oracle(x, y, tol, st, out):
    """infinities, and finite inputs whose decision is certified exact or clear of the guard band"""
    import numpy as np
    xs = not isinstance(x, np.ndarray)
    if xs and not isinstance(y, np.ndarray):
        cx, cy = complex(x), complex(y)
        if math.isinf(cx.real) or math.isinf(cy.real):
            want = (cx == cy)
            if st != 'ret' or bool(out) != want:
                return 'infinite value: expected %r (only the same infinity matches), got %r' % (want, out)
            return None
    try:
        e, s = leaf(x if isinstance(x, np.ndarray) else (complex(x) if isinstance(x, complex) else float(x))), \
            leaf(y if isinstance(y, np.ndarray) else (complex(y) if isinstance(y, complex) else float(y)))
    except (OverflowError, ValueError, TypeError):
        return None
    if e.shape != s.shape:
        return None
    t = ('pct', tol) if isinstance(tol, str) else ('abs', tol)
    if t[0] == 'abs' and tol > 1e200:
        return None if (st == 'ret' and bool(out)) else 'huge tolerance rejected a finite difference'
    c = classify(e, s, t)
    if c == 'band':
        return None
    if st != 'ret' or bool(out) != (c == 'ok'):
        return 'expected %s, got %r' % ('within tolerance' if c == 'ok' else 'outside tolerance', out)
    return None


def run_consolidate(ctx, res, rng):
    from mitxgraders import FormulaGrader
    quick = ctx['tier'] == 'quick'
    n_cases = 800 if quick else 12000
    terms, metas = [], []
    oks = [True, True, True, False, 'partial']
    for i in range(n_cases):
        k = rng.choice([0, 1, 1, 2, 3, 4, 5, 6, 8])
        results = []
        for j in range(k):
            ok = rng.choice(oks)
            g = {True: 1.0, False: 0.0, 'partial': rng.choice([0.5, 0.25])}[ok]
            results.append({'ok': ok, 'grade_decimal': g, 'msg': rng.choice(['', '', 'm%d' % j])})
        failable = rng.choice([0, 0, 1, 2, 3, k, k + 1, max(k - 1, 0)])
        if rng.random() < 0.15:
            answer = None
        else:
            gd = rng.choice([1, 0.5, 0.25, 0])
            answer = {'ok': {1: True, 0: False}.get(gd, 'partial'), 'grade_decimal': gd, 'msg': rng.choice(['', 'well done']),
                      'expect': 'x'}
        import copy
        st, out = core.guarded(FormulaGrader.consolidate_results, copy.deepcopy(results), copy.deepcopy(answer), failable)
        res.oracle_evals += 1
        # oracle: failures counted against failable_evals; one result tolerates no failure
        bad = [r for r in results if r['ok'] is not True]
        budget = 0 if k == 1 else failable
        ans3 = {'ok': True, 'grade_decimal': 1, 'msg': ''} if answer is None else {q: answer[q] for q in ('ok', 'grade_decimal', 'msg')}
        if st != 'ret':
            what = 'consolidate_results raised %r' % (out,)
        elif len(bad) <= budget:
            what = None if out == ans3 else 'only %d failure(s) for a budget of %d, but %r was returned instead of the answer %r' % (len(bad), budget, out, ans3)
        else:
            what = None if (out in bad) else '%d failure(s) exceed the budget of %d, but %r was returned' % (len(bad), budget, out)
        if what:
            res.witnesses.append({'key': 'consolidate:%r/%r/%d' % (results, answer, failable), 'kind': 'consolidate',
                                  'results': results, 'answer': answer, 'failable_evals': failable, 'what': what})
        if st != 'ret':
            continue
        terms.append('(%s, %s, %s, %s)' % (listlit([entry_term(r) for r in results]),
                                           'None' if answer is None else '(Some %s)' % entry_term(answer),
                                           zlit(failable), entry_term(out)))
        metas.append((results, answer, failable, out))
        res.nontrivial.add(('cons', repr(results), repr(answer), failable))
    res.distribution['consolidate_results_direct_calls'] = len(terms)
    n, failing, errors = core.eval_agreement('c04_cons', HEADER + AGREE_DEFS, 'cons_case', terms,
                                             shard=max(40, -(-len(terms) // 4)),
                                             case_type='list entry * option entry * Z * entry')
    res.programs += n
    res.corr_errors += errors
    for i in failing:
        results, answer, failable, out = metas[i]
        res.disagreements.append({'kind': 'consolidate_results', 'results': results, 'answer': answer,
                                  'failable_evals': failable, 'returned': out})


def run_infinite(ctx, res, rng):
    """allow_inf graders: an infinite value matches only the same infinity (grader level)"""
    from mitxgraders import FormulaGrader, NumericalGrader
    table = {'infty': 'pinf', '-infty': 'ninf', '2*infty': 'pinf', 'infty+1': 'pinf', '-3*infty': 'ninf', '1': 'fin',
             '0': 'fin', '-7.5': 'fin', '1e300': 'fin'}
    for cls in (FormulaGrader, NumericalGrader):
        for ans in ('infty', '-infty', '1', '1e300'):
            for tol in (0, 5, '100%', '1e6%'):
                g = cls(answers=ans, tolerance=tol, allow_inf=True)
                for stu in table:
                    st, out = core.guarded(g, None, stu)
                    res.oracle_evals += 1
                    a, s = table[ans], table[stu]
                    if a == 'fin' and s == 'fin':
                        continue
                    want = (a == s)
                    if st != 'ret' or (want and not out['ok'] is True) or (not want and out['grade_decimal'] != 0):
                        res.witnesses.append({'key': 'infinite:%s/%s/%s/%r' % (cls.__name__, ans, stu, tol), 'kind': 'infinite',
                                              'grader': cls.__name__, 'answer': ans, 'student': stu, 'tolerance': tol,
                                              'what': 'answer %s, student %s: expected %s, got %r'
                                                      % (ans, stu, 'credit' if want else 'no credit', out)})
                    res.nontrivial.add(('inf', cls.__name__, ans, stu, tol))
    res.distribution['infinite_value_grader_calls'] = 2 * 4 * 4 * len(table)


def run_validators(ctx, res, rng):
    """every tolerance in the property's domain (numbers >= 0, percentages >= 0, including 0) is accepted and means
    what the author wrote"""
    from mitxgraders import FormulaGrader
    for tol in [0, 0.0, 1, 1e-12, 0.5, 7, 1e6, '0%', '0.0%', '5%', ' 5 %', '5.0%', '1e-3%', '250%', '100%']:
        st, g = core.guarded(FormulaGrader, answers='1', tolerance=tol)
        res.oracle_evals += 1
        if st != 'ret':
            res.witnesses.append({'key': 'validator:%r' % (tol,), 'kind': 'validator', 'tolerance': tol,
                                  'what': 'tolerance %r of the property\'s domain was refused: %r' % (tol, g)})
            continue
        got = g.config['tolerance']
        same = (float(got.strip()[:-1]) == float(tol.strip()[:-1])) if isinstance(tol, str) else (got == tol and not isinstance(got, str))
        if not same:
            res.witnesses.append({'key': 'validator:%r' % (tol,), 'kind': 'validator', 'tolerance': tol,
                                  'what': 'tolerance %r was stored as %r' % (tol, got)})


def run(ctx):
    res = core.Result()
    rng = random.Random(7919 * ctx['seed'] + 4)
    for k in STATS:
        STATS[k] = 0
    res.rule = ('grader calls: fixed boundary/norm/operand-order/counting corpus + random (grader kind, answer, student family '
                'delta/scale/branch/rewrite, tolerance, samples, failable_evals, recorded sample values AND recorded sampled functions: '
                'answers over variables, over sampled functions only (own trees, RandomFunction, SpecificFunctions, bare lists), over both, '
                'and constants) cases, the corpus re-probed after the varied batch, half exactly '
                'representable (verdict demanded on the boundary itself) and half random reals (guard band 1e-9); non-trivial = '
                'delta/scale family or a case where some but not all samples fail; direct calls of within_tolerance and '
                'consolidate_results distinct by their arguments')
    run_graders(ctx, res, rng)
    run_within(ctx, res, rng)
    run_consolidate(ctx, res, rng)
    run_infinite(ctx, res, rng)
    run_validators(ctx, res, rng)
    res.distribution['oracle_sample_decisions'] = dict(STATS)
    return res


def replay(w):
    kind = w.get('kind')
    if kind == 'grader':
        case = case_from_json(w['case'])
        with Capture() as cap:
            obs = run_case(case, cap)
        what, want, classes = oracle_case(case, obs)
        return bool(what), 'answer %s | student %s | tolerance %r samples %d failable_evals %d | handed out %r | per-sample %r | result %r | %s' % (
            obs.get('ans_text'), obs.get('stu_text'), case['tol'], case['n'], case['failable'], obs.get('handed_out'),
            classes, obs.get('result'), what or 'property holds')
    res = core.Result()
    ctx = {'tier': 'quick', 'seed': 0, 'escalate': False, 'model_built': False}
    rng = random.Random(4)
    {'within': run_within, 'consolidate': run_consolidate, 'infinite': run_infinite, 'validator': run_validators,
     'construct': run_graders}.get(kind, run_graders)(ctx, res, rng)
    hit = [x for x in res.witnesses if x['kind'] == kind and (x['key'] == w.get('key') or kind in ('within', 'consolidate'))]
    return bool(hit), 'witnesses of kind %s on the current tree: %d (first: %r)' % (kind, len(hit), hit[:1])


LEVEL_TEXT = ('Theorems for all tolerances >= 0 (absolute and percentage), all sample counts, all failable_evals >= 0, all values '
              '(real, complex, arrays of any shape, +-inf): within_tolerance decides ||expected - student|| <= t resp. <= p% of '
              '||expected|| (Frobenius norm, decided exactly on squares; relative to the first = author\'s argument), an infinite '
              'value matches only the same infinity; the grader returns the matched answer\'s (ok, grade, msg) exactly when the number '
              'of samples outside the tolerance is <= failable_evals (= 0 for one sample) and a zero-credit result otherwise; equal '
              'values at every sample always earn the credit; missing at every sample never does when failable_evals < samples. '
              'within_tolerance, percentage_as_number and consolidate_results are regenerated from the source on every run.')
LEVEL_NOTE = ('Exact rational arithmetic on squares; IEEE rounding of the norm/tolerance computation is modelled and guard-banded '
              '(1e-8 on squares in the correspondence, 1e-9 in the oracle; exactly representable cases are checked on the boundary '
              'itself); parser/evaluator are outside the model (the correspondence starts from the evaluated values, the oracle '
              'evaluates the formulas\' syntax trees in Fractions); trusted: Coq kernel, translate/tolerance.py, harness/props/c04.py; no axioms.')
TECHNIQUE = 'Coq proof (Q arithmetic on squares, nra/lia, induction on the sample list) + typed source-to-Gallina translator + vm_compute correspondence'
DESIGN_REF = 'DESIGN.md section 3, C04'
