"""C08 -- among alternative answers the student always receives the best-scoring one.

Tie (B), differential correspondence at trace level: ItemGrader.check is wrapped at run time (no hooks in
/repo); every invocation -- top level, inside ListGrader (ordered / unordered), inside SingleListGrader --
is recorded with the answers it was given, every check_response call it made (argument and result or
exception, snapshotted at return time) and its outcome.  Each record becomes one Coq term; Model.ItemCheck
(canon + check), instantiated with the recorded check_response results as its oracle table, is evaluated
by vm_compute and compared INSIDE Coq with the observed canonical configuration, the observed call
sequence and the observed outcome (Model/ItemCheckAgree.v).

Property oracles on the implementation (independent of the model and of the wrappers' records):
  singles  -- graders built separately with ONE alternative (one value) each: the grade must be the maximum
              of theirs, the message a longest one among those tied at the maximum, wrong_msg exactly when
              that maximum is zero and all of those messages are empty;
  direct   -- ground truth by construction of the case (which alternatives the input matches, their stated
              credit and message), same three demands;
for every listing order -- StringGrader: all permutations up to 4 alternatives in the quick tier, up to 6 in the
thorough tier (720 orders for the first twelve 6-alternative cases, 60 sampled afterwards); other classes: all up to
3 (quick) / 4 (thorough), 12 / 60 sampled beyond -- with tuple values shuffled, alone and as subgraders of ListGrader
(ordered, unordered) and of a one-item SingleListGrader; plus an exhaustive small scope (every ordered tuple of up to
2 / 3 alternatives over 2 values x 3 credits x 3 message lengths).
"""
import copy
import hashlib
import os
import itertools
import json
import math
import random
import time
import zlib
from fractions import Fraction

from harness import core
from harness.core import listlit

ID = 'C08'
PROPS = 'Props/C08.v'
TRANSLATORS = []
MIRRORED = [('mitxgraders/baseclasses.py', 'ItemGrader.check'),
            ('mitxgraders/baseclasses.py', 'ItemGrader.schema_answers'),
            ('mitxgraders/baseclasses.py', 'ItemGrader.validate_single_answer'),
            ('mitxgraders/baseclasses.py', 'ItemGrader.schema_answer'),
            ('mitxgraders/baseclasses.py', 'ItemGrader.validate_expect_tuple'),
            ('mitxgraders/baseclasses.py', 'ItemGrader.__init__'),
            ('mitxgraders/baseclasses.py', 'ItemGrader.schema_config')]
REFUTED = []
TRUSTED = [
    'correspondence harness harness/props/c08.py: run-time wrappers around ItemGrader.check and the instance\'s '
    'check_response (results snapshotted when check_response returns, i.e. before the wrong_msg step can touch them); '
    'identity of expect values by their leaf strings and occurrence number; floats enter Coq as exact rationals and '
    'are compared with Qeq_bool (no tolerance: grades are copied or compared, never computed, by the modelled code)',
    'modelled, not verified: check_response of each grader class (an arbitrary function in every theorem; the recorded '
    'results in the cases), voluptuous\' engine (schema_answer is modelled by canon: defaults, Range(0,1), the '
    'bare-value retry), Python max()/len()/== on floats and str, dict.copy()',
]
ASSUMPTIONS = ['check_response is a function of (answercopy, student input): the theorems take it as an arbitrary oracle '
               'returning a result or raising',
               'credits lie in [0,1] (enforced by the schema; canon refuses others)',
               'debug=False and no attempt-based credit on the observed graders (both act after check)']

HEADER = ('From Coq Require Import ZArith QArith List Bool.\n'
          'From Verif.Lib Require Import QRound.\n'
          'From Verif.Model Require Import Result ItemCheck ItemCheckAgree.\n'
          'Import ListNotations.\nLocal Open Scope Z_scope.\n')

CLS_IDS = {'ConfigError': 1, 'StudentFacingError': 2, 'ValueError': 3}


def cls_id(name):
    return CLS_IDS.get(name) or (10 + zlib.crc32(name.encode()) % 100000)


# ------------------------------------------------------------------------------------------------
# grader kinds: a universe of mutually non-equivalent values, each with several spellings
# ------------------------------------------------------------------------------------------------
def _u(*classes):
    return [{'alts': list(c[0]), 'inputs': list(c[1]), 'tag': c[2] if len(c) > 2 else ''} for c in classes]


KINDS = {
    'String': {
        'cls': 'StringGrader', 'opts': [{}, {'case_sensitive': False},
                                       {'validation_pattern': '[a-z0-9 ]+', 'explain_validation': None},
                                       {'validation_pattern': '[a-z0-9 ]+', 'explain_validation': 'msg'},
                                       {'validation_pattern': '[a-z0-9 ]+', 'explain_validation': 'err'},
                                       {'accept_any': True, 'min_length': 4, 'explain_minimums': None},
                                       {'accept_any': True, 'min_words': 2, 'explain_minimums': 'msg'},
                                       {'accept_nonempty': True, 'explain_minimums': None},
                                       {'accept_any': True, 'validation_pattern': '[a-z ]+', 'explain_validation': None,
                                        'min_length': 4, 'explain_minimums': 'msg'}],
        # for the option sets with a validation pattern / minimum lengths: inputs that fail them
        'failing': ['cat!', 'Zebra!', '', 'ab', 'two words', 'CAT', 'x', '42'],
        'universe': _u((['cat', ' cat', 'cat  '], ['cat', ' cat ', 'cat\t']),
                       (['dog'], ['dog', 'dog ']),
                       (['fish', 'fish '], ['fish']),
                       (['hello world', 'hello  world'], ['hello world', ' hello   world']),
                       (['42'], ['42']),
                       (['x'], ['x']),
                       (['bird'], ['bird', '\tbird']),
                       (['owl'], ['owl'])),
        'outsiders': ['zebra', '', 'ca', 'catdog'], 'raising': [],
    },
    'Formula': {
        'cls': 'FormulaGrader', 'opts': [{'variables': ['x', 'y']}],
        'universe': _u((['x+1', '1+x'], ['x+1', '1 + x', '(x+1)']),
                       (['2*x', 'x+x'], ['2*x', 'x*2']),
                       (['x^2', 'x*x'], ['x^2', 'x*x']),
                       (['x*y'], ['x*y', 'y*x']),
                       (['sin(x)'], ['sin(x)']),
                       (['x-y'], ['x-y', '-y+x']),
                       (['3', '1+2'], ['3', '6/2']),
                       (['x/2'], ['x/2', '0.5*x'])),
        'outsiders': ['x+7', 'cos(y)', 'y'], 'raising': ['x+', 'x+z'],
    },
    'Numerical': {
        'cls': 'NumericalGrader', 'opts': [{}, {'tolerance': 0.0001}],
        'universe': _u((['1', '1.0', '2/2'], ['1', '1.0', '3/3']),
                       (['2', '1+1'], ['2', '4/2']),
                       (['3.5', '7/2'], ['3.5', '7/2']),
                       (['10'], ['10', '2*5']),
                       (['-1'], ['-1', '0-1']),
                       (['0'], ['0', '1-1']),
                       (['100'], ['100', '10^2']),
                       (['0.001'], ['0.001', '1/1000'])),
        'outsiders': ['55', '-7', '0.5'], 'raising': ['1+', 'q'],
    },
    'Matrix': {
        'cls': 'MatrixGrader', 'opts': [{}, {'answer_shape_mismatch': {'is_raised': False, 'msg_detail': 'shape'}},
                                       {'answer_shape_mismatch': {'is_raised': False, 'msg_detail': 'type'}},
                                       {'suppress_matrix_messages': True},
                                       {'suppress_matrix_messages': True, 'answer_shape_mismatch': {'is_raised': False, 'msg_detail': 'shape'}}],
        'universe': _u((['[1,2]', '[1,2]+[0,0]'], ['[1,2]', '[1, 2]'], 'v2'),
                       (['[2,3]'], ['[2,3]', '[1,1]+[1,2]'], 'v2'),
                       (['[1,1]', '[2,2]/2'], ['[1,1]'], 'v2'),
                       (['[0,1]'], ['[0,1]'], 'v2'),
                       (['[3,4]'], ['[3,4]', '2*[1.5,2]'], 'v2'),
                       (['[5,5]'], ['[5,5]'], 'v2'),
                       (['[1,2,3]'], ['[1,2,3]'], 'v3'),
                       (['[[1,2],[3,4]]'], ['[[1,2],[3,4]]'], 'm22'),
                       (['7'], ['7', '3+4'], 's')),
        'outsiders': ['[9,9]', '[0,0]'], 'raising': ['[1,2', '[1,2]+[1,2,3]'],
        # with suppress_matrix_messages these are graded (zero credit, no message) instead of raising
        'suppressed': ['[1,2]+[1,2,3]', '[1,2]^2', '[1,2]*[1,2,3]'],
    },
    'SingleList': {
        'cls': 'SingleListGrader', 'opts': [{'subgrader': 'String'}, {'subgrader': 'String', 'ordered': True},
                                           {'subgrader': 'String', 'partial_credit': False}],
        'universe': _u(([['a', 'b'], 'a,b', ['a', ' b']], ['a,b', 'a, b']),
                       ([['c', 'd'], 'c,d'], ['c,d', ' c,d']),
                       ([['e', 'f'], 'e,f'], ['e,f']),
                       ([['g', 'h']], ['g,h', 'g , h']),
                       ([['i', 'j'], 'i,j'], ['i,j']),
                       ([['k', 'l']], ['k,l']),
                       # overlapping lists: an input can match one value of a tuple partly and another fully
                       ([['a', 'c'], 'a,c'], ['a,c', 'a, c'], 'ov'),
                       ([['a', 'd']], ['a,d'], 'ov'),
                       ([['b', 'c'], 'b,c'], ['b,c'], 'ov'),
                       ([['e', 'b']], ['e,b', 'e ,b'], 'ov'),
                       ([['c', 'e']], ['c,e'], 'ov')),
        'outsiders': ['y,z', 'q,r'], 'raising': ['a,,b', ''],
        'partial': ['a,z', 'a,d', 'b,a', 'd,c', 'a,b,c', 'a', 'c,b', 'z,f'],
    },
}

# longer lists over a small alphabet: alternative lists overlap, submissions may be shorter or longer than expected
KINDS['SingleListLong'] = {
    'cls': 'SingleListGrader', 'opts': KINDS['SingleList']['opts'],
    'universe': _u(([['a', 'b', 'c', 'd'], 'a,b,c,d'], ['a,b,c,d', 'a, b ,c,d'], 'ov'),
                   ([['e', 'f', 'g', 'h'], 'e,f,g,h'], ['e,f,g,h'], 'ov'),
                   ([['a', 'b', 'e', 'f']], ['a,b,e,f'], 'ov'),
                   ([['a', 'c', 'e', 'g'], 'a,c,e,g'], ['a,c,e,g'], 'ov'),
                   ([['b', 'd', 'f', 'h']], ['b,d,f,h'], 'ov'),
                   ([['e', 'f', 'a', 'h']], ['e,f,a,h'], 'ov'),
                   ([['i', 'j', 'k', 'l'], 'i,j,k,l'], ['i,j,k,l'], 'ov')),
    'outsiders': ['w,x,y,z', 'y,z'], 'raising': ['a,,b', ''],
    'letters': 'abcdefghij',
}


def is_slg(kind):
    return KINDS[kind]['cls'] == 'SingleListGrader'


CREDITS = [1, 0.5, 0.5, 0, 0.25, 1.0, 0.75, 0.0, 0.1, 0.3]
MSGS = [None, None, '', 'ok', 'no', 'good', 'nice', 'well done', 'très bien', 'x', '\U0001d6d1!', 'partial credit here',
        'hint', 'almost', 'ok  ', 'yes', ' ']
WRONG_MSGS = ['', 'try again', 'no', 'nope!', 'good', 'wrong ✗']
OKS = [None, None, None, None, None, None, 'computed', True, False, 'partial']


def opts_of(kind, oi):
    """constructor options of kind / option index, with the subgrader instantiated"""
    from mitxgraders import StringGrader
    o = copy.deepcopy(KINDS[kind]['opts'][oi])
    if o.get('subgrader') == 'String':
        o['subgrader'] = StringGrader()
    return o


def grader_class(kind):
    import mitxgraders
    return getattr(mitxgraders, KINDS[kind]['cls'])


def alt_spellings(kind, oi, k):
    u = KINDS[kind]['universe'][k]
    return u['alts']


def input_spellings(kind, oi, k):
    u = KINDS[kind]['universe'][k]
    if kind == 'String' and KINDS[kind]['opts'][oi].get('case_sensitive') is False:
        return u['inputs'] + [s.upper() for s in u['inputs'][:1]]
    if is_slg(kind) and not KINDS[kind]['opts'][oi].get('ordered'):
        extra = []
        for s in u['inputs'][:1]:
            parts = s.split(',')
            extra.append(','.join(reversed(parts)))
        return u['inputs'] + extra
    return u['inputs']


# ------------------------------------------------------------------------------------------------
# cases (JSON-able)
# ------------------------------------------------------------------------------------------------
def gen_case(rng, kind, tier):
    K = KINDS[kind]
    oi = rng.randrange(len(K['opts']))
    nU = len(K['universe'])
    n = rng.choice([1, 2, 2, 3, 3, 3, 4, 4, 5, 6])
    pool = rng.sample(range(nU), rng.randint(2, min(5, nU)))
    if kind == 'Matrix' and oi == 0:
        pool = [k for k in pool if K['universe'][k]['tag'] == 'v2'] or [0, 1]
    alts = []
    for i in range(n):
        tup = rng.random() < 0.35
        m = rng.choice([1, 2, 2, 3]) if tup else 1
        ks = [rng.choice(pool) for _ in range(m)]
        a = {'form': 'bare' if rng.random() < 0.22 else 'dict', 'tuple': tup, 'classes': ks,
             'values': [copy.deepcopy(rng.choice(alt_spellings(kind, oi, k))) for k in ks],
             'credit': None, 'msg': None, 'ok': None}
        if a['form'] == 'dict':
            a['credit'] = rng.choice(CREDITS) if rng.random() < 0.85 else None
            a['msg'] = rng.choice(MSGS)
            a['ok'] = rng.choice(OKS)
        alts.append(a)
    # make ties likely: copy a credit, vary the message length
    if n >= 2 and rng.random() < 0.5:
        i, j = rng.sample(range(n), 2)
        if alts[i]['form'] == 'dict' and alts[j]['form'] == 'dict':
            alts[j]['credit'] = alts[i]['credit']
            alts[j]['classes'] = list(alts[i]['classes'][:1]) * len(alts[j]['classes'])
            alts[j]['values'] = [copy.deepcopy(rng.choice(alt_spellings(kind, oi, k))) for k in alts[j]['classes']]
            if rng.random() < 0.7:
                alts[j]['msg'] = rng.choice(MSGS[3:])
    inputs = []
    if is_slg(kind) and rng.random() < 0.6:
        # a tuple whose earlier value the input matches only partly and whose later value it matches fully
        U = K['universe']
        items = lambda k: {x.strip() for x in U[k]['alts'][0]}
        pairs = [(p, q) for p in range(nU) for q in range(nU) if p != q and 0 < len(items(p) & items(q)) < len(items(p))]
        p, q = rng.choice(pairs)
        ks = [p, q] + ([rng.choice(range(nU))] if rng.random() < 0.3 else [])
        a = {'form': rng.choice(['dict', 'dict', 'bare']), 'tuple': True, 'classes': ks,
             'values': [copy.deepcopy(rng.choice(alt_spellings(kind, oi, k))) for k in ks],
             'credit': None, 'msg': None, 'ok': None}
        if a['form'] == 'dict':
            a['credit'] = rng.choice([None, 1, 1, 0.5, 0.75])
            a['msg'] = rng.choice(MSGS[3:])
        alts[rng.randrange(len(alts))] = a
        inputs.append({'text': rng.choice(input_spellings(kind, oi, q)), 'cls': q})
    used = sorted({k for a in alts for k in a['classes']})
    for k in rng.sample(used, min(len(used), 3)):
        inputs.append({'text': rng.choice(input_spellings(kind, oi, k)), 'cls': k})
    unused = [k for k in range(nU) if k not in used]
    if unused:
        k = rng.choice(unused)
        inputs.append({'text': rng.choice(input_spellings(kind, oi, k)), 'cls': k})
    inputs.append({'text': rng.choice(K['outsiders']), 'cls': None})
    if K.get('partial') and rng.random() < 0.8:
        inputs.append({'text': rng.choice(K['partial']), 'cls': 'partial'})
    if K.get('failing') and oi >= 2:
        for t in rng.sample(K['failing'], 3):
            inputs.append({'text': t, 'cls': 'partial'})
    if K.get('letters'):
        # submissions with fewer / as many / more entries than the expected lists, overlapping several of them
        for _ in range(4):
            m = rng.choice([1, 2, 2, 3, 3, 4, 5, 6])
            if rng.random() < 0.6 and used:
                # mostly drawn from one listed alternative, so that alternatives earn different amounts
                base = [x.strip() for x in K['universe'][rng.choice(used)]['alts'][0]]
                rest = [c for c in K['letters'] if c not in base]
                rng.shuffle(base)
                rng.shuffle(rest)
                t = rng.randint(max(1, m - 2), m)
                picks = (base[:t] + rest)[:m]
                rng.shuffle(picks)
            else:
                picks = rng.sample(K['letters'], m)
            inputs.append({'text': rng.choice([',', ', ']).join(picks), 'cls': 'partial'})
    if K['raising'] and rng.random() < 0.25:
        inputs.append({'text': rng.choice(K['raising']), 'cls': 'raising'})
    if kind == 'Matrix' and oi != 0:
        # an input whose shape differs from some alternative's (a message, or a silent zero, per alternative)
        tags = {K['universe'][k]['tag'] for k in used}
        other = [k for k in range(nU) if K['universe'][k]['tag'] not in tags and K['universe'][k]['tag'] != 'm22']
        if other and rng.random() < 0.8:
            k = rng.choice(other)
            inputs.append({'text': rng.choice(input_spellings(kind, oi, k)), 'cls': k})
        if K['opts'][oi].get('suppress_matrix_messages') and rng.random() < 0.8:
            inputs.append({'text': rng.choice(K['suppressed']), 'cls': None})
    rng.shuffle(inputs)
    single = (n == 1 and rng.random() < 0.5)
    return {'kind': kind, 'oi': oi, 'alts': alts, 'wrong_msg': rng.choice(WRONG_MSGS), 'inputs': inputs, 'single': single}


def corpus_cases():
    """hand-written cases that run first on every seed: ties, equal-length ties, zero-credit feedback, wrong_msg"""
    def d(k, credit=None, msg=None, ok=None, values=None, form='dict'):
        ks = k if isinstance(k, list) else [k]
        return {'form': form, 'tuple': isinstance(k, list), 'classes': ks,
                'values': values or [KINDS['String']['universe'][c]['alts'][0] for c in ks],
                'credit': credit, 'msg': msg, 'ok': ok}
    ins = [{'text': 'cat', 'cls': 0}, {'text': 'dog', 'cls': 1}, {'text': 'fish', 'cls': 2}, {'text': 'zebra', 'cls': None},
           {'text': '', 'cls': None}]
    out = []
    out.append({'kind': 'String', 'oi': 0, 'wrong_msg': 'try again', 'inputs': ins, 'single': False, 'alts': [
        d(0, 0.5, 'ok'), d(0, 0.5, 'well done'), d(0, 0.25, 'partial credit here'), d(1, 1, ''), d(2, 0, 'hint')]})
    out.append({'kind': 'String', 'oi': 0, 'wrong_msg': 'no', 'inputs': ins, 'single': False, 'alts': [
        d(0, 1, 'ab'), d(0, 1, 'cd'), d(1, 0, 'no'), d(1, 0, ''), d([2, 0], 0.5, None)]})
    out.append({'kind': 'String', 'oi': 0, 'wrong_msg': '', 'inputs': ins, 'single': False, 'alts': [
        d(0, form='bare'), d([1, 2], form='bare'), d(0, 0.75, 'x')]})
    out.append({'kind': 'String', 'oi': 0, 'wrong_msg': 'good', 'inputs': ins, 'single': False, 'alts': [
        d(0, 0, 'good'), d(1, 0.3, 'good'), d(2, 1, None, ok=False), d(2, 1, 'nice', ok='partial'), d(0, 0.0, 'almost'),
        d(1, 0.3, '\U0001d6d1!')]})
    out.append({'kind': 'String', 'oi': 0, 'wrong_msg': 'try again', 'inputs': ins, 'single': True, 'alts': [d(0, 0, None)]})
    out.append({'kind': 'String', 'oi': 0, 'wrong_msg': 'try again', 'inputs': ins, 'single': True,
                'alts': [d([0, 1, 2], form='bare')]})
    # partial-credit grader, one alternative written as a tuple: the input matches the first value partly, the second fully
    sl = [{'text': 'a, c', 'cls': 6}, {'text': 'a,b', 'cls': 0}, {'text': 'c,a', 'cls': 6}, {'text': 'a,z', 'cls': 'partial'},
          {'text': 'y,z', 'cls': None}]
    for oi in (0, 1):
        out.append({'kind': 'SingleList', 'oi': oi, 'wrong_msg': 'try again', 'inputs': sl, 'single': True, 'alts': [
            {'form': 'dict', 'tuple': True, 'classes': [0, 6], 'values': [['a', 'b'], ['a', 'c']], 'credit': None,
             'msg': 'well done', 'ok': None}]})
    out.append({'kind': 'SingleList', 'oi': 0, 'wrong_msg': '', 'inputs': sl, 'single': False, 'alts': [
        {'form': 'dict', 'tuple': True, 'classes': [8, 0, 6], 'values': ['b,c', ['a', 'b'], 'a,c'], 'credit': 0.5,
         'msg': 'half', 'ok': None},
        {'form': 'bare', 'tuple': True, 'classes': [7, 6], 'values': [['a', 'd'], ['a', 'c']], 'credit': None, 'msg': None,
         'ok': None}]})
    return out


def build_alt(a, values=None):
    vals = [copy.deepcopy(v) for v in (values if values is not None else a['values'])]
    expect = tuple(vals) if a['tuple'] else vals[0]
    if a['form'] == 'bare':
        return expect
    dct = {'expect': expect}
    if a['credit'] is not None:
        dct['grade_decimal'] = a['credit']
    if a['msg'] is not None:
        dct['msg'] = a['msg']
    if a['ok'] is not None:
        dct['ok'] = a['ok']
    return dct


def arrange(case, perm, shuffles):
    """alternatives in listing order `perm`, tuple values in order shuffles[i] (a permutation of range(len(values)))"""
    out = []
    for i in perm:
        a = case['alts'][i]
        sh = shuffles.get(str(i)) if isinstance(shuffles, dict) else None
        vals = [a['values'][j] for j in sh] if sh else a['values']
        out.append((a, vals))
    return out


def build_answers(case, perm, shuffles):
    arr = arrange(case, perm, shuffles)
    objs = [build_alt(a, vals) for a, vals in arr]
    if case.get('single') and len(objs) == 1:
        return objs[0]
    return tuple(objs)


def make_grader(case, perm, shuffles, wrong_msg=None):
    cls = grader_class(case['kind'])
    return cls(answers=build_answers(case, perm, shuffles),
               wrong_msg=case['wrong_msg'] if wrong_msg is None else wrong_msg, **opts_of(case['kind'], case['oi']))


def singles_of(case):
    """every single alternative: one value with the credit / message / ok of its alternative"""
    out = []
    for i, a in enumerate(case['alts']):
        for j, v in enumerate(a['values']):
            s = dict(a)
            s['tuple'] = False
            s['values'] = [v]
            s['classes'] = [a['classes'][j]]
            out.append(s)
    return out


# ------------------------------------------------------------------------------------------------
# expectation from a list of (grade, msg) earned against each single alternative
# ------------------------------------------------------------------------------------------------
def expectation(earned, wrong_msg):
    best = max(g for g, _ in earned)
    msgs = [m for g, m in earned if g == best]
    L = max(len(m) for m in msgs)
    if best == 0 and L == 0:
        return best, {wrong_msg}, True
    return best, {m for m in msgs if len(m) == L}, False


def judge(result, earned, wrong_msg, tol=0):
    """compare one returned entry with the property; returns None or a description of the failure"""
    best, allowed, subst = expectation(earned, wrong_msg)
    g, m = result.get('grade_decimal'), result.get('msg')
    if not (abs(Fraction(g) - Fraction(best)) <= tol):
        return 'grade %r, but the best single alternative earns %r (earned per alternative: %r)' % (g, best, earned)
    if m not in allowed:
        if subst:
            return ('message %r, but the best grade is 0 and no specific feedback applies, so wrong_msg %r is due'
                    % (m, wrong_msg))
        if best == 0 and m == wrong_msg and wrong_msg not in allowed:
            return 'wrong_msg %r shown although specific feedback %r applies at grade 0' % (m, sorted(allowed))
        return ('message %r is not a longest one among the alternatives tied at the best grade %r (allowed: %r; earned: %r)'
                % (m, best, sorted(allowed), earned))
    return None


def direct_earned(case, inp):
    """ground truth by construction, or None when the case does not determine it"""
    kind, k = case['kind'], inp['cls']
    if is_slg(kind):
        return direct_earned_slg(case, inp)
    if k in ('partial', 'raising'):
        return None
    if kind == 'Matrix':
        U = KINDS[kind]['universe']
        tags = {U[c]['tag'] for a in case['alts'] for c in a['classes']}
        if k is not None:
            tags.add(U[k]['tag'])
        if KINDS[kind]['opts'][case['oi']].get('suppress_matrix_messages'):
            # shape / type mismatches are graded silently: zero credit, empty message
            if k is not None and U[k]['tag'] == 'm22':
                return None                 # a matrix literal as input is refused by the parser (max_array_dim=1)
        elif tags != {'v2'}:
            return None
    if kind == 'String' and case['oi'] >= 2:
        return None                     # validation pattern / minimum lengths / accept_any: the singles oracle judges these
    earned = []
    for a in case['alts']:
        credit = 1 if a['credit'] is None else a['credit']
        msg = '' if a['msg'] is None else a['msg']
        for c in a['classes']:
            earned.append((credit, msg) if (k is not None and c == k) else (0, ''))
    return earned


def direct_earned_slg(case, inp):
    """SingleListGrader over plain strings: a submission that matches an expected list entirely (same entries; same order
    when ordered) earns the alternative's credit and message; one sharing no entry with it earns (0, ''); with
    partial_credit=False anything short of an entire match earns (0, ''); other overlaps are left to the singles oracle"""
    kind = case['kind']
    if inp['cls'] == 'raising':
        return None
    o = KINDS[kind]['opts'][case['oi']]
    sub = [p.strip() for p in inp['text'].split(',')]
    if any(p == '' for p in sub):
        return None
    U = KINDS[kind]['universe']
    earned = []
    for a in case['alts']:
        credit = 1 if a['credit'] is None else a['credit']
        msg = '' if a['msg'] is None else a['msg']
        for c in a['classes']:
            exp = [x.strip() for x in U[c]['alts'][0]]
            full = (sub == exp) if o.get('ordered') else (sorted(sub) == sorted(exp))
            if full:
                earned.append((credit, msg))
            elif o.get('partial_credit') is False or not (set(sub) & set(exp)):
                earned.append((0, ''))
            else:
                return None
    return earned


# ------------------------------------------------------------------------------------------------
# recording ItemGrader.check (correspondence)
# ------------------------------------------------------------------------------------------------
def leaves(v):
    if isinstance(v, str):
        return (v,)
    if isinstance(v, dict):
        if 'comparer_params' in v:
            return tuple(v['comparer_params'])
        if 'expect' in v:
            return leaves(v['expect'])
        return (repr(v),)
    if isinstance(v, (list, tuple)):
        return tuple(x for y in v for x in leaves(y))
    return (repr(v),)


def snap_entry(r):
    return {'ok': r.get('ok'), 'grade_decimal': r.get('grade_decimal'), 'msg': r.get('msg')}


def snap_answers(answers):
    out = []
    for a in answers:
        out.append({'expect': [leaves(e) for e in a['expect']], 'grade_decimal': a['grade_decimal'], 'msg': a['msg'],
                    'ok': a['ok']})
    return out


class Recorder:
    def __init__(self):
        self.stack = []
        self.frames = []
        self.installed = False
        self.recent = {}            # id -> result object of earlier check_response calls (kept alive, so ids are unique)
        self.shared = 0             # results that are the very object an earlier call returned

    def install(self):
        from mitxgraders.baseclasses import ItemGrader
        rec = self
        self.cls = ItemGrader
        self.orig = ItemGrader.__dict__['check']
        orig = self.orig

        def check(g, answers, student_input, **kwargs):
            eff = g.config['answers'] if answers is None else answers
            frame = {'depth': len(rec.stack), 'wrong_msg': g.config.get('wrong_msg'), 'calls': [], 'input': student_input,
                     'grader': type(g).__name__}
            try:
                frame['answers'] = snap_answers(eff) if isinstance(eff, tuple) else None
            except Exception as e:          # noqa - unexpected shape: keep the frame, mark it
                frame['answers'] = None
            inner = type(g).check_response

            def check_response(answer, si, **kw):
                call = {'expect': leaves(answer.get('expect')), 'grade_decimal': answer.get('grade_decimal'),
                        'msg': answer.get('msg'), 'ok': answer.get('ok')}
                frame['calls'].append(call)
                try:
                    res = inner(g, answer, si, **kw)
                except Exception as e:
                    call['exc'] = e
                    raise
                call['result'] = snap_entry(res)
                if rec.recent.get(id(res)) is res:
                    rec.shared += 1
                elif len(rec.recent) < 50000:
                    rec.recent[id(res)] = res
                return res
            had = 'check_response' in g.__dict__
            g.__dict__['check_response'] = check_response
            rec.stack.append(frame)
            try:
                out = orig(g, answers, student_input, **kwargs)
                frame['ret'] = snap_entry(out)
                return out
            except Exception as e:
                frame['exc'] = e
                raise
            finally:
                rec.stack.pop()
                if not had:
                    del g.__dict__['check_response']
                rec.frames.append(frame)
        ItemGrader.check = check
        self.installed = True

    def uninstall(self):
        if self.installed:
            self.cls.check = self.orig
            self.installed = False

    def take(self):
        fr, self.frames = self.frames, []
        return fr


# ------------------------------------------------------------------------------------------------
# Coq terms
# ------------------------------------------------------------------------------------------------
class Untermable(Exception):
    pass


def okterm(ok):
    if ok is True:
        return 'OkTrue'
    if ok is False:
        return 'OkFalse'
    if isinstance(ok, str) and ok == 'partial':
        return 'OkPartial'
    try:
        import numpy as np
        if isinstance(ok, np.bool_):
            return 'OkTrue' if bool(ok) else 'OkFalse'
    except ImportError:
        pass
    raise Untermable('ok value %r' % (ok,))


def zc(n):
    n = int(n)
    return '(%d)' % n if n < 0 else '%d' % n


def qparts(x):
    if isinstance(x, bool):
        x = int(x)
    if isinstance(x, float) and not math.isfinite(x):
        raise Untermable('non-finite number %r' % (x,))
    try:
        fr = Fraction(x)
    except (TypeError, ValueError):
        try:
            fr = Fraction(float(x))
        except Exception:
            raise Untermable('number %r' % (x,))
    return '%s %d' % (zc(fr.numerator), fr.denominator)


class Pool:
    """distinct messages and numbers of a run, defined once in the header of the case files (Coq interprets every
    numeral through a number notation, which dominates the elaboration time of literal-heavy files)"""
    def __init__(self):
        self.strs = {}
        self.nums = {}

    def s(self, text):
        if text not in self.strs:
            self.strs[text] = 's%d' % len(self.strs)
        return self.strs[text]

    def q(self, parts):
        if parts not in self.nums:
            self.nums[parts] = 'q%d' % len(self.nums)
        return self.nums[parts]

    def header(self):
        out = []
        for text, name in self.strs.items():
            out.append('Definition %s : str := [%s].' % (name, ';'.join(str(ord(c)) for c in text)))
        for parts, name in self.nums.items():
            out.append('Definition %s : Q := Qmake %s.' % (name, parts))
        return '\n'.join(out) + '\n'


POOL = Pool()


def qterm(x):
    """exact rational, by name"""
    return POOL.q(qparts(x))


def sterm(s):
    if not isinstance(s, str):
        raise Untermable('message %r' % (s,))
    return POOL.s(s)


def entry_fields(e):
    return '%s %s %s' % (okterm(e['ok']), qterm(e['grade_decimal']), sterm(e['msg']))


class Ids:
    """identity of an expect value: (index of its leaf-string key in order of first appearance, occurrence number)"""
    def __init__(self):
        self.keys = {}

    def key_index(self, key):
        if key not in self.keys:
            self.keys[key] = len(self.keys) + 1
        return self.keys[key]

    def counter(self):
        return IdCounter(self)


class IdCounter:
    def __init__(self, ids):
        self.ids = ids
        self.seen = {}

    def next(self, key):
        k = self.ids.key_index(key)
        occ = self.seen.get(k, 0)
        self.seen[k] = occ + 1
        if occ >= 64:
            raise Untermable('too many repetitions of one value')
        return k * 64 + occ


def answers_term(snap, ids):
    cnt = ids.counter()
    items = []
    for a in snap:
        es = [zc(cnt.next(e)) for e in a['expect']]
        items.append('(ans %s %s %s %s)' % (listlit(es), qterm(a['grade_decimal']), sterm(a['msg']), okterm(a['ok'])))
    return listlit(items)


def run_term(frame, ids, outcome):
    """(table, calls seen, outcome seen);  outcome = ('ret', entry) | ('exc', exception)"""
    from mitxgraders.exceptions import MITxError
    cnt = ids.counter()
    table, calls = [], []
    for c in frame['calls']:
        i = cnt.next(c['expect'])
        calls.append('(sgl %s %s %s %s)' % (zc(i), qterm(c['grade_decimal']), sterm(c['msg']), okterm(c['ok'])))
        if 'result' in c:
            table.append('(t_hit %s %s)' % (zc(i), entry_fields(c['result'])))
        else:
            e = c.get('exc')
            table.append('(t_exc %s %s %s)' % (zc(i), 'true' if isinstance(e, MITxError) else 'false',
                                               zc(cls_id(type(e).__name__))))
    if outcome[0] == 'ret':
        o = '(o_ret %s)' % entry_fields(outcome[1])
    else:
        o = '(OExc %s)' % zc(cls_id(type(outcome[1]).__name__))
    return '(mkrun %s %s %s)' % (listlit(table), listlit(calls), o)


def raw_term(case, perm, shuffles, ids):
    """the author's answers as a raw_answers term; ids by leaf strings of the raw values, in listing order"""
    kind = case['kind']
    cnt = ids.counter()

    def raw_leaves(v):
        if is_slg(kind) and isinstance(v, str):
            return leaves(v.split(','))
        return leaves(v)
    items = []
    for a, vals in arrange(case, perm, shuffles):
        es = [zc(cnt.next(raw_leaves(v))) for v in vals]
        re_ = '(r_many %s)' % listlit(es) if a['tuple'] else '(r_one %s)' % es[0]
        if a['form'] == 'bare':
            items.append('(r_bare %s)' % re_)
        else:
            okraw = {None: 'nook', 'computed': '(someok RComputed)', True: '(someok RTrue)', False: '(someok RFalse)',
                     'partial': '(someok RPartial)'}[a['ok']]
            items.append('(r_dict %s %s %s %s)' % (re_, 'noq' if a['credit'] is None else '(someq %s)' % qterm(a['credit']),
                                                   'nos' if a['msg'] is None else '(somes %s)' % sterm(a['msg']), okraw))
    if case.get('single') and len(items) == 1:
        return '(r_single %s)' % items[0]
    return '(r_tuple %s)' % listlit(items)


# ------------------------------------------------------------------------------------------------
# running one case
# ------------------------------------------------------------------------------------------------
def perms_for(rng, n, tier, budget):
    allp = list(itertools.permutations(range(n)))
    if len(allp) <= budget:
        return allp
    ident, rev = tuple(range(n)), tuple(reversed(range(n)))
    rest = [p for p in allp if p not in (ident, rev)]
    return [ident, rev] + rng.sample(rest, budget - 2)


def shuffles_for(rng, case, plain):
    sh = {}
    if plain:
        return sh
    for i, a in enumerate(case['alts']):
        if len(a['values']) > 1 and rng.random() < 0.6:
            order = list(range(len(a['values'])))
            rng.shuffle(order)
            sh[str(i)] = order
    return sh


def call_singles(case, res):
    """(grade, msg) earned against each single alternative, per input; None where some single grader raises"""
    out = {}
    graders = []
    for s in singles_of(case):
        sc = {'kind': case['kind'], 'oi': case['oi'], 'alts': [s], 'single': False, 'wrong_msg': ''}
        st, g = core.guarded(make_grader, sc, (0,), {}, '')
        graders.append(g if st == 'ret' else None)
    for inp in case['inputs']:
        earned = []
        for g in graders:
            if g is None:
                earned = None
                break
            st, r = core.guarded(g, None, inp['text'])
            res.oracle_evals += 1
            if st != 'ret':
                earned = None
                break
            earned.append((r['grade_decimal'], r['msg']))
        out[inp['text']] = earned
    return out, all(g is not None for g in graders)


def witness(case, mode, perm, shuffles, inp, what, oracle, extra=None):
    blob = json.dumps([case, mode, list(perm), shuffles, inp], sort_keys=True, default=repr)
    w = {'key': '%s:%s:%s' % (case['kind'], mode, hashlib.sha256(blob.encode()).hexdigest()[:12]), 'kind': mode,
         'oracle': oracle, 'case': case, 'perm': list(perm), 'shuffles': shuffles, 'input': inp, 'what': what}
    if extra:
        w.update(extra)
    return w


def check_top(case, perm, shuffles, singles, constructible, res, rec, emit, stats):
    """build the grader with alternatives in order `perm`, call it on every input of the case (same instance),
    judge every result with both oracles; returns the Coq term of the Top case (or None)"""
    st, g = core.guarded(make_grader, case, perm, shuffles)
    ids = Ids()
    if st != 'ret':
        if constructible:
            res.witnesses.append(witness(case, 'top', perm, shuffles, None,
                                         'grader with these alternatives cannot be built (%r) although every single alternative '
                                         'can' % (g,), 'singles'))
        stats['unconstructible'] += 1
        if emit:
            try:
                return 'Top %s %s cfg_none []' % (raw_term(case, perm, shuffles, ids), sterm(case['wrong_msg']))
            except Untermable:
                return None
        return None
    runs = []
    term_ok = True
    try:
        rawt = raw_term(case, perm, shuffles, ids)
        cfgt = answers_term(snap_answers(g.config['answers']), ids)
    except Untermable as e:
        stats['untermable'] += 1
        term_ok = False
    # every input twice on the first instance of a case would double the cost; instead the same instance sees all inputs
    for inp in case['inputs']:
        rec.take()
        st, r = core.guarded(g, None, inp['text'])
        frames = rec.take()
        res.oracle_evals += 1
        stats['calls'] += 1
        earned = singles.get(inp['text'])
        direct = direct_earned(case, inp)
        if st == 'timeout':
            stats['timeouts'] += 1
            continue
        for name, e in (('singles', earned), ('direct', direct)):
            if e is None:
                stats['oracle_na_' + name] += 1
                continue
            if st != 'ret':
                res.witnesses.append(witness(case, 'top', perm, shuffles, inp,
                                             'no grade returned (%s: %s) although every single alternative yields one: %r'
                                             % (type(r).__name__, r, e), name))
                continue
            bad = judge(r, e, case['wrong_msg'])
            if bad:
                res.witnesses.append(witness(case, 'top', perm, shuffles, inp, bad, name, {'returned': snap_entry(r)}))
        if earned is not None and direct is not None and sorted(earned) != sorted(direct):
            stats['singles_vs_direct_differ'] += 1
        if st == 'ret':
            best = r['grade_decimal']
            res.nontrivial.add((case['kind'], case['oi'], json.dumps(case['alts'], sort_keys=True, default=repr), tuple(perm),
                                inp['text']))
            stats['grade_%s' % ('0' if best == 0 else '1' if best == 1 else 'partial')] += 1
        else:
            stats['raised'] += 1
        # correspondence: frames of this call (depth 0 = this grader, deeper = subgraders)
        if emit and term_ok:
            top = [f for f in frames if f['depth'] == 0]
            try:
                if len(top) == 1:
                    runs.append(run_term(top[0], ids, (st, r)))
                elif st == 'ret' or top:
                    runs.append('(mkrun [] [] (OExc (-2)))')       # check was not called exactly once: disagreement
                for f in frames:
                    if f['depth'] > 0:
                        t = sub_term(f)
                        if t:
                            stats['sub_terms'].append(t)
            except Untermable:
                stats['untermable'] += 1
    if emit and term_ok:
        return 'Top %s %s (cfg_some %s) %s' % (rawt, sterm(case['wrong_msg']), cfgt, listlit(runs))
    return None


INTERLEAVE_MSGS = ['see the notes, section 3', '', 'zz']


def check_interleaved(case, perms, shuffles_list, singles, res, rec, stats):
    """graders that differ only in wrong_msg (and listing order), called alternately on the inputs of the case; each
    result is judged against the configuration of the grader that returned it"""
    wms = [case['wrong_msg']] + [m for m in INTERLEAVE_MSGS if m != case['wrong_msg']]
    if wms[0] == '':
        wms[0], wms[1] = wms[1], wms[0]
    graders = []
    for wm, perm, sh in zip(wms, itertools.cycle(perms), itertools.cycle(shuffles_list)):
        st, g = core.guarded(make_grader, case, perm, sh, wm)
        if st == 'ret':
            graders.append((g, wm, perm, sh))
    for rnd in range(2):
        for inp in case['inputs']:
            for g, wm, perm, sh in (graders if rnd == 0 else graders[::-1]):
                rec.take()
                st, r = core.guarded(g, None, inp['text'])
                rec.take()
                res.oracle_evals += 1
                stats['interleaved_calls'] += 1
                if st != 'ret':
                    continue
                for name, e in (('singles', singles.get(inp['text'])), ('direct', direct_earned(case, inp))):
                    if e is None:
                        continue
                    bad = judge(r, e, wm)
                    if bad:
                        res.witnesses.append(witness(case, 'interleaved', perm, sh, inp,
                                                     bad + ' [grader with wrong_msg %r, called alternately with graders that differ '
                                                     'only in wrong_msg %r]' % (wm, [w for w in wms if w != wm]), name,
                                                     {'returned': snap_entry(r), 'own_wrong_msg': wm,
                                                      'perms': [list(p) for p in perms], 'shuffles_list': shuffles_list}))


# ------------------------------------------------------------------------------------------------
# perturb-then-probe: the same probes in a fresh interpreter and after the whole ordinary stream of this run
# ------------------------------------------------------------------------------------------------
def probe_cases(seed):
    rng = random.Random(424243 + 97 * seed)
    out = list(corpus_cases())
    for kind in KINDS:
        for oi in range(len(KINDS[kind]['opts'])):
            for _ in range(40):
                c = gen_case(rng, kind, 'quick')
                if c['oi'] == oi:
                    out.append(c)
                    break
    return out


def probe_outcomes(seed):
    """[(probe index, wrong_msg, input text, outcome)] -- deterministic for a seed; outcome = ['ret', grade, msg] | ['exc', class]"""
    import numpy as np
    random.seed(seed * 31 + 5)
    np.random.seed(seed * 31 + 5)
    out = []
    for ci, case in enumerate(probe_cases(seed)):
        n = len(case['alts'])
        for wm in (case['wrong_msg'], 'probe wrong_msg', ''):
            st, g = core.guarded(make_grader, case, tuple(range(n)), {}, wm)
            if st != 'ret':
                out.append([ci, wm, None, ['exc', type(g).__name__]])
                continue
            for inp in case['inputs']:
                st, r = core.guarded(g, None, inp['text'])
                if st == 'ret':
                    out.append([ci, wm, inp['text'], ['ret', repr(r.get('grade_decimal')), r.get('msg')]])
                else:
                    out.append([ci, wm, inp['text'], ['exc', type(r).__name__]])
    return out


def same_outcome(x, y):
    if x[0] != y[0]:
        return False
    if x[0] == 'exc':
        return x[1] == y[1]
    try:
        return float(x[1]) == float(y[1]) and x[2] == y[2]
    except (TypeError, ValueError):
        return x == y


def start_fresh_probes(seed):
    import subprocess
    import sys
    env = dict(os.environ, PYTHONPATH='%s:%s' % (core.REPO, core.VERIF), PYTHONHASHSEED='0')
    code = ('import sys, json; sys.path.insert(0, %r); sys.path.insert(0, %r); from harness.props import c08; '
            'sys.stdout.write("@@PROBES " + json.dumps(c08.probe_outcomes(%d)))' % (core.VERIF, core.REPO, seed))
    try:
        return subprocess.Popen([sys.executable, '-B', '-c', code], env=env, stdout=subprocess.PIPE, stderr=subprocess.DEVNULL,
                                text=True, cwd=core.VERIF)
    except OSError:
        return None


def compare_probes(proc, seed, res, stats):
    """a probe whose outcome after the run's stream of other graders differs from its outcome in a fresh interpreter"""
    if proc is None:
        res.notes.append('fresh-interpreter probes could not be started')
        return
    try:
        out, _ = proc.communicate(timeout=240)
        fresh = json.loads(out.split('@@PROBES ', 1)[1])
    except Exception as e:          # noqa - the comparison is an extra; its own failure proves nothing about the code
        proc.kill()
        res.notes.append('fresh-interpreter probes unavailable: %s' % type(e).__name__)
        return
    after = probe_outcomes(seed)
    res.oracle_evals += len(after)
    stats['probes_compared_with_fresh_interpreter'] = len(after)
    cases = probe_cases(seed)
    if len(fresh) != len(after):
        res.notes.append('probe streams differ in length (%d fresh, %d in-process)' % (len(fresh), len(after)))
    for f, a in zip(fresh, after):
        if f[:3] == a[:3] and not same_outcome(f[3], a[3]):
            ci, wm, text = a[0], a[1], a[2]
            case = dict(cases[ci], wrong_msg=wm)
            inp = next((i for i in case['inputs'] if i['text'] == text), None)
            stats['probes_differing'] += 1
            res.witnesses.append(witness(case, 'probe', tuple(range(len(case['alts']))), {}, inp,
                                         'the same grader on the same input returns %r after the other graders of this run were '
                                         'used, but %r in a fresh interpreter: the result does not depend on this grader\'s '
                                         'alternatives and wrong_msg alone' % (a[3], f[3]), 'fresh-interpreter',
                                         {'after_history': a[3], 'fresh': f[3], 'seed': seed}))


def sub_term(frame):
    if frame.get('answers') is None:
        return None
    ids = Ids()
    outcome = ('ret', frame['ret']) if 'ret' in frame else ('exc', frame['exc'])
    return 'Sub %s %s %s' % (answers_term(frame['answers'], ids), sterm(frame['wrong_msg']), run_term(frame, ids, outcome))


def check_sub(case, mode, perms, shuffles_list, singles, res, rec, stats, emit_terms, rng_inputs):
    """the same grader class used as a subgrader: ListGrader ordered / unordered, one-item SingleListGrader"""
    from mitxgraders import ListGrader, SingleListGrader
    cls = grader_class(case['kind'])
    usable = [i for i in case['inputs'] if singles.get(i['text']) is not None]
    if not usable:
        stats['sub_skipped'] += 1
        return
    sub = cls(wrong_msg=case['wrong_msg'], **opts_of(case['kind'], case['oi']))
    k = len(perms)
    ins = [usable[(rng_inputs + j) % len(usable)] for j in range(k)]
    answers = [build_answers(dict(case, single=False), p, s) for p, s in zip(perms, shuffles_list)]
    tol = 0
    try:
        if mode == 'list-ordered':
            g = ListGrader(answers=answers, subgraders=sub, ordered=True)
            call_in = [i['text'] for i in ins]
        elif mode == 'list-unordered':
            g = ListGrader(answers=answers, subgraders=sub, ordered=False)
            call_in = [i['text'] for i in ins]
        else:
            ins = ins[:1]
            if ins[0]['text'].strip() == '' or ';' in ins[0]['text']:
                stats['sub_skipped'] += 1
                return
            g = SingleListGrader(answers=[answers[0]], subgrader=sub, ordered=True, delimiter=';')
            call_in = ins[0]['text']
            tol = Fraction(1, 10**12)
    except Exception as e:       # noqa
        res.witnesses.append(witness(case, mode, perms[0], shuffles_list[0], None,
                                     'list grader over these alternatives cannot be built: %r' % (e,), 'singles',
                                     {'perms': [list(p) for p in perms], 'shuffles_list': shuffles_list}))
        return
    rec.take()
    st, r = core.guarded(g, None, call_in)
    frames = rec.take()
    res.oracle_evals += 1
    stats['sub_calls_' + mode] += 1
    extra = {'perms': [list(p) for p in perms], 'shuffles_list': shuffles_list, 'inputs_used': ins}
    if st != 'ret':
        res.witnesses.append(witness(case, mode, perms[0], shuffles_list[0], ins[0],
                                     'list grader raised %s: %s although every single alternative yields a grade'
                                     % (type(r).__name__, r), 'singles', extra))
    else:
        entries = r['input_list'] if 'input_list' in r else [r]
        if len(entries) != len(ins):
            res.witnesses.append(witness(case, mode, perms[0], shuffles_list[0], ins[0], 'wrong number of entries: %r' % (r,),
                                         'singles', extra))
        for ent, inp in zip(entries, ins):
            for name, e in (('singles', singles.get(inp['text'])), ('direct', direct_earned(case, inp))):
                if e is None:
                    continue
                bad = judge(ent, e, case['wrong_msg'], tol)
                if bad:
                    res.witnesses.append(witness(case, mode, perms[0], shuffles_list[0], inp, bad + ' [as subgrader: %s]' % mode,
                                                 name, dict(extra, returned=snap_entry(ent))))
            res.nontrivial.add((case['kind'], mode, json.dumps(case['alts'], sort_keys=True, default=repr), inp['text']))
    if emit_terms:
        for f in frames:
            try:
                t = sub_term(f)
                if t:
                    stats['sub_terms'].append(t)
            except Untermable:
                stats['untermable'] += 1


def invalid_config_cases(rng, res, stats):
    """credits outside [0,1] / bad ok values must be refused at construction (canon = None)"""
    from mitxgraders import StringGrader
    terms = []
    for credit in (-0.1, 1.5, 2, -1, 1.0000001):
        case = {'kind': 'String', 'oi': 0, 'wrong_msg': '', 'single': False, 'inputs': [],
                'alts': [{'form': 'bare', 'tuple': False, 'classes': [0], 'values': ['cat'], 'credit': None, 'msg': None, 'ok': None},
                         {'form': 'dict', 'tuple': False, 'classes': [1], 'values': ['dog'], 'credit': credit, 'msg': None, 'ok': None}]}
        for perm in ((0, 1), (1, 0)):
            st, g = core.guarded(make_grader, case, perm, {})
            res.oracle_evals += 1
            ids = Ids()
            if st == 'ret':
                cfg = '(cfg_some %s)' % answers_term(snap_answers(g.config['answers']), ids)
                res.witnesses.append(witness(case, 'config', perm, {}, None,
                                             'credit %r outside [0,1] accepted for an alternative' % (credit,), 'direct'))
            else:
                cfg = 'cfg_none'
            terms.append('Top %s %s %s []' % (raw_term(case, perm, {}, Ids()), sterm(''), cfg))
    stats['invalid_config_cases'] = len(terms)
    return terms


def empty_cases(res, stats):
    """no alternatives at all -> ConfigError; only empty expect tuples -> the generic error (max of nothing)"""
    from mitxgraders import StringGrader
    terms = []
    rec = stats['rec']
    for answers, raw, cfg in (((), '(r_tuple [])', '(cfg_some [])'),
                              (({'expect': ()},), '(r_tuple [r_dict (r_many []) noq nos nook])', '(cfg_some [ans [] %s %s OkTrue])' % (qterm(1), sterm(''))),
                              (({'expect': (), 'grade_decimal': 0.5, 'msg': 'm'}, {'expect': ()}),
                               '(r_tuple [r_dict (r_many []) (someq %s) (somes %s) nook; r_dict (r_many []) noq nos nook])'
                               % (qterm(0.5), sterm('m')),
                               '(cfg_some [ans [] %s %s OkPartial; ans [] %s %s OkTrue])'
                               % (qterm(0.5), sterm('m'), qterm(1), sterm('')))):
        g = StringGrader(answers=answers, wrong_msg='w')
        rec.take()
        st, r = core.guarded(g, None, 'x')
        frames = [f for f in rec.take() if f['depth'] == 0]
        res.oracle_evals += 1
        if st == 'ret':
            res.witnesses.append({'key': 'empty:%r' % (answers,), 'kind': 'empty', 'what': 'a grade %r was returned without any alternative' % (r,),
                                  'answers': repr(answers)})
            continue
        if len(frames) == 1:
            terms.append('Top %s %s %s %s' % (raw, sterm('w'), cfg, listlit([run_term(frames[0], Ids(), (st, r))])))
    return terms


def exhaustive_small(max_n, res, rec, stats, emit_every):
    """every ordered tuple of 1..max_n alternatives over 2 values x 3 credits x 3 messages (StringGrader), inputs matching
    the first value / the second / nothing; judged by construction (direct oracle); all listing orders occur by enumeration"""
    opts = [(k, c, m) for k in (0, 1) for c in (0, 0.5, 1) for m in ('', 'a', 'bb')]
    ins = [{'text': 'cat', 'cls': 0}, {'text': 'dog', 'cls': 1}, {'text': 'zebra', 'cls': None}]
    terms, count = [], 0
    for n in range(1, max_n + 1):
        for combo in itertools.product(opts, repeat=n):
            case = {'kind': 'String', 'oi': 0, 'wrong_msg': 'w', 'single': False, 'inputs': ins, 'alts': [
                {'form': 'dict', 'tuple': False, 'classes': [k], 'values': [KINDS['String']['universe'][k]['alts'][0]],
                 'credit': c, 'msg': m, 'ok': None} for k, c, m in combo]}
            t = check_top(case, tuple(range(n)), {}, {}, True, res, rec, count % emit_every == 0, stats)
            if t:
                terms.append(t)
            count += 1
    stats['exhaustive_small_scope_configs'] = count
    stats['exhaustive_small_scope_max_alternatives'] = max_n
    return terms


# ------------------------------------------------------------------------------------------------
def new_stats():
    import collections
    s = collections.defaultdict(int)
    s['sub_terms'] = []
    return s


def run(ctx):
    import numpy as np
    res = core.Result()
    seed = ctx['seed']
    rng = random.Random(1000003 * seed + 8)
    random.seed(seed * 7919 + 8)
    np.random.seed((seed * 7919 + 8) % (2**32))
    thorough = ctx['tier'] == 'thorough'
    escalate = ctx['escalate'] and not thorough
    res.rule = ('one case = (grader class and options, 1-6 alternatives [bare value | bare tuple | dict with value or tuple, credit, '
                'message, ok], wrong_msg, listing order, tuple-value order, input); inputs match none / one / several alternatives; '
                'non-trivial = distinct (class, options, alternatives, order, input) on which a grade was returned; subgrader '
                'cases distinct by (class, mode, alternatives, input)')
    stats = new_stats()
    rec = Recorder()
    stats['rec'] = rec
    fresh_proc = start_fresh_probes(seed)
    rec.install()
    terms = []
    POOL.__init__()
    try:
        plan = {'String': 46, 'Formula': 9, 'Numerical': 12, 'Matrix': 8, 'SingleList': 12, 'SingleListLong': 12}
        if escalate:
            plan = {k: int(v * 1.6) for k, v in plan.items()}
        if thorough:
            plan = {'String': 700, 'Formula': 90, 'Numerical': 130, 'Matrix': 70, 'SingleList': 150, 'SingleListLong': 150}
        perm_budget = 24 if not thorough else 720
        cases = [(c, True) for c in corpus_cases()]
        for kind, n in plan.items():
            for _ in range(n):
                cases.append((gen_case(rng, kind, ctx['tier']), False))
        terms += invalid_config_cases(rng, res, stats)
        terms += empty_cases(res, stats)
        terms += exhaustive_small(3 if thorough else 2, res, rec, stats, 1 if not thorough else 2)
        big720 = 0
        for ci, (case, is_corpus) in enumerate(cases):
            n = len(case['alts'])
            singles, constructible = call_singles(case, res)
            budget = perm_budget
            if thorough and n == 6:
                big720 += 1
                if big720 > 12 or case['kind'] != 'String':
                    budget = 60
            if thorough and n == 5 and case['kind'] != 'String':
                budget = 60
            if not thorough and case['kind'] != 'String':
                budget = 12 if n > 3 else 24
            perms = perms_for(rng, n, ctx['tier'], budget)
            stats['cases_%s' % case['kind']] += 1
            stats['alts_%d' % n] += 1
            emitted = 0
            for pi, perm in enumerate(perms):
                shuffles = shuffles_for(rng, case, plain=(pi == 0))
                emit = emitted < (8 if not thorough else 16)
                t = check_top(case, perm, shuffles, singles, constructible, res, rec, emit, stats)
                if t:
                    terms.append(t)
                    emitted += 1
                stats['graders_built'] += 1
            if constructible:
                k = min(3, len(perms))
                check_interleaved(case, [rng.choice(perms) for _ in range(k)],
                                  [shuffles_for(rng, case, plain=False) for _ in range(k)], singles, res, rec, stats)
            # as subgrader
            if constructible:
                for mode in ('list-ordered', 'list-unordered', 'slg-sub'):
                    reps = 1 if not thorough else 3
                    for rep in range(reps):
                        k = rng.randint(2, 3)
                        ps = [rng.choice(perms) for _ in range(k)]
                        shs = [shuffles_for(rng, case, plain=False) for _ in range(k)]
                        check_sub(case, mode, ps, shs, singles, res, rec, stats, True, rng.randrange(8))
    finally:
        rec.uninstall()
    compare_probes(fresh_proc, seed, res, stats)
    stats['check_response_results_that_are_an_earlier_calls_object'] = rec.shared
    rec.recent.clear()
    sub_terms = stats.pop('sub_terms')
    stats.pop('rec', None)
    # de-duplicate identical sub terms (unordered list graders repeat the same check many times)
    seen, uniq = set(), []
    for t in sub_terms:
        if t not in seen:
            seen.add(t)
            uniq.append(t)
    cap = 2500 if not thorough else 30000
    stats['sub_terms_total'] = len(sub_terms)
    stats['sub_terms_distinct'] = len(uniq)
    terms += uniq[:cap]
    res.notes.append('exhaustive small scope: every ordered tuple of 1..%d alternatives over 2 expect values x credits {0, 1/2, 1} x '
                     'messages of length 0/1/2 (%d StringGrader configurations x 3 inputs), judged by construction'
                     % (stats['exhaustive_small_scope_max_alternatives'], stats['exhaustive_small_scope_configs']))
    res.distribution = {k: v for k, v in sorted(stats.items())}
    res.distribution['coq_cases'] = len(terms)
    if terms:
        res.samples.append({'coq_case': terms[len(terms) // 3][:1500]})
    if cases:
        c = cases[0][0]
        res.samples.append({'case': {'kind': c['kind'], 'alternatives': [build_alt(a) for a in c['alts']], 'wrong_msg': c['wrong_msg'],
                                     'inputs': [i['text'] for i in c['inputs']]}})
    # shards of mixed cases, at most ~0.6 MB of terms each (elaboration time and memory of coqc grow with the file)
    random.Random(seed).shuffle(terms)
    total_bytes = sum(len(t) for t in terms) or 1
    shard = max(50, min(-(-len(terms) // 16), int(len(terms) * 0.6e6 / total_bytes) or 1))
    res.distribution['coq_case_bytes'] = total_bytes
    res.distribution['coq_shard_size'] = shard
    header = HEADER + POOL.header()
    if ctx.get('skip_coq'):
        return res
    n, failing, errors = core.eval_agreement('c08', header, 'agree', terms, shard=shard, case_type='case')
    # a case file whose coqc was killed (memory pressure on a shared machine: exit 137, no output) says nothing about
    # agreement: re-evaluate those shards, split and one after the other; a genuine Coq error is kept as an error
    pending = []
    for name, out in errors:
        if 'Error' in out:
            res.corr_errors.append((name, out))
        else:
            pending.append((int(name.rsplit('_', 1)[1]) * shard, terms[int(name.rsplit('_', 1)[1]) * shard:][:shard], out))
    attempt = 0
    while pending and attempt < 4:
        attempt += 1
        time.sleep(3 * attempt)
        nxt = []
        for base, chunk, _ in pending:
            half = max(1, -(-len(chunk) // 2))
            _, f2, e2 = core.eval_agreement('c08r%d_%d' % (attempt, base), header, 'agree', chunk, shard=half, case_type='case')
            failing += [base + i for i in f2]
            for name, out in e2:
                k = int(name.rsplit('_', 1)[1])
                if 'Error' in out:
                    res.corr_errors.append((name, out))
                else:
                    nxt.append((base + k * half, chunk[k * half:][:half], out))
        pending = nxt
    res.distribution['coq_shards_reevaluated_after_kill'] = attempt
    for base, chunk, out in pending:
        res.corr_errors.append(('c08 cases %d..%d' % (base, base + len(chunk)), out))
    res.programs += n
    for i in failing:
        res.disagreements.append({'kind': 'check-trace', 'term': terms[i][:3000]})
    return res


# ------------------------------------------------------------------------------------------------
def replay(w):
    """re-run exactly the witnessed (case, listing order, input) on the current tree with both oracles"""
    import numpy as np
    random.seed(8)
    np.random.seed(8)
    res = core.Result()
    stats = new_stats()
    rec = Recorder()
    stats['rec'] = rec
    case = w.get('case')
    kind = w.get('kind')
    if kind == 'empty':
        rec.install()
        try:
            empty_cases(res, stats)
        finally:
            rec.uninstall()
        return bool(res.witnesses), 'empty-configuration cases: %r' % ([x['what'] for x in res.witnesses],)
    if kind == 'probe':
        r2 = run({'tier': 'quick', 'seed': int(w.get('seed', 0)), 'escalate': False, 'model_built': False, 'skip_coq': True})
        hits = [x for x in r2.witnesses if x.get('kind') == 'probe']
        same = [x for x in hits if x.get('key') == w.get('key')]
        if same or hits:
            x = (same or hits)[0]
            return True, ('%s(answers=%r, wrong_msg=%r, **%r) on input %r: %s' %
                          (KINDS[x['case']['kind']]['cls'], build_answers(x['case'], tuple(x['perm']), {}), x['case']['wrong_msg'],
                           KINDS[x['case']['kind']]['opts'][x['case']['oi']], (x.get('input') or {}).get('text'), x['what']))
        return False, 'every probe agrees with its fresh-interpreter outcome after the perturbing stream (seed %s)' % w.get('seed', 0)
    if kind == 'config':
        invalid_config_cases(random.Random(0), res, stats)
        return bool(res.witnesses), 'invalid-credit cases: %r' % ([x['what'] for x in res.witnesses][:3],)
    if w.get('input') is not None:
        case = dict(case, inputs=[w['input']] + [i for i in case['inputs'] if i != w['input']])
    rec.install()
    try:
        singles, constructible = call_singles(case, res)
        if kind == 'top':
            check_top(case, tuple(w['perm']), w.get('shuffles') or {}, singles, constructible, res, rec, False, stats)
        elif kind == 'interleaved':
            check_interleaved(case, [tuple(p) for p in w['perms']], w['shuffles_list'], singles, res, rec, stats)
        else:
            case1 = dict(case, inputs=w.get('inputs_used') or case['inputs'])
            singles, constructible = call_singles(case1, res)
            check_sub(case1, kind, [tuple(p) for p in w['perms']], w['shuffles_list'], singles, res, rec, stats, False, 0)
    finally:
        rec.uninstall()
    hits = [x for x in res.witnesses if w.get('input') is None or x.get('input') == w.get('input')]
    if hits:
        g = None
        try:
            answers = build_answers(case, tuple(w['perm']), w.get('shuffles') or {})
        except Exception:       # noqa
            answers = None
        where = ''
        if kind != 'top':
            where = (' used as subgrader (%s; alternatives listed in the orders %r; inputs %r)'
                     % (kind, w.get('perms'), [i['text'] for i in (w.get('inputs_used') or [])]))
        return True, ('%s(answers=%r, wrong_msg=%r, **%r)%s on input %r: %s' %
                      (KINDS[case['kind']]['cls'], answers, case['wrong_msg'], KINDS[case['kind']]['opts'][case['oi']], where,
                       (w.get('input') or {}).get('text'), hits[0]['what']))
    return False, 'the witnessed case satisfies the property on the current tree'


LEVEL_TEXT = ('Theorems for an arbitrary check_response oracle, any number of alternatives and expect tuples of any length: the returned '
              'grade is the maximum earned against any single alternative (also as: the maximum over graders configured with one '
              'alternative each); it depends only on the set of single alternatives, hence not on the listing order of alternatives or of '
              'tuple values, stated down to the configuration as the author writes it (canonicalisation commutes with reordering); the '
              'reported result is tied at the maximum and has a longest message among those tied (first listed among equally long ones); '
              'wrong_msg replaces the message exactly when the best grade is zero and every result tied there has an empty message; a '
              'grade is returned iff there is at least one single alternative and none raises, otherwise the first exception in listing '
              'order / ConfigError for no answers. The model is tied to baseclasses.py by trace-level differential correspondence.')
LEVEL_NOTE = ('check_response is abstract (the property is about the selection, not the comparison); which of several equally long best '
              'messages is shown is left open by the property and follows listing order in the code (proved, with an Example); trusted: '
              'Coq kernel, harness/props/c08.py wrappers; no axioms.')
TECHNIQUE = 'Coq proof (lists, Permutation, Q order; induction over the two max() scans) + vm_compute trace correspondence'
DESIGN_REF = 'DESIGN.md section 3, C08'
