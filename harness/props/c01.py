"""C01 -- every grader call returns a well-formed, self-consistent edX result.

Tie (B), differential correspondence.  Random grader trees over every public class (String, Formula, Numerical,
Matrix, SingleList incl. nested, Interval, Sum, List incl. lists of subgraders, nested and grouped, plus an
author-defined table-driven ItemGrader) with generated options (alternatives with partial credit / messages /
pinned ok, comparers with partial credit, attempt-based credit, partial_credit, ordered, wrong_msg, debug) are
called on generated inputs.  A run-time recorder (harness/props/c01_rec.py, no hooks in /repo) turns the call
into the oracle tables of Model/Pipeline.v: what every LEAF comparison produced (raw comparer returns,
accept/reject, caught exception class, opaque result), what Munkres returned, which answer list was chosen --
each keyed by the path of the call.  The Coq model recomposes the final dictionary from those leaves
(best alternative, SingleListGrader consolidation, IntervalGrader brackets, ListGrader grouping/ungrouping and
zeroing, MatrixGrader suppression branches, standardize_cfn_return / consolidate_results, key stripping,
attempt credit, debug append, format_messages) and Coq decides agreement with the dictionary the implementation
returned, messages included (string equality), grades within 1e-9.

Property oracle (independent of model and recorder): the statement itself on the returned value -- key sets,
types, ranges, ok/grade agreement (pinned ok excepted), one entry per input, entries sit at their inputs
(fresh single-input graders, unmatchable-sentinel inputs), no debug-log text / sampled value in any message unless
debug=True -- also under ObjectWithSchema.register_defaults (harness/props/c01_defaults.py: 93 exhaustive scenarios of
registration level x debug=True grader x construction order x kwargs/dict form, registrations cleared in a finally).
"""
import copy
import json
import os
import numbers
import random
import re
from fractions import Fraction

from harness import core
from harness.core import qlit, zlit, boollit, listlit, optlit
from harness.props import c01_gen as G
from harness.props import c01_rec as R
from harness.props import c01_defaults as D
from translate import pipeline as tr_pipeline

ID = 'C01'
PROPS = 'Props/C01.v'
TRANSLATORS = [('Gen/PipelineLits.v', tr_pipeline.generate)]
MIRRORED = [('mitxgraders/baseclasses.py', 'AbstractGrader.__call__'),
            ('mitxgraders/baseclasses.py', 'ObjectWithSchema.apply_registered_defaults'),
            ('mitxgraders/baseclasses.py', 'ObjectWithSchema.register_defaults'),
            ('mitxgraders/baseclasses.py', 'AbstractGrader.apply_attempt_based_credit'),
            ('mitxgraders/baseclasses.py', 'AbstractGrader.grade_decimal_to_ok'),
            ('mitxgraders/baseclasses.py', 'AbstractGrader.format_messages'),
            ('mitxgraders/baseclasses.py', 'AbstractGrader.log_output'),
            ('mitxgraders/baseclasses.py', 'AbstractGrader.ensure_text_inputs'),
            ('mitxgraders/baseclasses.py', 'ItemGrader.check'),
            ('mitxgraders/baseclasses.py', 'ItemGrader.validate_single_answer'),
            ('mitxgraders/baseclasses.py', 'ItemGrader.standardize_cfn_return'),
            ('mitxgraders/listgrader.py', 'find_optimal_order'),
            ('mitxgraders/listgrader.py', 'get_padded_lists'),
            ('mitxgraders/listgrader.py', 'padded_check'),
            ('mitxgraders/listgrader.py', 'consolidate_grades'),
            ('mitxgraders/listgrader.py', 'consolidate_single_return'),
            ('mitxgraders/listgrader.py', 'ListGrader.check'),
            ('mitxgraders/listgrader.py', 'ListGrader.perform_check'),
            ('mitxgraders/listgrader.py', 'ListGrader.get_ordered_input_list'),
            ('mitxgraders/listgrader.py', 'ListGrader.validate_submission'),
            ('mitxgraders/listgrader.py', 'ListGrader.create_grouping_map'),
            ('mitxgraders/listgrader.py', 'ListGrader.groupify_list'),
            ('mitxgraders/listgrader.py', 'ListGrader.ungroupify_list'),
            ('mitxgraders/listgrader.py', 'SingleListGrader.check_response'),
            ('mitxgraders/listgrader.py', 'SingleListGrader.process_grade_list'),
            ('mitxgraders/stringgrader.py', 'StringGrader.check_response'),
            ('mitxgraders/stringgrader.py', 'StringGrader.construct_message'),
            ('mitxgraders/helpers/math_helpers.py', 'MathMixin.consolidate_results'),
            ('mitxgraders/helpers/math_helpers.py', 'MathMixin.compare_evaluations'),
            ('mitxgraders/helpers/math_helpers.py', 'MathMixin.check_math_response'),
            ('mitxgraders/formulagrader/formulagrader.py', 'FormulaGrader.raw_check'),
            ('mitxgraders/formulagrader/matrixgrader.py', 'MatrixGrader.check_response'),
            ('mitxgraders/formulagrader/intervalgrader.py', 'IntervalGrader.check_response'),
            ('mitxgraders/formulagrader/intervalgrader.py', 'IntervalGrader.grade_bracket'),
            ('mitxgraders/formulagrader/integralgrader.py', 'SummationGraderBase.check'),
            ('mitxgraders/formulagrader/integralgrader.py', 'SummationGraderBase.raw_check')]
FINDING_ID = 'zero-credit-answer-keeps-partial-ok'


def _is_ok_recompute(st):
    """`result['ok'] = <...>.grade_decimal_to_ok(result['grade_decimal'])`"""
    import ast
    if not (isinstance(st, ast.Assign) and len(st.targets) == 1):
        return False
    t, v = st.targets[0], st.value
    ok_target = (isinstance(t, ast.Subscript) and isinstance(t.value, ast.Name) and t.value.id == 'result'
                 and isinstance(t.slice, ast.Constant) and t.slice.value == 'ok')
    if not ok_target or not isinstance(v, ast.Call) or len(v.args) != 1:
        return False
    f, a = v.func, v.args[0]
    fname = f.attr if isinstance(f, ast.Attribute) else (f.id if isinstance(f, ast.Name) else None)
    arg_ok = (isinstance(a, ast.Subscript) and isinstance(a.value, ast.Name) and a.value.id == 'result'
              and isinstance(a.slice, ast.Constant) and a.slice.value == 'grade_decimal')
    return fname == 'grade_decimal_to_ok' and arg_ok


def _is_ok_not_true(test):
    """`result['ok'] is not True`  /  `result['ok'] != True`"""
    import ast
    if not (isinstance(test, ast.Compare) and len(test.ops) == 1 and isinstance(test.ops[0], (ast.IsNot, ast.NotEq))):
        return False
    l, r = test.left, test.comparators[0]
    return (isinstance(l, ast.Subscript) and isinstance(l.value, ast.Name) and l.value.id == 'result'
            and isinstance(l.slice, ast.Constant) and l.slice.value == 'ok'
            and isinstance(r, ast.Constant) and r.value is True)


def scaled_results_recompute_ok():
    """Which version of the comparer-result scaling is in the tree under test (read off the source with `ast` on every
    run; the flag becomes the model's o_recompute, so the model follows the repaired /repo):
      code as found -> False:   for result in results: result['grade_decimal'] *= answer['grade_decimal']
      repaired      -> True :   ... followed, in the same loop, by
                                if result['ok'] is not True: result['ok'] = self.grade_decimal_to_ok(result['grade_decimal'])
                                (FormulaGrader.raw_check), or the equivalent re-derivation just before consolidate_results
                                returns a comparer result.
    Everything else about these functions is covered by the correspondence, not by this flag."""
    import ast
    try:
        fg = ast.parse(core.repo_source('mitxgraders/formulagrader/formulagrader.py'))
        mh = ast.parse(core.repo_source('mitxgraders/helpers/math_helpers.py'))
    except (OSError, SyntaxError):
        return False
    fn = core.find_def(fg, 'FormulaGrader.raw_check')
    if fn is not None:
        for node in ast.walk(fn):
            if isinstance(node, ast.For) and isinstance(node.target, ast.Name) and node.target.id == 'result':
                scaled = False
                for st in node.body:
                    if isinstance(st, ast.AugAssign) and isinstance(st.op, ast.Mult):
                        scaled = True
                    elif scaled and isinstance(st, ast.If) and _is_ok_not_true(st.test) and not st.orelse \
                            and any(_is_ok_recompute(x) for x in st.body):
                        return True
    fn = core.find_def(mh, 'MathMixin.consolidate_results')
    if fn is not None:
        for node in ast.walk(fn):
            if isinstance(node, ast.If):
                for i, st in enumerate(node.body):
                    if isinstance(st, ast.Return) and isinstance(st.value, ast.Name) and st.value.id == 'result':
                        if any(_is_ok_recompute(x) for x in node.body[:i]):
                            return True
    return False


RECOMPUTE = scaled_results_recompute_ok()
# the refuted clause stands exactly as long as the code under test is the unrepaired version
REFUTED = [] if RECOMPUTE else ['C01_formula_leaf_refuted', 'C01_call_refuted']

TRUSTED = [
    'correspondence harness harness/props/c01.py + c01_rec.py (run-time wrappers recording leaf comparisons, Munkres output, '
    'chosen answer list; path-keyed) + c01_gen.py (configuration space); floats enter Coq as exact dyadic rationals, '
    'agreement decided in Coq (grades within 1e-9, ok exact outside a 1e-9 band around 0 and 1, messages by string equality)',
    'modelled, not verified: IEEE rounding of grade arithmetic, Python round()/Decimal.quantize in the attempt-credit note '
    '(guard-banded at ties), str.split / str.strip (whitespace table checked against Python over all code points on every run), '
    'the leaf comparisons themselves (oracles: C03/C04/C16/C18 are about those), the Munkres assignment (oracle: C06), '
    'get_best_result (oracle: C05)',
]
ASSUMPTIONS = [
    'leaf hypothesis of the theorems: author-defined check_response / comparers return credits in [0,1] with ok inferred from '
    'the credit; attempt-credit schedules return values in [0,1] (C17 proves it for the built-in ones)',
    'answers satisfy what validate_single_answer establishes: 0 <= grade_decimal <= 1, ok recomputed unless grade_decimal == 1',
    'SumGrader returns the single-input form {ok, grade_decimal, msg} also when it is fed several input boxes (edX then '
    'marks every box alike); the check demands exactly that form from it and reports the count as an observation',
]

HEADER = ('From Coq Require Import ZArith QArith List Bool Uint63.\nFrom Verif.Lib Require Import QRound.\n'
          'From Verif.Model Require Import Result Credit Pipeline PipelineAgree.\nImport ListNotations.\nOpen Scope Q_scope.\n')

KEYS = {'ok', 'grade_decimal', 'msg'}
MARKERS = ['MITx Grading Library Version', 'Running on edX using python', 'Student Response:', 'Student Responses:',
           'Expect value inferred to be', 'Using modified defaults', 'Evaluation Data for Sample Number',
           'Comparison Data for All', 'Summation Data for Sample Number', 'Debug Info', 'Attempt number ',
           'Maximum credit is ']


# ------------------------------------------------------------------------------------------------
# running one call
# ------------------------------------------------------------------------------------------------
class Run(object):
    pass


def run_call(spec, inp, attempt, expect, seed, record=True):
    """build a FRESH grader from the spec and call it once, recording oracle I/O"""
    import numpy as np
    from mitxgraders.helpers import math_helpers
    r = Run()
    r.build_error = None
    st, g = core.guarded(G.build, spec)
    if st != 'ret':
        r.build_error = g
        return r
    r.grader = g
    kw = {} if attempt is None else {'attempt': attempt}
    np.random.seed(seed % (2 ** 31))
    random_state = random.getstate()
    random.seed(seed)
    samples = []
    orig_gss = math_helpers.gen_symbols_samples

    def gss(*a, **k):
        out = orig_gss(*a, **k)
        samples.append(out)
        return out
    math_helpers.gen_symbols_samples = gss
    try:
        if record:
            with R.Recorder(extra_item_classes=(G.table_grader_class(),)) as rec:
                r.status, r.out = core.guarded(g, expect, copy.deepcopy(inp), **kw)
            r.rec = rec
        else:
            r.status, r.out = core.guarded(g, expect, copy.deepcopy(inp), **kw)
            r.rec = None
    finally:
        math_helpers.gen_symbols_samples = orig_gss
        random.setstate(random_state)
    r.samples = samples
    r.debuglog = list(getattr(g, 'debuglog', []) or [])
    r.log = g.log_output() if hasattr(g, 'debuglog') else ''
    return r


def credit_value(g, attempt):
    sched = g.config['attempt_based_credit']
    if not sched:
        return None
    if attempt is None:
        return 0.5
    return float(sched(max(attempt, 1)))


def near_pct_tie(c):
    """the percentage in the note sits on a one-decimal rounding tie, or the credit on a 4-decimal one"""
    if c is None:
        return False
    x = Fraction(c) * 10000
    f = x - (x.numerator // x.denominator)
    if abs(f - Fraction(1, 2)) < Fraction(1, 10 ** 6):
        return True
    y = Fraction(round(c, 4)) * 1000
    f = y - (y.numerator // y.denominator)
    return abs(f - Fraction(1, 2)) < Fraction(1, 10 ** 6)


def case_term(case, run):
    g = run.grader
    credit = credit_value(g, case['attempt'])
    leafs, perms, bests = R.oracle_tables(run.rec)
    obs = 'None' if run.status != 'ret' else '(Some %s)' % R.edx_term(run.out)
    return '(mkCase %s %s %s %s %s %s %s %s %s %s %s %s %s)' % (
        boollit(RECOMPUTE), boollit(g.config['debug']), optlit(credit, qlit), boollit(g.config['attempt_based_credit_msg']),
        R.grader_term(g), R.ans_term(g, g.config['answers']), R.input_term(case['input']),
        optlit(case['attempt'], zlit), R.strlit(run.log), leafs, perms, bests, obs)


# ------------------------------------------------------------------------------------------------
# the property oracle (on the implementation's return value only)
# ------------------------------------------------------------------------------------------------
def pinned_values(spec):
    """explicit 'ok' values the author wrote anywhere in the configuration"""
    out = set()

    def walk(v):
        if isinstance(v, dict):
            if 'expect' in v and 'ok' in v and v['ok'] != 'computed':
                out.add(v['ok'])
            for x in v.values():
                walk(x)
        elif isinstance(v, (list, tuple)):
            for x in v:
                walk(x)
    walk(spec)
    return out


def expected_ok(grade):
    return {0: False, 1: True}.get(grade, 'partial')


def check_entry(e, pinned, where):
    """the per-entry clause of the property; returns list of (kind, what)"""
    import numpy as np
    bad = []
    if not isinstance(e, dict):
        return [('shape', '%s is %r, not a dictionary' % (where, type(e).__name__))]
    if set(e.keys()) != KEYS:
        bad.append(('keys', '%s has keys %r' % (where, sorted(map(str, e.keys())))))
    if not KEYS.issubset(e.keys()):
        return bad
    gd, ok, msg = e['grade_decimal'], e['ok'], e['msg']
    if isinstance(gd, (bool, np.bool_)) or not isinstance(gd, (numbers.Real, np.floating, np.integer)):
        bad.append(('grade-type', '%s grade_decimal is %r' % (where, gd)))
        return bad
    if not (0 <= gd <= 1):
        bad.append(('grade-range', '%s grade_decimal %r outside [0,1]' % (where, gd)))
    if not isinstance(msg, str):
        bad.append(('msg-type', '%s msg is %r' % (where, type(msg).__name__)))
    ok_valid = (isinstance(ok, (bool, np.bool_))) or (isinstance(ok, str) and ok == 'partial')
    if not ok_valid:
        bad.append(('ok-value', '%s ok is %r' % (where, ok)))
    elif 0 <= gd <= 1:
        want = expected_ok(gd)
        same = (ok == want) and (isinstance(ok, str) == isinstance(want, str))
        if not same and not any((ok == p) and (isinstance(ok, str) == isinstance(p, str)) for p in pinned):
            bad.append(('ok-grade', '%s ok=%r with grade_decimal=%r (expected ok=%r)' % (where, ok, gd, want)))
    return bad


def messages_of(out):
    if isinstance(out, dict) and 'input_list' in out:
        ms = [out.get('overall_message', '')]
        ms += [e.get('msg', '') for e in out['input_list'] if isinstance(e, dict)]
        return [m for m in ms if isinstance(m, str)]
    if isinstance(out, dict):
        return [out['msg']] if isinstance(out.get('msg'), str) else []
    return []


def float_reprs(samples):
    import numpy as np
    out = set()

    def walk(v):
        if isinstance(v, (float, np.floating)):
            s = repr(float(v))
            if len(s) >= 9:
                out.add(s)
        elif isinstance(v, complex):
            walk(v.real), walk(v.imag)
        elif isinstance(v, np.ndarray):
            for x in v.flat:
                walk(x.item() if hasattr(x, 'item') else x)
        elif isinstance(v, dict):
            for x in v.values():
                walk(x)
        elif isinstance(v, (list, tuple)):
            for x in v:
                walk(x)
    walk(samples)
    return out


def oracle(case, run, twin_log=None):
    """all clauses of C01 on one returned value; returns witnesses (without the identifying fields)"""
    out = run.out
    spec = case['spec']
    inp = case['input']
    pinned = pinned_values(spec)
    bad = []
    cls = spec['cls']
    multi = isinstance(inp, list) and cls != 'SumGrader'
    if not isinstance(out, dict):
        return [('shape', 'returned %r, not a dictionary' % type(out).__name__)]
    if multi:
        if set(out.keys()) != {'overall_message', 'input_list'}:
            bad.append(('keys', 'list result has keys %r' % sorted(map(str, out.keys()))))
        if not isinstance(out.get('overall_message'), str):
            bad.append(('msg-type', 'overall_message is %r' % type(out.get('overall_message')).__name__))
        il = out.get('input_list')
        if not isinstance(il, list):
            bad.append(('shape', 'input_list is %r' % type(il).__name__))
        else:
            if len(il) != len(inp):
                bad.append(('count', '%d entries for %d inputs' % (len(il), len(inp))))
            for i, e in enumerate(il):
                bad += check_entry(e, pinned, 'input_list[%d]' % i)
    else:
        bad += check_entry(out, pinned, 'result')
    # debugging output only with debug=True
    if not spec['opts'].get('debug', False):
        msgs = messages_of(out)
        texts = []
        for m in msgs:
            texts.append(m)
            texts.append(m.replace('<br/>\n', '\n'))
        needles = [m for m in MARKERS]
        for entry in list(run.debuglog) + list(twin_log or []):
            if isinstance(entry, str) and len(entry) >= 12:
                needles.append(entry)
                needles.append(entry.replace('\n', '<br/>\n'))
        needles += sorted(float_reprs(run.samples))
        for nd in needles:
            if any(nd in t for t in texts):
                bad.append(('debug-leak', 'debug=False but a message contains %r' % nd[:80]))
                break
    return bad


def position_oracle(case, run):
    """entries sit at their inputs: for a flat ListGrader (one level, no grouping, no zeroing, no attempt credit) entry k
    must be what a fresh single-input grader built from the k-th subgrader gives on input k against the k-th answer
    (ordered) or against SOME answer of the list (unordered)"""
    spec, inp, out = case['spec'], case['input'], run.out
    o = spec['opts']
    if spec['cls'] != 'ListGrader' or o.get('grouping') or o.get('partial_credit') is False \
            or 'attempt_based_credit' in o or not isinstance(out, dict) or not isinstance(out.get('input_list'), list):
        return []
    answers = o['answers']
    lists = answers['t'] if isinstance(answers, dict) and set(answers) == {'t'} else [answers]
    subs = o['subgraders']
    il = out['input_list']
    if len(il) != len(inp):
        return []
    bad = []
    for k, x in enumerate(inp):
        cands = []
        for al in lists:
            if len(al) != len(inp):
                return []
            js = [k] if o.get('ordered') else range(len(al))
            for j in js:
                sub = subs[j] if isinstance(subs, list) else subs
                sspec = G.with_root(sub['g'], answers=al[j])
                if sspec['cls'] in ('FormulaGrader', 'MatrixGrader', 'NumericalGrader') or 'FormulaGrader' in json.dumps(sspec):
                    return []       # sampling makes fresh calls incomparable entry by entry
                st, fresh = core.guarded(lambda: G.build(sspec)(None, x))
                if st != 'ret':
                    return []
                cands.append(fresh)
        e = il[k]
        if isinstance(e, dict) and not any(all(e.get(f) == c.get(f) for f in KEYS) for c in cands):
            bad.append(('position', 'input_list[%d] = %r is not what any admissible answer gives on input %r: %r'
                        % (k, e, x, cands[:4])))
    return bad


def sentinel_oracle(case, run):
    """entries sit at their inputs, through grouping and nesting as well: when exactly one input is a text that no
    answer of any (string-comparing) subgrader can match, the entry AT THAT POSITION must carry grade 0"""
    spec, inp, out = case['spec'], case['input'], run.out
    if spec['cls'] != 'ListGrader' or not isinstance(inp, list) or inp.count(G.Gen.SENTINEL) != 1:
        return []
    text = json.dumps(spec)
    if any(t in text for t in ('TableGrader', 'accept_any', 'accept_nonempty')):
        return []           # graders that may give credit to an arbitrary text
    if not isinstance(out, dict) or not isinstance(out.get('input_list'), list) or len(out['input_list']) != len(inp):
        return []
    k = inp.index(G.Gen.SENTINEL)
    e = out['input_list'][k]
    if isinstance(e, dict) and e.get('grade_decimal') not in (0, None):
        return [('position', 'input %d is unmatchable (%r) but input_list[%d] = %r' % (k, inp[k], k, e))]
    return []


def tag_oracle(case, run):
    """entries sit at their inputs, through any grouping and nesting: when the string-comparing subgraders attach to
    every answer a message that names the answer text (`matched <text>`), an entry carrying such a message must sit at
    a box whose input IS that text"""
    spec, inp, out = case['spec'], case['input'], run.out
    if spec['cls'] != 'ListGrader' or not isinstance(inp, list):
        return []
    text = json.dumps(spec)
    if G.TAG not in text or any(t in text for t in ('TableGrader', 'accept_any', 'accept_nonempty', 'case_sensitive', 'strip_all')):
        return []
    if not isinstance(out, dict) or not isinstance(out.get('input_list'), list) or len(out['input_list']) != len(inp):
        return []
    tags = set()

    def walk(v):
        if isinstance(v, dict):
            if isinstance(v.get('expect'), str) and v.get('msg') == G.TAG + v['expect']:
                tags.add(v['expect'])
            for x in v.values():
                walk(x)
        elif isinstance(v, list):
            for x in v:
                walk(x)
    walk(spec)
    bad = []
    for k, e in enumerate(out['input_list']):
        if isinstance(e, dict) and isinstance(e.get('msg'), str) and e['msg'].startswith(G.TAG) and e['msg'][len(G.TAG):] in tags:
            if ' '.join(inp[k].split()) != e['msg'][len(G.TAG):]:
                bad.append(('position', 'input_list[%d] = %r reports the answer %r but input %d is %r (inputs %r)'
                            % (k, e, e['msg'][len(G.TAG):], k, inp[k], inp)))
    return bad


def tagged_cases(rng, tier):
    """every valid grouping shape (groups numbered in any layout order), per-box distinguishable answers / messages"""
    cases = []
    gen = G.Gen(rng)
    for layout in G.grouping_layouts(rng, tier):
        spec, correct = G.tagged_group_spec(rng, layout)
        variants = [list(correct)]
        one = list(correct)
        one[rng.randrange(len(one))] = rng.choice([G.Gen.SENTINEL, 'zzz', ''])
        variants.append(one)
        sh = list(correct)
        rng.shuffle(sh)
        variants.append(sh)
        for inp in variants:
            extra, attempt = gen.root_options() if rng.random() < 0.3 else ({}, None)
            cases.append({'kind': 'grouped-tag', 'spec': G.with_root(spec, **extra), 'input': inp, 'attempt': attempt, 'expect': None})
    return cases


def grid_cases():
    """exhaustive small scopes, run on every tier and seed"""
    cases = []
    # A. StringGrader: answer credit x explicit ok x attempt credit x (match / no match)
    for c in (0, 0.25, 0.5, 1):
        for ok in (None, True, False, 'partial', 'computed'):
            for sched in (None, 0, 0.5, 1, 0.0001, 0.001):
                for x in ('a', 'z'):
                    ans = {'expect': 'a', 'grade_decimal': c, 'msg': 'm'}
                    if ok is not None:
                        ans['ok'] = ok
                    opts = {'answers': ans, 'wrong_msg': 'w'}
                    if sched is not None:
                        opts['attempt_based_credit'] = {'credit': ['const', [sched]]}
                    cases.append({'kind': 'grid-string', 'spec': {'cls': 'StringGrader', 'opts': opts}, 'input': x,
                                  'attempt': 2 if sched is not None else None, 'expect': None})
    # A'. the same inside a ListGrader (entries of partial and full credit under very small maximum credits)
    for sched in (0.0001, 0.0002, 0.001, 0.5):
        for ordered in (True, False):
            opts = {'answers': [{'expect': 'a', 'grade_decimal': 0.25}, {'expect': 'b', 'grade_decimal': 0.5}, 'c'],
                    'subgraders': {'g': {'cls': 'StringGrader', 'opts': {}}}, 'ordered': ordered,
                    'attempt_based_credit': {'credit': ['const', [sched]]}}
            for inp in (['a', 'b', 'c'], ['b', 'a', 'z']):
                cases.append({'kind': 'grid-string', 'spec': {'cls': 'ListGrader', 'opts': opts}, 'input': inp,
                              'attempt': 4, 'expect': None})
    # B. FormulaGrader / NumericalGrader: comparer verdict (incl. dictionaries with a message on success) x answer credit
    #    x number of comparer results (samples) x failable_evals x attempt credit
    for vi in range(len(G.VERDICTS)):
        for c in (0, 0.5, 1):
            for samples, failable in ((1, 0), (2, 0), (2, 1)):
                for sched in (None, 0.5):
                    opts = {'answers': {'expect': {'comparer': {'fn': 'cmp_const_%d' % vi}, 'comparer_params': ['1']},
                                        'grade_decimal': c, 'msg': 'am'}, 'samples': samples, 'failable_evals': failable}
                    if sched is not None:
                        opts['attempt_based_credit'] = {'credit': ['const', [sched]]}
                    cases.append({'kind': 'grid-formula', 'spec': {'cls': 'FormulaGrader', 'opts': opts}, 'input': '1',
                                  'attempt': 3 if sched is not None else None, 'expect': None})
            nopts = {'answers': {'t': [{'expect': {'comparer': {'fn': 'cmp_const_%d' % vi}, 'comparer_params': ['1']},
                                        'grade_decimal': c}, {'expect': '7', 'msg': 'seven'}]}}
            cases.append({'kind': 'grid-formula', 'spec': {'cls': 'NumericalGrader', 'opts': nopts}, 'input': '1',
                          'attempt': None, 'expect': None})
            # C. the same leaf as a ListGrader subgrader (ordered list of subgraders, and unordered single subgrader)
            ans = {'expect': {'comparer': {'fn': 'cmp_const_%d' % vi}, 'comparer_params': ['1']}, 'grade_decimal': c, 'msg': 'am'}
            cases.append({'kind': 'grid-formula', 'attempt': None, 'expect': None, 'input': ['a', '1'],
                          'spec': {'cls': 'ListGrader', 'opts': {'answers': ['a', ans], 'ordered': True,
                                   'subgraders': [{'g': {'cls': 'StringGrader', 'opts': {}}}, {'g': {'cls': 'NumericalGrader', 'opts': {}}}]}}})
            cases.append({'kind': 'grid-formula', 'attempt': None, 'expect': None, 'input': ['1', '2'],
                          'spec': {'cls': 'ListGrader', 'opts': {'answers': [ans, '2'],
                                   'subgraders': {'g': {'cls': 'NumericalGrader', 'opts': {}}}}}})
    return cases


# ------------------------------------------------------------------------------------------------
# case generation
# ------------------------------------------------------------------------------------------------
CORPUS = [
    # the defect found while building this check (DESIGN section 5 / known finding): kept so that it is found on every run
    {'spec': {'cls': 'MatrixGrader', 'opts': {'answers': {'expect': '[5,6]', 'grade_decimal': 0}, 'entry_partial_credit': 0.5}},
     'input': '[5,7]', 'attempt': None, 'expect': None},
    {'spec': {'cls': 'FormulaGrader', 'opts': {'answers': {'expect': {'comparer': {'fn': 'cmp_partial'}, 'comparer_params': ['x']},
                                                             'grade_decimal': 0}, 'variables': ['x']}},
     'input': '2*x', 'attempt': None, 'expect': None},
    {'spec': {'cls': 'ListGrader', 'opts': {'answers': ['a', {'expect': '[1,2]', 'grade_decimal': 0, 'msg': 'm'}], 'ordered': True,
                                            'subgraders': [{'g': {'cls': 'StringGrader', 'opts': {}}},
                                                           {'g': {'cls': 'MatrixGrader', 'opts': {'entry_partial_credit': 'proportional'}}}]}},
     'input': ['a', '[1,3]'], 'attempt': None, 'expect': None},
    # ordinary regression cases
    {'spec': {'cls': 'StringGrader', 'opts': {'answers': {'expect': 'a', 'ok': 'partial'}}}, 'input': 'a', 'attempt': None, 'expect': None},
    {'spec': {'cls': 'StringGrader', 'opts': {'answers': {'expect': 'a', 'ok': False}, 'attempt_based_credit': {'credit': ['const', [0.5]]}}},
     'input': 'a', 'attempt': 3, 'expect': None},
    {'spec': {'cls': 'SingleListGrader', 'opts': {'answers': ['a', 'b'], 'subgrader': {'g': {'cls': 'StringGrader', 'opts': {}}}, 'debug': True}},
     'input': 'b,a,c', 'attempt': None, 'expect': None},
    {'spec': {'cls': 'StringGrader', 'opts': {}}, 'input': 'cat', 'attempt': None, 'expect': 'cat'},
    {'spec': {'cls': 'IntervalGrader', 'opts': {}}, 'input': '[1, 2)', 'attempt': None, 'expect': '[1,2)'},
]


def gen_cases(rng, counts, rounded_share=0.12):
    cases = []

    def add(kind, spec, inp, expect=None):
        extra, attempt = gen.root_options()
        cases.append({'kind': kind, 'spec': G.with_root(spec, **extra), 'input': inp, 'attempt': attempt, 'expect': expect})

    for kind, n in counts:
        i = 0
        while i < n:
            gen = G.Gen(rng, rounded=(rng.random() < rounded_share))
            k = rng.randint(2, 5)        # several inputs per configuration
            if kind in ('string', 'table', 'numerical', 'matrix', 'formula'):
                if kind in ('formula', 'numerical', 'matrix'):
                    spec, pool, _ = getattr(gen, kind + '_spec')()
                else:
                    spec, pool = getattr(gen, kind + '_spec')()
                if rng.random() < 0.08 and kind in ('string', 'numerical', 'formula'):
                    spec = {'cls': spec['cls'], 'opts': {a: b for a, b in spec['opts'].items() if a != 'answers'}}
                    for _ in range(k):
                        add(kind, spec, gen.leaf_inputs(pool), expect=rng.choice(pool))
                else:
                    for _ in range(k):
                        add(kind, spec, gen.leaf_inputs(pool))
            elif kind == 'slist':
                spec, text = gen.slist_spec()
                for _ in range(k):
                    add(kind, spec, gen.slist_input(text, spec['opts']['delimiter']))
            elif kind == 'interval':
                spec, inputs = gen.interval_spec()
                for _ in range(k):
                    add(kind, spec, rng.choice(inputs) if rng.random() < 0.9 else rng.choice(G.GARBAGE))
            elif kind == 'list':
                spec, texts = gen.list_spec()
                for _ in range(k):
                    add(kind, spec, gen.list_inputs(texts))
            elif kind == 'sum':
                spec, good, keys = gen.sum_spec()
                for _ in range(k):
                    add(kind, spec, gen.sum_inputs(good, keys))
            i += k
    return cases


QUICK = [('string', 130), ('table', 70), ('formula', 130), ('numerical', 50), ('matrix', 140), ('slist', 280),
         ('interval', 130), ('list', 380), ('sum', 40)]
THOROUGH = [('string', 1500), ('table', 800), ('formula', 1200), ('numerical', 500), ('matrix', 1200), ('slist', 3000),
            ('interval', 1200), ('list', 4000), ('sum', 300)]


def whitespace_table_ok():
    """Model.Pipeline.is_space against Python's str.strip over every code point"""
    def is_space(c):
        return (9 <= c <= 13) or (28 <= c <= 32) or c in (133, 160, 5760, 8232, 8233, 8239, 8287, 12288) or (8192 <= c <= 8202)
    bad = [c for c in range(0x110000) if (chr(c).strip() == '') != is_space(c)]
    return bad


def witness(case, seed, kind, what, run=None):
    w = {'key': '%s|%s|%r|%r|%r' % (kind, json.dumps(case['spec'], sort_keys=True, default=repr), case['input'], case['attempt'], case['expect']),
         'kind': kind, 'what': what, 'spec': case['spec'], 'input': case['input'], 'attempt': case['attempt'],
         'expect': case['expect'], 'call_seed': seed}
    if run is not None and kind == 'ok-grade':
        w['zero_credit_partial_leaf'] = zero_credit_partial_leaf(run)
        w['observed'] = repr(run.out)[:400]
    return w


def zero_credit_partial_leaf(run):
    """call-site characterisation of the known defect: a formula-type check_response returned a comparer's partial-credit
    result (ok='partial') after FormulaGrader.raw_check scaled its grade by an answer worth grade_decimal == 0"""
    from mitxgraders import FormulaGrader
    if run.rec is None:
        return False
    for path, fr in run.rec.frames.items():
        if fr.kind == 'response' and isinstance(fr.grader, FormulaGrader) and fr.status == 'ret' and isinstance(fr.value, dict):
            v = fr.value
            if v.get('ok') == 'partial' and v.get('grade_decimal') == 0 and fr.answer is not None \
                    and fr.answer.get('grade_decimal') == 0:
                return True
    return False


def evaluate_case(case, seed, res, stats):
    """run one case: oracle (+twin for the debug clause) and the correspondence term.  Returns the term or None."""
    run = run_call(case['spec'], case['input'], case['attempt'], case['expect'], seed)
    if run.build_error is not None:
        stats['invalid_config'] += 1
        stats.setdefault('invalid_examples', [])
        if len(stats['invalid_examples']) < 3:
            stats['invalid_examples'].append(repr(run.build_error)[:160])
        return None
    stats['calls'] += 1
    stats['by_kind'][case['kind']] = stats['by_kind'].get(case['kind'], 0) + 1
    if run.status == 'timeout':
        stats['timeouts'] += 1
        return None
    if run.status == 'ret':
        stats['returned'] += 1
        twin_log = None
        if not case['spec']['opts'].get('debug', False) and stats['calls'] % 3 == 0:
            twin = run_call(G.with_root(case['spec'], debug=True), case['input'], case['attempt'], case['expect'], seed, record=False)
            if twin.build_error is None:
                twin_log = twin.debuglog
                stats['twins'] += 1
        found = oracle(case, run, twin_log) + position_oracle(case, run) + sentinel_oracle(case, run) + tag_oracle(case, run)
        res.oracle_evals += 1
        if isinstance(case['input'], list) and case['spec']['cls'] == 'SumGrader':
            stats['sum_multi_box_short_form'] += 1
        for kind, what in found:
            res.witnesses.append(witness(case, seed, kind, what, run))
        out = run.out
        if isinstance(out, dict):
            ents = out['input_list'] if 'input_list' in out else [out]
            sig = tuple((repr(e.get('ok')), e.get('grade_decimal')) for e in ents if isinstance(e, dict))
            if any(0 < (e.get('grade_decimal') or 0) for e in ents if isinstance(e, dict)) or any(messages_of(out)):
                res.nontrivial.add((case['kind'], json.dumps(case['spec'], sort_keys=True, default=repr), repr(case['input']), case['attempt']))
            stats['ok_hist'][repr(sig[:1])] = stats['ok_hist'].get(repr(sig[:1]), 0) + 1
    else:
        stats['raised'] += 1
        name = type(run.out).__name__
        stats['raise_kinds'][name] = stats['raise_kinds'].get(name, 0) + 1
    # correspondence term
    if near_pct_tie(credit_value(run.grader, case['attempt'])):
        res.boundary += 1
        return None
    try:
        t = case_term(case, run)
        if len(stats['samples']) < 6 and run.status == 'ret' and case['kind'] not in ('corpus', 'grid-string', 'grid-formula', 'grouped-tag') \
                and stats['calls'] % 97 == 5:
            leafs, perms, bests = R.oracle_tables(run.rec)
            stats['samples'].append({'grader': case['spec'], 'input': case['input'], 'attempt': case['attempt'],
                                     'implementation_returned': repr(run.out)[:600],
                                     'recorded_leaf_oracle_rows': leafs[:500], 'recorded_assignments': perms[:300]})
        return t
    except (R.Unmodelled, ValueError) as e:
        stats['unmodelled'] += 1
        stats.setdefault('unmodelled_examples', [])
        if len(stats['unmodelled_examples']) < 3:
            stats['unmodelled_examples'].append(str(e)[:160])
        return None


def _defaults_check_call(g, spec_like, x):
    """one call inside the registered-defaults stream: None if it raised, else the C01 oracle's findings"""
    import numpy as np
    np.random.seed(12345)
    st, out = core.guarded(g, None, copy.deepcopy(x))
    if st != 'ret':
        return None
    r = Run()
    r.out, r.samples, r.rec = out, [], None
    r.debuglog = list(getattr(g, 'debuglog', []) or [])
    return oracle({'spec': spec_like, 'input': x}, r)


def defaults_witness(sc, kind, what, name, form):
    return {'key': 'registered-defaults|%s|%s|%s|%s' % ('/'.join(sc), kind, name, form), 'kind': kind, 'what': what,
            'scenario': list(sc), 'class': name, 'form': form,
            'how': 'register_defaults(%r) on %s; build %s(debug=True); order=%s; then build/call the graders of the family '
                   'without a debug key' % (D.harmless_default(sc[1]), sc[1], sc[2], sc[3])}


def defaults_stream(res, stats):
    """the debug clause under ObjectWithSchema.register_defaults (harness/props/c01_defaults.py), exhaustive scenarios"""
    tot = {'scenarios': 0, 'built': 0, 'rejected': 0, 'calls': 0, 'returned': 0}
    for sc in D.scenarios():
        found, n = D.run_scenario(sc, _defaults_check_call)
        tot['scenarios'] += 1
        for k in n:
            tot[k] += n[k]
        res.oracle_evals += n['returned']
        for kind, what, name, form in found:
            res.witnesses.append(defaults_witness(sc, kind, what, name, form))
        if n['returned']:
            res.nontrivial.add(('registered-defaults',) + tuple(sc))
    stats['registered_defaults_stream'] = tot


def run(ctx):
    res = core.Result()
    rng = random.Random(7919 * ctx['seed'] + 101)
    res.rule = ('one case = (configuration, input, attempt); non-trivial when the call returned some positive grade or some '
                'message; distinct by (class, configuration, input, attempt)')
    stats = {'calls': 0, 'returned': 0, 'raised': 0, 'timeouts': 0, 'invalid_config': 0, 'unmodelled': 0, 'twins': 0,
             'sum_multi_box_short_form': 0, 'by_kind': {}, 'raise_kinds': {}, 'ok_hist': {}, 'samples': []}
    bad_ws = whitespace_table_ok()
    if bad_ws:
        res.disagreements.append({'kind': 'whitespace-table', 'code_points': bad_ws[:10]})
    if ctx['tier'] == 'thorough':
        counts = THOROUGH
    elif ctx['escalate']:          # a mirrored function changed / an obligation broke: three times the quick volume
        counts = [(k, 3 * n) for k, n in QUICK]
    else:
        counts = QUICK
    res.distribution_extra = {'scaled_comparer_results_recompute_ok': RECOMPUTE}
    cases = [dict(c, kind='corpus') for c in CORPUS] + grid_cases() + tagged_cases(rng, ctx['tier']) + gen_cases(rng, counts)
    defaults_stream(res, stats)
    terms, metas = [], []
    for i, case in enumerate(cases):
        seed = (ctx['seed'] * 1000003 + i * 7 + 1) % (2 ** 31)
        t = evaluate_case(case, seed, res, stats)
        if t is not None:
            terms.append(t)
            metas.append((case, seed))
    res.distribution = {k: v for k, v in stats.items() if k != 'samples'}
    res.distribution.update(res.distribution_extra)
    res.distribution['ok_hist'] = dict(sorted(stats['ok_hist'].items(), key=lambda kv: -kv[1])[:12])
    if stats['sum_multi_box_short_form']:
        res.notes.append('observation (not raised): SumGrader returned the single-input form for %d multi-box submissions'
                         % stats['sum_multi_box_short_form'])
    res.samples += stats['samples']
    for case, seed in metas[len(metas) // 2: len(metas) // 2 + 2]:
        res.samples.append({'grader': case['spec'], 'input': case['input'], 'attempt': case['attempt']})
    # balance the shards by term size (debug logs make some cases a hundred times larger than others)
    order = sorted(range(len(terms)), key=lambda i: -len(terms[i]))
    order = [i for k in range(core.NPROC) for i in order[k::core.NPROC]]
    n, failing, errors = core.eval_agreement('c01' + os.environ.get('VERIF_C01_TAG', ''), HEADER, 'pipe_agree', [terms[i] for i in order],
                                             shard=max(20, (len(terms) + core.NPROC - 1) // core.NPROC), case_type='pcase')
    res.programs += n
    res.corr_errors += errors
    for j in failing:
        case, seed = metas[order[j]]
        res.disagreements.append({'kind': 'pipeline', 'spec': case['spec'], 'input': case['input'], 'attempt': case['attempt'],
                                  'expect': case['expect'], 'call_seed': seed})
    return res


def replay(w):
    if 'scenario' in w:
        found, n = D.run_scenario(tuple(w['scenario']), _defaults_check_call)
        hit = [f for f in found if f[0] == w['kind']]
        return bool(hit), 'registered-defaults scenario %r: built %d, rejected %d, returned calls %d; oracle: %r' % (
            w['scenario'], n['built'], n['rejected'], n['returned'], [h[1] for h in hit[:2]])
    case = {'spec': w['spec'], 'input': w['input'], 'attempt': w['attempt'], 'expect': w.get('expect'), 'kind': 'replay'}
    run = run_call(case['spec'], case['input'], case['attempt'], case['expect'], w.get('call_seed', 1))
    if run.build_error is not None:
        return False, 'configuration rejected: %r' % (run.build_error,)
    if run.status != 'ret':
        return False, 'the call raised %r' % (run.out,)
    twin = run_call(G.with_root(case['spec'], debug=True), case['input'], case['attempt'], case['expect'], w.get('call_seed', 1), record=False)
    found = (oracle(case, run, twin.debuglog if twin.build_error is None else None) + position_oracle(case, run)
             + sentinel_oracle(case, run) + tag_oracle(case, run))
    hit = [f for f in found if f[0] == w['kind']]
    return bool(hit), 'grader %s, input %r, attempt %r -> %r ; oracle: %r' % (
        json.dumps(case['spec'], default=repr)[:300], case['input'], case['attempt'], run.out, hit[:2])


def classify_known(w, known):
    """exactly the defect: ok='partial' at grade 0 produced by a zero-credit answer under a partial-credit comparer"""
    if w.get('kind') != 'ok-grade' or not w.get('zero_credit_partial_leaf'):
        return None
    if "ok='partial' with grade_decimal=0" not in w.get('what', '').replace('0.0', '0'):
        return None
    for e in known:
        if e.get('id') == FINDING_ID:
            return FINDING_ID
    return None


LEVEL_TEXT = ('Theorems over ALL grader trees (item, SingleList incl. nested, Interval, List incl. nested/grouped, Sum), all '
              'answer structures, inputs, attempts, debug logs and ALL leaf/assignment/best-list oracles: a returning call yields the '
              'single form for item graders and overall_message + exactly one entry per input for list graders (entry i of an ordered '
              'list is the i-th subgrader\'s verdict on input i); every grade is in [0,1]; ok is grade_decimal_to_ok(grade) unless it '
              'is an author pin at full credit; attempt credit rescales and recomputes ok; with debug off the result is independent of '
              'the debug log and debug on changes only the top message. Result literals and grade_decimal_to_ok are regenerated from '
              '/repo on every run (tie A). One leaf clause is REFUTED for the code as found (a partial-credit comparer result scaled '
              "by a zero-credit answer keeps ok='partial' at grade 0): the general theorem carries the matching side condition and the "
              'full statement is proved for the repaired scaling loop (the harness reads off the source which version is in force).')
LEVEL_NOTE = ('Hand-written model tied by differential correspondence on recorded leaf outputs (messages by string equality, grades '
              'within 1e-9, float rounding guard-banded) plus a fail-closed translator for the constant result literals; leaf '
              'comparisons, Munkres and the choice among answer lists are oracles (universally quantified in the theorems, proved '
              'correct in C03/C04/C16/C18, C06, C05). Closed under the global context (coqchk: no axioms).')
TECHNIQUE = 'Coq proof (induction on the recursion budget and on lists, Q arithmetic with lra/nra) + source-to-Gallina translator for result literals + vm_compute correspondence on recorded call trees + property oracle'
DESIGN_REF = 'DESIGN.md section 3, C01'
