"""c20_registered.py -- registered defaults under HISTORIES (anchor: ObjectWithSchema.register_defaults /
clear_registered_defaults / apply_registered_defaults).

A history is a sequence of steps on the public classes:
    ('reg', class, dict-id)        register the caller's dictionary object dict-id on the class
    ('set', dict-id, key, value)   the caller edits its own dictionary afterwards
    ('clear', class)               clear_registered_defaults on the class
The same dictionary OBJECT may be registered on several classes (siblings, parent and child).

Property demanded after every step, for every probe (class, options):
  * the class constructs exactly like a class that received ITS OWN registrations only: with the reference list of
    (class, snapshot of the dictionary at registration time) the expected object is the one built -- with every
    registration switched off -- from  {registrations of the class chain, most basic class first} updated with the
    explicit options; same success/refusal, same error class, equal configuration; keyword and dictionary forms agree;
  * the caller's dictionaries contain exactly what the caller put into them.
Every registration is cleared in a finally block."""
import random

from harness import core

ABSTRACT = {'debug': [True, False], 'suppress_warnings': [True, False], 'attempt_based_credit_msg': [False, True]}
ITEM = dict(ABSTRACT, wrong_msg=['try again', ''])
VALID = {
    'AbstractGrader': ABSTRACT,
    'ItemGrader': ITEM,
    'StringGrader': dict(ITEM, case_sensitive=[False, True], strip=[False, True], min_length=[2, 0], accept_any=[True, False]),
    'FormulaGrader': dict(ITEM, metric_suffixes=[True, False], forbidden_message=['no', 'forbidden'], blacklist=[['sin'], []]),
    'NumericalGrader': dict(ITEM, metric_suffixes=[True, False], forbidden_message=['no', 'forbidden'], tolerance=['1%', 0.5]),
    'MatrixGrader': dict(ITEM, metric_suffixes=[True, False], negative_powers=[False, True], shape_errors=[False, True]),
    'IntegralGrader': dict(ABSTRACT, metric_suffixes=[True, False], complex_integrand=[True, False]),
}
# keys that may be registered on a class = valid for it AND for every probed subclass
SUBCLASSES = {'AbstractGrader': ['ItemGrader', 'StringGrader', 'FormulaGrader', 'NumericalGrader', 'MatrixGrader', 'IntegralGrader'],
              'ItemGrader': ['StringGrader', 'FormulaGrader', 'NumericalGrader', 'MatrixGrader'],
              'FormulaGrader': ['NumericalGrader', 'MatrixGrader']}


def registrable(cname):
    keys = dict(VALID[cname])
    for sub in SUBCLASSES.get(cname, []):
        keys = {k: v for k, v in keys.items() if k in VALID[sub]}
    return keys


def probes():
    ia = {'lower': '0', 'upper': '1', 'integrand': 'x', 'integration_variable': 'x'}
    return [('StringGrader', {}), ('StringGrader', {'case_sensitive': True, 'debug': False}),
            ('FormulaGrader', {'answers': 'x+1', 'variables': ['x']}), ('NumericalGrader', {}),
            ('MatrixGrader', {'answers': '[1,2]'}), ('IntegralGrader', {'answers': ia}),
            ('LinearCredit', {}), ('RealInterval', {})]


def classes():
    import mitxgraders as M
    from mitxgraders.baseclasses import AbstractGrader, ItemGrader
    d = {n: getattr(M, n) for n in ('StringGrader', 'FormulaGrader', 'NumericalGrader', 'MatrixGrader', 'IntegralGrader',
                                    'LinearCredit', 'RealInterval')}
    d.update(AbstractGrader=AbstractGrader, ItemGrader=ItemGrader)
    return d


def all_schema_classes():
    from mitxgraders.baseclasses import ObjectWithSchema
    out, todo = [], [ObjectWithSchema]
    while todo:
        c = todo.pop()
        if c in out:
            continue
        out.append(c)
        todo += c.__subclasses__()
    return out


def clear_everything():
    for c in all_schema_classes():
        c.default_values = None


# ------------------------------------------------------------------------------------------------
# histories
# ------------------------------------------------------------------------------------------------
FIXED = {
    # the same dictionary on two sibling classes, then a further registration on one of them
    'siblings-then-more': [('new', 0, {'debug': True}), ('reg', 'StringGrader', 0), ('reg', 'FormulaGrader', 0),
                           ('new', 1, {'case_sensitive': False}), ('reg', 'StringGrader', 1)],
    # parent and child share the dictionary, the child registers more
    'parent-child-then-more': [('new', 0, {'suppress_warnings': True}), ('reg', 'AbstractGrader', 0), ('reg', 'StringGrader', 0),
                               ('new', 1, {'strip': False, 'min_length': 2}), ('reg', 'StringGrader', 1)],
    # the caller edits its dictionary after registering it
    'edit-after-registration': [('new', 0, {'debug': True}), ('reg', 'ItemGrader', 0), ('set', 0, 'debug', False),
                                ('set', 0, 'wrong_msg', 'try again')],
    # first registration on two classes, then one of them is cleared / re-registered
    'clear-one-of-two': [('new', 0, {'metric_suffixes': True}), ('reg', 'FormulaGrader', 0), ('reg', 'IntegralGrader', 0),
                         ('clear', 'FormulaGrader'), ('new', 1, {'debug': True}), ('reg', 'FormulaGrader', 1),
                         ('new', 2, {'complex_integrand': True}), ('reg', 'IntegralGrader', 2)],
    # child first, parent later with the same object; then more on the parent
    'child-parent-then-more-on-parent': [('new', 0, {'attempt_based_credit_msg': False}), ('reg', 'NumericalGrader', 0),
                                         ('reg', 'FormulaGrader', 0), ('new', 1, {'forbidden_message': 'no'}),
                                         ('reg', 'FormulaGrader', 1), ('set', 0, 'debug', True)],
    # two registrations on the same class (the second must update, not replace), then the other class
    'twice-same-class': [('new', 0, {'debug': True}), ('new', 1, {'case_sensitive': False}), ('reg', 'StringGrader', 0),
                         ('reg', 'StringGrader', 1), ('reg', 'AbstractGrader', 0), ('new', 2, {'wrong_msg': 'try again'}),
                         ('reg', 'ItemGrader', 2)],
}


def random_history(seed, idx):
    rng = random.Random(7919 * seed + 104729 * idx + 20)
    names = sorted(VALID)
    steps, contents, registered_on = [], {}, {}
    for _ in range(rng.randint(4, 9)):
        op = rng.random()
        if op < 0.3 or not contents:
            cname = rng.choice(names)
            keys = registrable(cname)
            d = {k: rng.choice(keys[k]) for k in rng.sample(sorted(keys), rng.randint(1, min(2, len(keys))))}
            i = len(contents)
            contents[i] = dict(d)
            registered_on[i] = [cname]
            steps += [('new', i, d), ('reg', cname, i)]
        elif op < 0.6:
            i = rng.choice(sorted(contents))
            ok = [c for c in names if set(contents[i]) <= set(registrable(c))]
            if ok:
                cname = rng.choice(ok)
                registered_on[i].append(cname)
                steps.append(('reg', cname, i))
        elif op < 0.85:
            i = rng.choice(sorted(contents))
            common = None
            for c in registered_on[i]:
                r = registrable(c)
                common = r if common is None else {k: v for k, v in common.items() if k in r}
            if common:
                k = rng.choice(sorted(common))
                v = rng.choice(common[k])
                contents[i][k] = v
                steps.append(('set', i, k, v))
        else:
            steps.append(('clear', rng.choice(names)))
    return steps


def chain_of(cls):
    from mitxgraders.baseclasses import ObjectWithSchema
    out = [cls]
    while out[-1] is not ObjectWithSchema:
        out.append(out[-1].__bases__[0])
    return list(reversed(out))


def run_history(hist_id, steps, res=None):
    """-> list of witnesses"""
    C = classes()
    wits = []
    dicts, expect_dict = {}, {}
    regs = {}            # class object -> list of snapshots (the reference)

    def witness(step_no, what):
        wits.append({'key': 'registered-history:%r:%d' % (hist_id, step_no), 'kind': 'registered-defaults',
                     'case': ['registered-history'] + list(hist_id), 'step': step_no,
                     'history': [list(map(repr, s)) for s in steps[:step_no + 1]], 'what': what})

    def construct(cls, kw, form):
        if form == 'kw':
            return core.guarded(lambda: cls(**kw))
        return core.guarded(cls, dict(kw))

    def expected(cls, kw):
        merged = {}
        for k in chain_of(cls):
            for snap in regs.get(k, []):
                merged.update(snap)
        merged.update(kw)
        saved = [(c, c.default_values) for c in all_schema_classes()]
        try:
            for c, _ in saved:
                c.default_values = None
            return construct(cls, merged, 'kw')
        finally:
            for c, v in saved:
                c.default_values = v
    try:
        clear_everything()
        for n, step in enumerate(steps):
            if step[0] == 'new':
                dicts[step[1]] = dict(step[2])
                expect_dict[step[1]] = dict(step[2])
                continue
            if step[0] == 'reg':
                cls = C[step[1]]
                regs.setdefault(cls, []).append(dict(expect_dict[step[2]]))
                core.guarded(cls.register_defaults, dicts[step[2]])
            elif step[0] == 'set':
                dicts[step[1]][step[2]] = step[3]
                expect_dict[step[1]][step[2]] = step[3]
            elif step[0] == 'clear':
                regs[C[step[1]]] = []
                core.guarded(C[step[1]].clear_registered_defaults)
            # ---- the property after this step
            for i, d in dicts.items():
                if d != expect_dict[i]:
                    witness(n, "the caller's dictionary #%d is now %r, the caller put %r into it" % (i, d, expect_dict[i]))
                    expect_dict[i] = dict(d)        # report once
            for cname, kw in probes():
                cls = C[cname]
                st, obj = construct(cls, kw, 'kw')
                st2, obj2 = construct(cls, kw, 'dict')
                est, eobj = expected(cls, kw)
                if res is not None:
                    res.oracle_evals += 1
                if est != st or (st == 'exc' and type(obj) is not type(eobj)):
                    witness(n, '%s(%s): %s, but a class with only its own registrations %s'
                            % (cname, ', '.join('%s=%r' % kv for kv in kw.items()),
                               'constructed' if st == 'ret' else 'raised %s: %s' % (type(obj).__name__, str(obj)[:120]),
                               'constructs' if est == 'ret' else 'raises %s' % type(eobj).__name__))
                elif st == 'ret' and obj.config != eobj.config:
                    diff = {k: (obj.config.get(k), eobj.config.get(k)) for k in set(obj.config) | set(eobj.config)
                            if obj.config.get(k) != eobj.config.get(k)}
                    witness(n, '%s(%s): configuration differs from that of a class with only its own registrations '
                            '(option: (got, expected)) %r' % (cname, ', '.join('%s=%r' % kv for kv in kw.items()), diff))
                if st2 != st or (st == 'ret' and obj2.config != obj.config) or (st == 'exc' and type(obj2) is not type(obj)):
                    witness(n, '%s: keyword and dictionary forms differ under registered defaults' % cname)
            if wits:
                break
    finally:
        clear_everything()
    return wits


def histories(ctx):
    out = [(('fixed', name), steps) for name, steps in sorted(FIXED.items())]
    n = 6 if ctx['tier'] == 'quick' and not ctx.get('escalate') else (12 if ctx['tier'] == 'quick' else 60)
    for idx in range(n):
        out.append((('random', ctx['seed'], idx), random_history(ctx['seed'], idx)))
    return out


def run_all(ctx, res):
    hs = histories(ctx)
    for hist_id, steps in hs:
        res.witnesses += run_history(hist_id, steps, res)
        res.nontrivial.add(('registered-history',) + tuple(hist_id))
    res.distribution['registered_default_histories'] = len(hs)


def replay_case(case):
    """case = ['registered-history', 'fixed', name] | ['registered-history', 'random', seed, idx]"""
    if case[1] == 'fixed':
        hist_id, steps = ('fixed', case[2]), FIXED[case[2]]
    else:
        hist_id, steps = ('random', int(case[2]), int(case[3])), random_history(int(case[2]), int(case[3]))
    return run_history(hist_id, steps)
