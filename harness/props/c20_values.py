"""c20_values.py -- Python values <-> Verif.Model.Schema.pyval terms, and the run-time recorder of
ObjectWithSchema.validate_config calls (level-1 correspondence of C20).  No hooks in /repo: the method is wrapped
from here for the duration of a `recording()` block."""
import contextlib
import math
from numbers import Number, Real

from translate import schemas as tr
from translate.schemas import g_str, g_z, g_q, g_list, TAG_CALLABLE, TAG_NUMBER, TAG_REAL


class Skip(Exception):
    """the value cannot be expressed in the model's universe (NaN ...): the case is not compared"""


class Conv:
    """one conversion context: object identities are numbered in first-seen order"""

    def __init__(self, world):
        self.world = world
        self.ids = {}
        self.keep = []

    def obj_id(self, o):
        k = id(o)
        if k not in self.ids:
            self.ids[k] = len(self.ids) + 1
            self.keep.append(o)
        return self.ids[k]

    def tags(self, o):
        from mitxgraders.helpers.get_number_of_args import get_number_of_args
        t = []
        for k in type(o).__mro__:
            if k.__name__ in self.world.class_ids and (k.__module__ or '').startswith('mitxgraders'):
                t.append(self.world.class_ids[k.__name__])
        if isinstance(o, Number):
            t.append(TAG_NUMBER)
        if isinstance(o, Real):
            t.append(TAG_REAL)
        if callable(o):
            t.append(TAG_CALLABLE)
            try:
                n = get_number_of_args(o)
                if isinstance(n, int) and 0 <= n < 50:
                    t.append(100 + n)
            except Exception:       # noqa - signature not inspectable: no arity tag
                pass
        return t

    def conv(self, v, depth=0):
        from mitxgraders.baseclasses import ObjectWithSchema
        if depth > 12:
            raise Skip('too deep')
        if v is None:
            return 'PNone'
        if v is True or v is False:
            return '(PBool %s)' % ('true' if v else 'false')
        if type(v) is int:
            return '(PInt %s)' % g_z(v)
        if type(v) is float:
            if math.isnan(v):
                raise Skip('nan')
            if math.isinf(v):
                return '(PInf %s)' % ('true' if v < 0 else 'false')
            return '(PFloat %s)' % g_q(v)
        if type(v) is str:
            return '(PStr %s)' % g_str(v)
        if type(v) is list:
            return '(PList %s)' % g_list([self.conv(x, depth + 1) for x in v])
        if type(v) is tuple:
            return '(PTuple %s)' % g_list([self.conv(x, depth + 1) for x in v])
        if type(v) is dict:
            return '(PDict %s)' % g_list(['(%s, %s)' % (self.conv(k, depth + 1), self.conv(x, depth + 1))
                                          for k, x in v.items()])
        tags = g_list([str(t) for t in self.tags(v)])
        if isinstance(v, ObjectWithSchema) and 'config' in getattr(v, '__dict__', {}):
            return '(PObj %s %s)' % (tags, self.conv(v.config, depth + 1))
        return '(PObj %s (PInt %d))' % (tags, self.obj_id(v))


def exc_class(e):
    import voluptuous
    from mitxgraders.exceptions import ConfigError
    if isinstance(e, ConfigError):
        return 'EConfig'
    if isinstance(e, voluptuous.Invalid):
        return 'EInvalid'
    if isinstance(e, voluptuous.Error):
        return 'EVError'
    if isinstance(e, (TypeError, AttributeError)):
        return 'EType'
    return 'EOther'


def percentage_table(values):
    """I/O of the one callable the model does not interpret on strings: PercentageString (float parsing)"""
    from mitxgraders.helpers.validatorfuncs import PercentageString
    import voluptuous
    rows, seen = [], set()
    for v in values:
        if type(v) is not str or v in seen:
            continue
        seen.add(v)
        try:
            r = PercentageString(v)
            out = '(Ret (PStr %s))' % g_str(r) if type(r) is str else None
        except voluptuous.Invalid:
            out = '(Raise EInvalid)'
        except Exception:           # noqa
            out = '(Raise EOther)'
        if out:
            rows.append('((PStr %s), %s)' % (g_str(v), out))
    return g_list(rows)


class Recorder:
    """records every ObjectWithSchema.validate_config call made while active"""

    def __init__(self, world):
        self.world = world
        self.records = []
        self.active = False

    @contextlib.contextmanager
    def recording(self):
        from mitxgraders.baseclasses import ObjectWithSchema
        orig = ObjectWithSchema.validate_config
        rec = self

        def wrapped(obj, config):
            entry = None
            conv = Conv(rec.world)
            try:
                tol = [config.get('tolerance')] if type(config) is dict else []
                entry = {'cls': type(obj).__name__, 'conv': conv, 'in': conv.conv(config),
                         'dc': conv.conv(getattr(obj, 'default_comparer', None)), 'tol': tol}
            except Skip:
                entry = None
            try:
                out = orig(obj, config)
            except BaseException as e:
                if entry is not None:
                    entry['out'] = '(OExc %s)' % exc_class(e)
                    rec.records.append(entry)
                raise
            if entry is not None:
                try:
                    entry['out'] = '(ORet %s)' % conv.conv(out)
                    rec.records.append(entry)
                except Skip:
                    pass
            return out
        ObjectWithSchema.validate_config = wrapped
        try:
            yield self
        finally:
            ObjectWithSchema.validate_config = orig

    def take(self):
        r, self.records = self.records, []
        return r


L1_HEADER = ('From Coq Require Import ZArith QArith List Bool String.\n'
             'From Verif.Model Require Import Result Schema.\n'
             'From Verif.Gen Require Schemas.\nImport ListNotations.\n'
             'Open Scope string_scope.\nOpen Scope list_scope.\nOpen Scope Z_scope.\n')

L1_DEFS = r'''
Inductive obs := ORet (v : pyval) | OExc (e : exc).
(* PercentageString: non-strings are refused by its first test; on strings the float parsing is an oracle *)
Definition orc_of (table : list (pyval * outcome pyval)) : Z -> pyval -> outcome pyval :=
  fun id v => match v with
              | PStr _ => match find (fun e => py_eqb (fst e) v) table with Some e => snd e | None => Raise EOther end
              | _ => Raise EInvalid
              end.
Definition l1_case (c : (pyval -> schema) * pyval * list (pyval * outcome pyval) * pyval * obs) : bool :=
  match c with
  | (sch, dc, table, input, o) =>
      match validate_config (orc_of table) (sch dc) input, o with
      | Ret v, ORet v' => py_eqb v v'
      | Raise e, OExc e' => exc_eqb e e'
      | _, _ => false
      end
  end.
'''


def l1_term(rec):
    return '(Schemas.gen_schema_%s, %s, %s, %s, %s)' % (
        rec['cls'], rec['dc'], percentage_table(rec['tol'] + ['0.01%', '5%']), rec['in'], rec['out'])


# ------------------------------------------------------------------------------------------------
# level 0 (kwargs/dict selection + registered defaults) and level 2 (cross-option rules) recorders
# ------------------------------------------------------------------------------------------------
class FullRecorder(Recorder):
    """records, besides validate_config: ObjectWithSchema.__init__ (use_config), MathMixin.validate_math_config,
    ListGrader.__init__ and SingleListGrader.__init__ -- all by wrapping at run time"""

    def __init__(self, world):
        super().__init__(world)
        self.l0, self.math, self.lists, self.slists = [], [], [], []
        self.conv_for = {}
        self.l1_of = {}
        self.item_done = set()

    def take_all(self):
        out = {'l1': self.records, 'l0': self.l0, 'math': self.math, 'list': self.lists, 'slist': self.slists}
        self.records, self.l0, self.math, self.lists, self.slists = [], [], [], [], []
        self.conv_for, self.l1_of, self.item_done = {}, {}, set()
        return out

    @contextlib.contextmanager
    def recording(self):
        from mitxgraders.baseclasses import ObjectWithSchema, ItemGrader
        from mitxgraders.helpers.math_helpers import MathMixin
        from mitxgraders.listgrader import ListGrader, SingleListGrader
        rec = self
        o_init, o_val = ObjectWithSchema.__init__, ObjectWithSchema.validate_config
        o_math, o_list, o_slist, o_item = (MathMixin.validate_math_config, ListGrader.__init__,
                                           SingleListGrader.__init__, ItemGrader.__init__)

        def w_val(obj, config):
            conv = rec.conv_for.get(id(obj)) or Conv(rec.world)
            try:
                tol = [config.get('tolerance')] if type(config) is dict else []
                entry = {'cls': type(obj).__name__, 'conv': conv, 'in': conv.conv(config),
                         'dc': conv.conv(getattr(obj, 'default_comparer', None)), 'tol': tol}
            except Skip:
                entry = None
            try:
                out = o_val(obj, config)
            except BaseException as e:
                if entry is not None:
                    entry['out'] = '(OExc %s)' % exc_class(e)
                    rec.records.append(entry)
                    rec.l1_of[id(obj)] = entry
                raise
            if entry is not None:
                try:
                    entry['out'] = '(ORet %s)' % conv.conv(out)
                    entry['out_pv'] = conv.conv(out)
                    entry['out_copy'] = ObjectWithSchema.coerce2unicode(out)
                    rec.records.append(entry)
                    rec.l1_of[id(obj)] = entry
                except Skip:
                    pass
            return out

        def w_init(obj, config=None, **kwargs):
            conv = Conv(rec.world)
            rec.conv_for[id(obj)] = conv
            rec.l1_of.pop(id(obj), None)
            entry = None
            try:
                chain, c = [], type(obj)
                while True:
                    chain.append(c.default_values)
                    if c is ObjectWithSchema:
                        break
                    c = c.__bases__[0]
                chain.reverse()
                chain_t = g_list([conv.conv(d)[len('(PDict '):-1] for d in chain if d is not None])
                entry = {'cls': type(obj).__name__, 'chain': chain_t,
                         'config': 'None' if config is None else '(Some %s)' % conv.conv(config),
                         'kwargs': conv.conv(kwargs)[len('(PDict '):-1]}
            except Skip:
                entry = None
            try:
                return o_init(obj, config, **kwargs)
            finally:
                l1 = rec.l1_of.get(id(obj))
                if entry is not None and l1 is not None:
                    entry['use'] = l1['in']
                    rec.l0.append(entry)

        def w_item(obj, config=None, **kwargs):
            rec.item_done.discard(id(obj))
            r = o_item(obj, config, **kwargs)
            rec.item_done.add(id(obj))
            return r

        def w_math(obj):
            conv = Conv(rec.world)
            try:
                entry = {'cls': type(obj).__name__, 'in': conv.conv(obj.config),
                         'dfuncs': g_list([conv.conv(k) for k in obj.default_functions]),
                         'dvars': g_list([conv.conv(k) for k in obj.default_variables])}
            except Skip:
                entry = None
            try:
                o_math(obj)
            except BaseException as e:
                if entry is not None:
                    entry['out'] = '(OExc %s)' % exc_class(e)
                    rec.math.append(entry)
                raise
            if entry is not None:
                try:
                    entry['out'] = '(ORet %s)' % conv.conv(obj.config)
                    rec.math.append(entry)
                except Skip:
                    pass

        def norm_of(cfg):
            """what running every answer through its subgrader produces (the oracle of list_rules)"""
            answers, subs = cfg['answers'], cfg['subgraders']
            tup = (answers,) if isinstance(answers, list) else answers
            for al in tup:
                for idx, a in enumerate(al):
                    sub = subs[idx] if isinstance(subs, list) else subs
                    al[idx] = sub.post_schema_ans_val(sub.schema_answers(a))
            return tup

        def w_list(obj, config=None, **kwargs):
            try:
                o_list(obj, config, **kwargs)
                failed = None
            except BaseException as e:
                failed = e
            l1 = rec.l1_of.get(id(obj))
            if l1 is not None and 'out_pv' in l1 and type(obj) is ListGrader:
                conv = l1['conv']
                try:
                    try:
                        norm = '(Ret %s)' % conv.conv(norm_of(l1['out_copy']))
                    except Skip:
                        raise
                    except BaseException as e:
                        norm = '(Raise %s)' % exc_class(e)
                    out = '(OExc %s)' % exc_class(failed) if failed is not None else '(ORet %s)' % conv.conv(obj.config)
                    rec.lists.append({'cls': 'ListGrader', 'in': l1['out_pv'], 'norm': norm, 'out': out})
                except Skip:
                    pass
            if failed is not None:
                raise failed

        def w_slist(obj, config=None, **kwargs):
            try:
                o_slist(obj, config, **kwargs)
                failed = None
            except BaseException as e:
                failed = e
            if id(obj) in rec.item_done and 'config' in obj.__dict__:
                conv = Conv(rec.world)
                try:
                    cfg = conv.conv(obj.config)
                    out = '(OExc %s)' % exc_class(failed) if failed is not None else '(ORet %s)' % cfg
                    rec.slists.append({'cls': type(obj).__name__, 'in': cfg, 'out': out})
                except Skip:
                    pass
            if failed is not None:
                raise failed

        ObjectWithSchema.__init__, ObjectWithSchema.validate_config = w_init, w_val
        MathMixin.validate_math_config, ListGrader.__init__ = w_math, w_list
        SingleListGrader.__init__, ItemGrader.__init__ = w_slist, w_item
        try:
            yield self
        finally:
            ObjectWithSchema.__init__, ObjectWithSchema.validate_config = o_init, o_val
            MathMixin.validate_math_config, ListGrader.__init__ = o_math, o_list
            SingleListGrader.__init__, ItemGrader.__init__ = o_slist, o_item


L2_DEFS = r'''
Definition l0_case (c : list (list (pyval * pyval)) * option pyval * list (pyval * pyval) * pyval) : bool :=
  match c with (chain, config, kwargs, used) => py_eqb (use_config chain config kwargs) used end.
Definition obs_agree (r : outcome pyval) (o : obs) : bool :=
  match r, o with
  | Ret v, ORet v' => py_eqb v v'
  | Raise e, OExc e' => exc_eqb e e'
  | _, _ => false
  end.
Definition math_case (c : list pyval * list pyval * pyval * obs) : bool :=
  match c with
  | (dfuncs, dvars, cfg, o) =>
      obs_agree (math_rules no_orc dfuncs dvars (Schemas.gen_sample_from_default PNone)
                            (Schemas.gen_sample_from_value PNone) cfg) o
  end.
Definition list_case (c : Z * pyval * outcome pyval * obs) : bool :=
  match c with (cl, cfg, norm, o) => obs_agree (list_rules cl cfg norm) o end.
Definition slist_case (c : Z * pyval * obs) : bool :=
  match c with (cl, cfg, o) => obs_agree (single_list_rules cl cfg) o end.
'''
L2_HEADER = L1_HEADER.replace('From Verif.Model Require Import Result Schema.',
                              'From Verif.Model Require Import Result Schema SchemaInit.')
