"""c20_values.py -- Python values <-> Verif.Model.Schema.pyval terms, and the run-time recorder of
ObjectWithSchema.validate_config calls (level-1 correspondence of C20).  No hooks in /repo: the method is wrapped
from here for the duration of a `recording()` block."""
import contextlib
import math
from numbers import Number

from translate import schemas as tr
from translate.schemas import g_str, g_z, g_q, g_list, TAG_CALLABLE, TAG_NUMBER


class Skip(Exception):
    """the value cannot be expressed in the model's universe (NaN ...): the case is not compared"""


class Conv:
    """one conversion context: object identities are numbered in first-seen order"""

    def __init__(self, world):
        self.world = world
        self.ids = {}
        self.keep = []

    def obj_id(self, o):
        k = id(o)
        if k not in self.ids:
            self.ids[k] = len(self.ids) + 1
            self.keep.append(o)
        return self.ids[k]

    def tags(self, o):
        from mitxgraders.helpers.get_number_of_args import get_number_of_args
        t = []
        for k in type(o).__mro__:
            if k.__name__ in self.world.class_ids and (k.__module__ or '').startswith('mitxgraders'):
                t.append(self.world.class_ids[k.__name__])
        if isinstance(o, Number):
            t.append(TAG_NUMBER)
        if callable(o):
            t.append(TAG_CALLABLE)
            try:
                n = get_number_of_args(o)
                if isinstance(n, int) and 0 <= n < 50:
                    t.append(100 + n)
            except Exception:       # noqa - signature not inspectable: no arity tag
                pass
        return t

    def conv(self, v, depth=0):
        from mitxgraders.baseclasses import ObjectWithSchema
        if depth > 12:
            raise Skip('too deep')
        if v is None:
            return 'PNone'
        if v is True or v is False:
            return '(PBool %s)' % ('true' if v else 'false')
        if type(v) is int:
            return '(PInt %s)' % g_z(v)
        if type(v) is float:
            if math.isnan(v):
                raise Skip('nan')
            if math.isinf(v):
                return '(PInf %s)' % ('true' if v < 0 else 'false')
            return '(PFloat %s)' % g_q(v)
        if type(v) is str:
            return '(PStr %s)' % g_str(v)
        if type(v) is list:
            return '(PList %s)' % g_list([self.conv(x, depth + 1) for x in v])
        if type(v) is tuple:
            return '(PTuple %s)' % g_list([self.conv(x, depth + 1) for x in v])
        if type(v) is dict:
            return '(PDict %s)' % g_list(['(%s, %s)' % (self.conv(k, depth + 1), self.conv(x, depth + 1))
                                          for k, x in v.items()])
        tags = g_list([str(t) for t in self.tags(v)])
        if isinstance(v, ObjectWithSchema) and 'config' in getattr(v, '__dict__', {}):
            return '(PObj %s %s)' % (tags, self.conv(v.config, depth + 1))
        return '(PObj %s (PInt %d))' % (tags, self.obj_id(v))


def exc_class(e):
    import voluptuous
    from mitxgraders.exceptions import ConfigError
    if isinstance(e, ConfigError):
        return 'EConfig'
    if isinstance(e, voluptuous.Invalid):
        return 'EInvalid'
    if isinstance(e, voluptuous.Error):
        return 'EVError'
    if isinstance(e, (TypeError, AttributeError)):
        return 'EType'
    return 'EOther'


def percentage_table(values):
    """I/O of the one callable the model does not interpret on strings: PercentageString (float parsing)"""
    from mitxgraders.helpers.validatorfuncs import PercentageString
    import voluptuous
    rows, seen = [], set()
    for v in values:
        if type(v) is not str or v in seen:
            continue
        seen.add(v)
        try:
            r = PercentageString(v)
            out = '(Ret (PStr %s))' % g_str(r) if type(r) is str else None
        except voluptuous.Invalid:
            out = '(Raise EInvalid)'
        except Exception:           # noqa
            out = '(Raise EOther)'
        if out:
            rows.append('((PStr %s), %s)' % (g_str(v), out))
    return g_list(rows)


class Recorder:
    """records every ObjectWithSchema.validate_config call made while active"""

    def __init__(self, world):
        self.world = world
        self.records = []
        self.active = False

    @contextlib.contextmanager
    def recording(self):
        from mitxgraders.baseclasses import ObjectWithSchema
        orig = ObjectWithSchema.validate_config
        rec = self

        def wrapped(obj, config):
            entry = None
            conv = Conv(rec.world)
            try:
                tol = [config.get('tolerance')] if type(config) is dict else []
                entry = {'cls': type(obj).__name__, 'conv': conv, 'in': conv.conv(config),
                         'dc': conv.conv(getattr(obj, 'default_comparer', None)), 'tol': tol}
            except Skip:
                entry = None
            try:
                out = orig(obj, config)
            except BaseException as e:
                if entry is not None:
                    entry['out'] = '(OExc %s)' % exc_class(e)
                    rec.records.append(entry)
                raise
            if entry is not None:
                try:
                    entry['out'] = '(ORet %s)' % conv.conv(out)
                    rec.records.append(entry)
                except Skip:
                    pass
            return out
        ObjectWithSchema.validate_config = wrapped
        try:
            yield self
        finally:
            ObjectWithSchema.validate_config = orig

    def take(self):
        r, self.records = self.records, []
        return r


L1_HEADER = ('From Coq Require Import ZArith QArith List Bool String.\n'
             'From Verif.Model Require Import Result Schema.\n'
             'From Verif.Gen Require Schemas.\nImport ListNotations.\n'
             'Open Scope string_scope.\nOpen Scope list_scope.\nOpen Scope Z_scope.\n')

L1_DEFS = r'''
Inductive obs := ORet (v : pyval) | OExc (e : exc).
(* PercentageString: non-strings are refused by its first test; on strings the float parsing is an oracle *)
Definition orc_of (table : list (pyval * outcome pyval)) : Z -> pyval -> outcome pyval :=
  fun id v => match v with
              | PStr _ => match find (fun e => py_eqb (fst e) v) table with Some e => snd e | None => Raise EOther end
              | _ => Raise EInvalid
              end.
Definition l1_case (c : (pyval -> schema) * pyval * list (pyval * outcome pyval) * pyval * obs) : bool :=
  match c with
  | (sch, dc, table, input, o) =>
      match validate_config (orc_of table) (sch dc) input, o with
      | Ret v, ORet v' => py_eqb v v'
      | Raise e, OExc e' => exc_eqb e e'
      | _, _ => false
      end
  end.
'''


def l1_term(rec):
    return '(Schemas.gen_schema_%s, %s, %s, %s, %s)' % (
        rec['cls'], rec['dc'], percentage_table(rec['tol'] + ['0.01%', '5%']), rec['in'], rec['out'])
