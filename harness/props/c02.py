"""C02 -- grading failures surface only as library errors with student-safe messages.

Tie (A): translate/callguard.py regenerates Gen/CallGuard.v (exception class headers, the try/except of
AbstractGrader.__call__, ensure_text_inputs + wrappers, the except clauses of MathExpression.eval / eval_function /
MathParser.parse, handle_np_floating_errors) and Bridge/CallGuard.v proves the tables equal to the model's.
Tie (B): differential correspondence, the model interpreters being evaluated by Coq ON THE REGENERATED TABLES:
  call    -- every grader class / nesting of the zoo with `check` wrapped: (mode, debug, input object, raw outcome of
             check, attempt) -> final outcome (class names along the MRO and message)
  ensure  -- ensure_text_inputs on all small input objects x the four flag combinations
  bracket -- BracketValidator.validate on all strings over ()[]{}a up to a length + random ones (full message)
  parse   -- MathParser.parse with the outcome of the pyparsing engine as oracle
  site    -- every failing invocation of MathExpression.eval_function / .eval seen during the zoo run: raw exception
             (recovered from __context__) -> recast exception
  tree    -- scripted-failure expression trees through FormulaGrader (which child fails first, which clause recasts)
  numpy   -- handle_np_floating_errors on numpy's messages
  towers  -- (oracle only) graders with integer-valued names in scope x power towers built only from those names, in a child
             process with a hard deadline
  expect  -- ItemGrader.__call__ with valid / invalid author `expect` values (inference happens outside the guarded region)
Oracle on the implementation (independent of the model): exception family, class/message preservation with <br/>,
generic message naming the submission, refusal of non-text before check is consulted, 10 s alarm, numpy error state,
and a table of anticipated problems with the documented class and message.
"""
import random
import re
import sys
import time

from harness import core
from harness.core import zlit, listlit, boollit, optlit
from translate import callguard as tr_callguard

ID = 'C02'
PROPS = 'Props/C02.v'
TRANSLATORS = [('Gen/CallGuard.v', tr_callguard.generate)]
MIRRORED = [('mitxgraders/baseclasses.py', 'AbstractGrader.__call__'),
            ('mitxgraders/baseclasses.py', 'AbstractGrader.ensure_text_inputs'),
            ('mitxgraders/baseclasses.py', 'ItemGrader.ensure_text_inputs'),
            ('mitxgraders/baseclasses.py', 'ItemGrader.__call__'),
            ('mitxgraders/listgrader.py', 'ListGrader.ensure_text_inputs'),
            ('mitxgraders/exceptions.py', '*'),
            ('mitxgraders/helpers/calc/exceptions.py', '*'),
            ('mitxgraders/helpers/calc/expressions.py', 'handle_np_floating_errors'),
            ('mitxgraders/helpers/calc/expressions.py', 'BracketValidator'),
            ('mitxgraders/helpers/calc/expressions.py', 'MathParser.raw_parse'),
            ('mitxgraders/helpers/calc/expressions.py', 'MathParser.parse'),
            ('mitxgraders/helpers/calc/expressions.py', 'MathExpression.eval'),
            ('mitxgraders/helpers/calc/expressions.py', 'MathExpression.eval_node'),
            ('mitxgraders/helpers/calc/expressions.py', 'MathExpression.eval_function'),
            ('mitxgraders/helpers/calc/expressions.py', 'MathExpression.validate_function_call'),
            ('mitxgraders/formulagrader/matrixgrader.py', 'MatrixGrader.check_response')]
REFUTED = []
TRUSTED = [
    'translator translate/callguard.py (Python ast -> tables: class headers, except clauses, if/elif chains over flags, '
    'message templates; fail-closed on any other statement shape)',
    'correspondence harness harness/props/c02.py: check wrapped on the instance, MathExpression.eval/eval_function wrapped on '
    'the class during the run, raw exceptions recovered from __context__; exceptions enter Coq as (names along type(e).__mro__, str(e))',
    'modelled, not verified: Python exception semantics (first matching except clause, isinstance along the MRO), str.replace/'
    'join/format, voluptuous Schema(str)/Schema([str]) (accepts exactly str instances), pyparsing engine (oracle: accepts / '
    'ParseException / other), numpy raising through the installed error callback, every numeric leaf inside check (oracle)',
]
ASSUMPTIONS = ['expect is None or valid (answer inference happens before the guarded region; an invalid author expect escapes as '
               'voluptuous.MultipleInvalid -- outside the property, which ranges over student input)',
               'attempt is an integer or absent; author-defined credit schedules are total',
               'failures inside check are Python Exceptions (KeyboardInterrupt/SystemExit are not caught by design)',
               'check terminates: termination is model totality plus a 10 s wall-clock alarm on every implementation call']

HEADER = ('From Coq Require Import ZArith QArith List Bool String.\n'
          'From Verif.Lib Require Import CallGuardBase.\n'
          'From Verif.Model Require Import Result Credit CallGuard.\n'
          'From Verif.Gen Require CallGuard.\n'
          'Import ListNotations.\nOpen Scope string_scope.\nOpen Scope list_scope.\n'
          'Module G := Verif.Gen.CallGuard.\n')

AGREE_DEFS = r'''
Fixpoint strs_eqb (a b : list string) : bool :=
  match a, b with
  | [], [] => true
  | x :: a', y :: b' => String.eqb x y && strs_eqb a' b'
  | _, _ => false
  end.
Definition exc_eqb (e : exc) (mro : list string) (msg : cstr) : bool := strs_eqb (x_mro e) mro && str_eqb (x_msg e) msg.
Inductive raw := RawNone | RawRet | RawExc (mro : list string) (msg : cstr).
Inductive fin := FinRet | FinExc (mro : list string) (msg : cstr).
Definition dummy : result := RSingle (mkEntry OkTrue 1 []).
Definition mode_of (n : nat) : gmode := match n with O => ModeItem | S O => ModeList | _ => ModeBoth end.
Definition fin_agree {A} (o : outcome A) (f : fin) : bool :=
  match o, f with
  | Ret _, FinRet => true
  | Raise e, FinExc mro msg => exc_eqb e mro msg
  | _, _ => false
  end.

(* grader call: (mode, debug, credit configured, attempt, input object, raw outcome of check, final outcome) *)
Definition call_case (c : nat * bool * bool * option Z * pyval * raw * fin) : bool :=
  let '(m, debug, credit, att, inp, r, f) := c in
  let cfg := mkCallCfg debug (mode_of m) (if credit then Some (fun _ : Q => 1%Q) else None) true in
  let check := fun _ : pyval => match r with RawExc mro msg => Raise (mkExc mro msg) | _ => Ret dummy end in
  let consulted := match r with RawNone => negb (shape_ok (mode_of m) inp) | _ => shape_ok (mode_of m) inp end in
  consulted && fin_agree (call G.exc_table G.guard G.ensure cfg check att inp) f.

(* ItemGrader.__call__ with an `expect` value: (expect given, outcome of validating the inferred answers, input, raw, final) *)
Definition expect_case (c : bool * option (list string * cstr) * pyval * raw * fin) : bool :=
  let '(given, inf, inp, r, f) := c in
  let infer := match inf with None => Ret tt | Some (mro, msg) => Raise (mkExc mro msg) end in
  let cfg := mkCallCfg false ModeItem None true in
  let check := fun _ : pyval => match r with RawExc mro msg => Raise (mkExc mro msg) | _ => Ret dummy end in
  fin_agree (item_call G.exc_table G.guard G.ensure cfg infer given check None inp) f.

(* ensure_text_inputs(student_input, allow_lists, allow_single) *)
Definition ensure_case (c : bool * bool * pyval * fin) : bool :=
  let '(al, asg, inp, f) := c in fin_agree (ensure_text G.exc_table G.ensure al asg inp) f.

(* BracketValidator.validate: None = accepted, Some message = UnbalancedBrackets(message) *)
Definition bv_case (c : cstr * option cstr) : bool :=
  match bv_message (fst c), snd c with
  | None, None => true
  | Some a, Some b => str_eqb a b
  | _, _ => false
  end.

(* MathParser.parse: (text as typed, outcome of the pyparsing engine on the space-free text, final) *)
Definition parse_case (c : cstr * option (list string * cstr) * fin) : bool :=
  let '(expr, g, f) := c in
  let gram := fun _ : cstr => match g with None => GOk | Some (mro, msg) => GRaise (mkExc mro msg) end in
  fin_agree (parse_model G.exc_table G.parse_handlers G.parse_strip G.raw_parse_steps expr gram) f.

(* one failing invocation of eval_function (site 0, with the function name) or MathExpression.eval (site 1) *)
Definition site_case (c : nat * cstr * (list string * cstr) * (list string * cstr)) : bool :=
  let '(site, name, r, f) := c in
  let hs := match site with O => G.evalfn_handlers | _ => G.eval_handlers end in
  exc_eqb (apply_handlers G.exc_table hs (fun _ => name) (mkExc (fst r) (snd r))) (fst f) (snd f).

(* handle_np_floating_errors(err, flag) *)
Definition np_case (c : cstr * list string * cstr) : bool :=
  let '(err, mro, msg) := c in exc_eqb (np_raise G.np_err_rules G.np_err_default err) mro msg.

(* scripted-failure trees *)
Inductive v := VQ (q : Q) | VInf | VNan.
Definition v_isnan (x : v) : bool := match x with VNan => true | _ => false end.
Definition v_isinf (x : v) : bool := match x with VInf => true | _ => false end.
Definition zde : exc := mkExc (builtin_mro "ZeroDivisionError") [].
Definition op_add (vs : list v) : outcome v :=
  match vs with [VQ a; VQ b] => Ret (VQ (a + b)) | _ => Ret VNan end.
Definition op_div (vs : list v) : outcome v :=
  match vs with [VQ a; VQ b] => if Qeq_bool b 0 then Raise zde else Ret (VQ (a / b)) | _ => Ret VNan end.
Definition op_id (vs : list v) : outcome v := match vs with [x] => Ret x | _ => Ret VNan end.
Definition tree_case (c : cstr * node v * fin) : bool :=
  let '(text, n, f) := c in
  fin_agree (guarded G.exc_table G.guard false (PStr [] text)
               (match eval_top v v_isnan v_isinf VNan G.exc_table G.evalfn_handlers G.eval_handlers G.arity_error false n with
                | Raise e => Raise e
                | Ret _ => Ret dummy
                end)) f.
'''


# ------------------------------------------------------------------------------------------------
# Coq terms
# ------------------------------------------------------------------------------------------------
class Pool(object):
    """texts and class-name lists that occur several times are defined once in the header of the case files"""
    def __init__(self):
        self.count = {}
        self.names = {}
        self.on = False

    def see(self, key):
        self.count[key] = self.count.get(key, 0) + 1

    def header(self):
        lines = []
        for key, n in sorted(self.count.items(), key=lambda kv: repr(kv[0])):
            if n >= 3 or (key[0] == 'm'):
                name = 'pool_%d' % len(self.names)
                self.names[key] = name
                if key[0] == 't':
                    lines.append('Definition %s : cstr := %s.' % (name, raw_text(key[1])))
                else:
                    lines.append('Definition %s : list string := %s.' % (name, raw_names(key[1])))
        return '\n'.join(lines) + '\n'


POOL = Pool()


def raw_text(s):
    """printable ASCII runs as string literals, every other code point as a number"""
    if not s:
        return '(@nil Z)'
    parts, run, nums = [], [], []

    def flush():
        if run:
            parts.append('s2z "%s"' % ''.join(run))
            del run[:]
        if nums:
            parts.append('[' + '; '.join(nums) + ']%Z')
            del nums[:]
    for c in s:
        if 32 <= ord(c) < 127 and c != '"':
            if nums:
                flush()
            run.append(c)
        else:
            if run:
                flush()
            nums.append('%d' % ord(c))
    flush()
    return '(' + ' ++ '.join(parts) + ')'


def ctext(s):
    """text -> Coq term of type cstr.  Two-pass: with POOL.on False occurrences are counted and a placeholder is
    emitted; finish() substitutes pooled names."""
    if not s:
        return '(@nil Z)'
    POOL.see(('t', s))
    return '\x01T%d\x02' % _intern(('t', s))


_INTERN = {}
_INTERN_REV = []


def _intern(key):
    k = _INTERN.get(key)
    if k is None:
        k = len(_INTERN_REV)
        _INTERN[key] = k
        _INTERN_REV.append(key)
    return k


def raw_names(names):
    for n in names:
        if not re.match(r'^[A-Za-z_][A-Za-z0-9_]*$', n):
            raise ValueError('class name %r' % n)
    return '[' + '; '.join('"%s"' % n for n in names) + ']'


def finish(terms):
    """resolve placeholders; returns (extra header, terms)"""
    hdr = POOL.header()

    def sub(m):
        key = _INTERN_REV[int(m.group(1))]
        name = POOL.names.get(key)
        if name:
            return name
        return raw_text(key[1]) if key[0] == 't' else raw_names(key[1])
    out = [re.sub('\x01[TM](\\d+)\x02', sub, t) for t in terms]
    return hdr, out


def pool_reset():
    POOL.count.clear()
    POOL.names.clear()
    _INTERN.clear()
    del _INTERN_REV[:]


def cnames(names):
    names = tuple(names)
    raw_names(names)
    POOL.see(('m', names))
    return '\x01M%d\x02' % _intern(('m', names))


def mro_names(e):
    return [c.__name__ for c in type(e).__mro__]


def exc_pair(e):
    return '(%s, %s)' % (cnames(mro_names(e)), ctext(str(e)))


def fin_term(status, val):
    if status == 'ret':
        return 'FinRet'
    return '(FinExc %s %s)' % (cnames(mro_names(val)), ctext(str(val)))


def pyval_term(x, depth=0):
    ty = ctext(str(type(x)))
    if isinstance(x, str):
        return '(PStr %s %s)' % (ty, ctext(x))
    if isinstance(x, list) and depth < 6:
        return '(PList %s %s)' % (ty, listlit([pyval_term(y, depth + 1) for y in x]))
    return '(POther %s)' % ty


# ------------------------------------------------------------------------------------------------
# grader zoo: (name, mode, factory(debug) -> grader, has attempt-based credit); mode 0 item, 1 list, 2 both
# ------------------------------------------------------------------------------------------------
ITEM, LIST, BOTH = 0, 1, 2
_ZOO = None


def zoo():
    global _ZOO
    if _ZOO is not None:
        return _ZOO
    from mitxgraders import (StringGrader, FormulaGrader, NumericalGrader, MatrixGrader, IntervalGrader, SumGrader,
                             SingleListGrader, ListGrader, RealMatrices, RealVectors, DependentSampler, IntegralGrader,
                             LinearCredit)
    from mitxgraders.baseclasses import AbstractGrader
    from mitxgraders.exceptions import ConfigError, InvalidInput

    def boom_value(x):
        raise ValueError('internal detail that must not leak')

    def boom_key(x):
        return {}[x]

    def boom_student(x):
        raise InvalidInput('author says:\nno')

    def boom_config(x):
        raise ConfigError('author config\nproblem')

    ufuncs = {'bv': boom_value, 'bk': boom_key, 'bs': boom_student, 'bc': boom_config, 'rinf': lambda x: float('inf'),
              'rnan': lambda x: float('nan'), 'rstr': lambda x: 'text', 'two': lambda x, y: x + y}

    class EchoGrader(AbstractGrader):
        """author-defined grader built directly on AbstractGrader (accepts text or a list of text)"""
        @property
        def schema_config(self):
            return super(EchoGrader, self).schema_config

        def check(self, answers, student_input, **kwargs):
            items = student_input if isinstance(student_input, list) else [student_input]
            for s in items:
                if 'boom' in s:
                    raise RuntimeError('internal')
                if s == 'deep':
                    def rec(n):
                        return rec(n + 1)
                    rec(0)
                if s == 'lib':
                    raise InvalidInput('line one\nline two')
                if s == 'cfg':
                    raise ConfigError('cfg one\ncfg two')
                if s == 'stop':
                    raise StopIteration()
                if s == 'mem':
                    raise MemoryError()
                if s == 'assert':
                    assert False, 'assertion text'
                if s == 'uni':
                    raise ValueError(u'☃')
            if isinstance(student_input, list):
                return {'overall_message': '', 'input_list': [{'ok': True, 'grade_decimal': 1, 'msg': ''} for _ in items]}
            return {'ok': True, 'grade_decimal': 1, 'msg': ''}

    Z = []

    def add(name, mode, fn, credit=False):
        Z.append((name, mode, fn, credit))

    add('String', ITEM, lambda d: StringGrader(answers='cat', debug=d))
    add('String/pattern', ITEM, lambda d: StringGrader(answers='12', validation_pattern=r'\d+', debug=d))
    add('String/minwords', ITEM, lambda d: StringGrader(answers='a b c', min_words=2, min_length=3, strip_all=True,
                                                        case_sensitive=False, debug=d))
    add('String/any', ITEM, lambda d: StringGrader(accept_any=True, debug=d))
    add('String/credit', ITEM, lambda d: StringGrader(answers='cat', attempt_based_credit=LinearCredit(), debug=d), True)
    add('Formula', ITEM, lambda d: FormulaGrader(answers='x^2+1', variables=['x'], debug=d))
    add('Formula/user', ITEM, lambda d: FormulaGrader(answers='x+1', variables=['x', 'y'], user_functions=ufuncs,
                                                      numbered_vars=['a'], samples=2, debug=d))
    add('Formula/restricted', ITEM, lambda d: FormulaGrader(answers='sin(x)', variables=['x'], whitelist=['sin', 'cos'],
                                                            forbidden_strings=['+1'], required_functions=['sin'],
                                                            metric_suffixes=True, debug=d))
    add('Formula/inf', ITEM, lambda d: FormulaGrader(answers='infty', allow_inf=True, debug=d))
    add('Formula/dependent', ITEM, lambda d: FormulaGrader(
        answers='x*y', variables=['x', 'y'], failable_evals=1,
        sample_from={'x': [1, 2], 'y': DependentSampler(depends=['x'], formula='1/(x-1.5)')}, debug=d))
    add('Numerical', ITEM, lambda d: NumericalGrader(answers='3.5', debug=d))
    add('Numerical/user', ITEM, lambda d: NumericalGrader(answers='0', user_functions=ufuncs, tolerance=0.1, debug=d))
    add('Matrix', ITEM, lambda d: MatrixGrader(answers='[1,2]', max_array_dim=2, debug=d))
    add('Matrix/vars', ITEM, lambda d: MatrixGrader(
        answers='A*v', variables=['A', 'v', 'x'], identity_dim=2, max_array_dim=2,
        sample_from={'A': RealMatrices(shape=[2, 2]), 'v': RealVectors(shape=2)}, debug=d))
    add('Matrix/quiet', ITEM, lambda d: MatrixGrader(answers='[[1,2],[3,4]]', max_array_dim=2, suppress_matrix_messages=True, debug=d))
    add('Matrix/noshape', ITEM, lambda d: MatrixGrader(answers='[1,2,3]', shape_errors=False, negative_powers=False,
                                                       answer_shape_mismatch={'is_raised': False, 'msg_detail': 'shape'},
                                                       max_array_dim=1, debug=d))
    add('Matrix/partial', ITEM, lambda d: MatrixGrader(answers='[[1,2],[3,4]]', max_array_dim=2, entry_partial_credit='proportional',
                                                       debug=d))
    add('Interval', ITEM, lambda d: IntervalGrader(answers='[1,2)', debug=d))
    add('Interval/inf', ITEM, lambda d: IntervalGrader(answers='(-infty,x]', subgrader=FormulaGrader(variables=['x'], allow_inf=True),
                                                       opening_brackets='[(<', debug=d))
    add('Sum', BOTH, lambda d: SumGrader(answers={'lower': '1', 'upper': '5', 'summand': 'n', 'summation_variable': 'n'},
                                         input_positions={'summand': 1}, debug=d))
    add('Sum/limits', BOTH, lambda d: SumGrader(
        answers={'lower': '1', 'upper': 'infty', 'summand': '1/n^2', 'summation_variable': 'n'},
        input_positions={'lower': 1, 'upper': 2, 'summand': 3, 'summation_variable': 4}, infty_val=30, debug=d))
    add('Integral', BOTH, lambda d: IntegralGrader(answers={'lower': '0', 'upper': '1', 'integrand': 'x', 'integration_variable': 'x'},
                                                   input_positions={'integrand': 1}, debug=d))
    add('SingleList/str', ITEM, lambda d: SingleListGrader(answers=['a', 'b', 'c'], subgrader=StringGrader(), debug=d))
    add('SingleList/formula', ITEM, lambda d: SingleListGrader(answers=['1', '2'], subgrader=FormulaGrader(), ordered=True,
                                                               length_error=True, debug=d))
    add('SingleList/nested', ITEM, lambda d: SingleListGrader(
        answers=[['1', '2'], ['3', '4']], delimiter=';', missing_error=False, partial_credit=False,
        subgrader=SingleListGrader(subgrader=NumericalGrader(), delimiter=','), debug=d))
    add('SingleList/matrix', ITEM, lambda d: SingleListGrader(answers=['[1,2]', '[3,4]'], delimiter=';',
                                                              subgrader=MatrixGrader(max_array_dim=1), debug=d))
    add('List/str', LIST, lambda d: ListGrader(answers=['a', 'b'], subgraders=StringGrader(), debug=d))
    add('List/formula-ordered', LIST, lambda d: ListGrader(answers=['1', 'x', 'x^2'], subgraders=FormulaGrader(variables=['x']),
                                                          ordered=True, partial_credit=False, debug=d))
    add('List/mixed', LIST, lambda d: ListGrader(answers=['cat', '2', '[1,2]'], ordered=True,
                                                 subgraders=[StringGrader(), NumericalGrader(), MatrixGrader()], debug=d))
    add('List/grouped', LIST, lambda d: ListGrader(
        answers=[['1', '2'], ['3', '4']], grouping=[1, 1, 2, 2],
        subgraders=ListGrader(subgraders=FormulaGrader(user_functions=ufuncs), ordered=False), ordered=False, debug=d))
    add('List/grouped-mixed', LIST, lambda d: ListGrader(
        answers=[['a', 'b'], 'x+1', ['1,2', '3']], grouping=[1, 2, 3, 1, 3], ordered=True,
        subgraders=[ListGrader(subgraders=StringGrader(), ordered=True), FormulaGrader(variables=['x']),
                    ListGrader(subgraders=SingleListGrader(subgrader=NumericalGrader()), ordered=False)], debug=d))
    add('List/multi-answer', LIST, lambda d: ListGrader(answers=(['a', 'b'], ['c', 'd']), subgraders=StringGrader(), debug=d))
    add('List/siblings', LIST, lambda d: ListGrader(answers=['2', 'sibling_1^2'], ordered=True, subgraders=FormulaGrader(), debug=d))
    add('List/credit', LIST, lambda d: ListGrader(answers=['a', 'b'], subgraders=StringGrader(),
                                                  attempt_based_credit=LinearCredit(), debug=d), True)
    add('Echo', BOTH, lambda d: EchoGrader(debug=d))
    # the comparer family, LinearComparer in its rare configurations too
    from mitxgraders import (between_comparer, congruence_comparer, eigenvector_comparer, vector_span_comparer, vector_phase_comparer,
                             LinearComparer, MatrixEntryComparer, EqualityComparer)
    import numpy as np

    def cmp_formula(comparer, params, **kw):
        return lambda d: FormulaGrader(answers={'comparer': comparer, 'comparer_params': params}, debug=d, **kw)

    def cmp_matrix(comparer, params, **kw):
        return lambda d: MatrixGrader(answers={'comparer': comparer, 'comparer_params': params}, debug=d, **kw)
    add('Cmp/between', ITEM, cmp_formula(between_comparer, ['1', '5']))
    add('Cmp/congruence', ITEM, cmp_formula(congruence_comparer, ['pi/2', '2*pi']))
    add('Cmp/eigenvector', ITEM, cmp_matrix(eigenvector_comparer, ['[[1,0],[0,2]]', '1'], max_array_dim=2))
    add('Cmp/span', ITEM, cmp_matrix(vector_span_comparer, ['[1,0,0]', '[0,1,0]']))
    add('Cmp/phase', ITEM, cmp_matrix(vector_phase_comparer, ['[1,i]']))
    add('Cmp/linear', ITEM, cmp_formula(LinearComparer(), ['x^2'], variables=['x']))
    add('Cmp/linear-all', ITEM, cmp_formula(LinearComparer(equals=1, proportional=0.5, offset=0.4, linear=0.2), ['x^2'], variables=['x']))
    add('Cmp/linear-prop-only', ITEM, cmp_formula(LinearComparer(equals=None, proportional=0.5), ['x^2'], variables=['x']))
    add('Cmp/linear-linear-only', ITEM, cmp_formula(LinearComparer(equals=None, proportional=None, linear=0.5), ['x'], variables=['x'], samples=3))
    add('Cmp/linear-zero', ITEM, cmp_formula(LinearComparer(equals=None, proportional=0.5, linear=0.3), ['0'], variables=['x']))
    add('Cmp/linear-matrix', ITEM, cmp_matrix(LinearComparer(offset=0.5), ['[x,1]'], variables=['x']))
    add('Cmp/entry', ITEM, cmp_matrix(MatrixEntryComparer(entry_partial_credit=0.5), ['[[1,2],[3,4]]'], max_array_dim=2))
    add('Cmp/transform', ITEM, cmp_formula(EqualityComparer(transform=np.abs), ['x'], variables=['x']))
    add('Cmp/list', LIST, lambda d: ListGrader(
        answers=[{'comparer': LinearComparer(equals=None, proportional=0.5), 'comparer_params': ['x']}, 'x+1'],
        subgraders=FormulaGrader(variables=['x']), ordered=True, debug=d))
    _ZOO = Z
    return Z


LIST_SIZES = {'Sum/limits': 4, 'List/str': 2, 'List/formula-ordered': 3, 'List/mixed': 3, 'List/grouped': 4,
              'List/grouped-mixed': 5, 'List/multi-answer': 2, 'List/siblings': 2, 'List/credit': 2, 'Echo': 3, 'Cmp/list': 2}

# ------------------------------------------------------------------------------------------------
# hostile strings
# ------------------------------------------------------------------------------------------------
FUNCS1 = ['sin', 'cos', 'tan', 'sec', 'csc', 'cot', 'sqrt', 'log10', 'log2', 'ln', 'exp', 'arccos', 'arcsin', 'arctan', 'arcsec',
          'arccsc', 'arccot', 'abs', 'fact', 'factorial', 'sinh', 'cosh', 'tanh', 'sech', 'csch', 'coth', 'arcsinh', 'arccosh',
          'arctanh', 'arcsech', 'arccsch', 'arccoth', 're', 'im', 'conj', 'floor', 'ceil', 'trans', 'det', 'tr', 'norm', 'adj',
          'ctrans', 'bv', 'bk', 'bs', 'bc', 'rinf', 'rnan', 'rstr', 'nosuch', 'SIN']
FUNCS2 = ['arctan2', 'kronecker', 'cross', 'min', 'max', 'two']
POLES = ['0', '-1', '1', '2', 'pi/2', 'pi', '-pi/2', '1e308', '1e400', '1e-320', '0.5', '1.5', 'i', '-i', '1+i', '171', '170.5',
         '1000', '-1000', 'e', 'x', 'y', 'a_{1}', 'infty', '[1,2]', '[[1,2],[3,4]]', '[[1,1],[1,1]]', '[1,2,3]', '[[1,2,3]]',
         '[[[1]]]', 'I', 'A', 'v', '0/0', '1/0', '(1-1)', '10^400', '2^0.5', '(-1)^0.5', '0^0', '0^-1', '5%', '2k', '3M', 'n']
OPS = ['+', '-', '*', '/', '^', '||', '^-', '*-', '/-', '+-']
# non-ASCII digits / operators / whitespace and other foreign characters
FOREIGN = [u'\u0661', u'\u0662', u'\uff11', u'\uff12', u'\u00b2', u'\u00b9', u'\u2212', u'\u2013', u'\u2014', u'\u00d7', u'\u00f7',
           u'\u2215', u'\u22c5', u'\u00b7', u'\uff0b', u'\uff0a', u'\u00a0', u'\u2009', u'\u200b', u'\u3000', u'\u2028', u'\x0b',
           u'\x0c', u'\x00', u'\x1f', u'\u03c0', u'\u221e', u'\u221a', u'\u00e9', u'\U0001d7d9', u'\ud800', u'\ufeff', u'\u202e',
           u'\uff08', u'\uff09', u'\u3010', u'\u066b', u'\u066c', u'\uff0c', u'\u037e', u'\u0085', u'\u1680']
STRAY = list('()[]{},;:.\'"`!@#$%^&*_=<>?\\|~/+- \t\n\r') + ['<br/>', '{}', '{0}', '%s', '%(x)s', '<mark>', '&amp;', "', '", '\\n']

# blank / zero / proportional / shifted inputs: the perturbers that reach the rare branches of comparers
PERTURB = ['', ' ', '0', '0*x', '0.0', 'x', 'x^2', '2*x', '2*x^2', 'x^2+1', '3*x+1', '[0,0]', '[0,0,0]', '[1,0,0]', '[1,i]', '0*[1,i]',
           '[[0,0],[0,0]]', '[[1,2],[3,4]]', '1/0', 'x/0', '3', 'pi/2']
CORPUS = ['', ' ', '\t', '\n', '1/0', '0/0', '0^-1', '1||-1', '(1', '1)', '((((', '[(1])', '{', '1+', '*1', '1 2', '--1', 'x', 'q',
          'sin(1,2)', 'sin()', 'sin', 'f(1)', '[1,2]+[1,2,3]', '[1,2]^2', '1/[1,2]', '2^[1,2]', '[[1,2],[3]]', '[[1,2],[3,4]]^0.5',
          '[[1,1],[1,1]]^-1', 'sin([1,2])', 'det([[1,2]])', 'cross([1,2],[3,4])', '10^400', '10^10^10', '1e400', 'e^1000', '1e308*10',
          '1e308', 'ln(0)', 'cot(0)', 'arctan2(0,0)', 'fact(-1)', 'fact(0.5)', 'factorial(171)', 'fact(1e308)', 'arcsin(2)', 'sqrt(-1)',
          'tan(pi/2)', '1e', '5%%', '2x', 'nan', 'inf', 'infty', '-infty', ',', ',,', 'a,,b', ',a', 'a,', 'a, ,b', ';', '1;2', '1,2;3,,4',
          u'١', u'1−1', u'1 + 2', u'1—1', u'１', u'x²', u'2×3', u'\U0001d7d9', u'\ud800', '\x00',
          'bv(1)', 'bk(1)', 'bs(1)', 'bc(1)', 'rinf(1)', 'rnan(1)', 'rstr(1)', 'two(1)', 'two(1,2,3)', 'bv(1/0)', 'bv(bs(1))', 'bs(bv(1))',
          '{}', '{0}', '%s', '%(a)s', '<br/>', "'", "', '", '[1,2)', '(1,2]', '[1,2]', '[2,1]', '(1,2', '1,2)', '[,]', '[1,]', '[1,2,3)',
          '<1,2>', '[1/0,2)', '[x,y]', 'boom', 'deep', 'lib', 'cfg', 'stop', 'mem', 'assert', 'uni', 'cat', 'CAT', ' cat ', '12', '12a',
          'a b', 'a  b  c', 'A*v', 'v*A', 'A^-1', 'A^0.5', 'A+1', 'A+I', 'v^2', 'A*A*v', 'A/v', 'v/A', 'A^v', 'A^A', 'x^A', '[v,v]',
          '[A,A]', '[[A]]', 'I^-1', '0*A^-1', 'n', 'n^2', '1/n', '1/(n-3)', 'fact(n)', 'm', '1/n^2', '1.5', '0', '6', 'n+',
          '1||[1,2]', 'max(1,[1,2])', 'a', 'b', 'c', 'd', '1', '2', '3', '4', 'x+1', '1,2', 'x^2', 'sibling_1^2', '[3,4]']


def gen_formula(rng, depth):
    """grammar-derived formula, biased towards poles, overflow, 0/0, complex values and shape clashes"""
    if depth <= 0 or rng.random() < 0.25:
        return rng.choice(POLES)
    r = rng.random()
    if r < 0.35:
        return '%s%s%s' % (gen_formula(rng, depth - 1), rng.choice(OPS), gen_formula(rng, depth - 1))
    if r < 0.60:
        return '%s(%s)' % (rng.choice(FUNCS1), gen_formula(rng, depth - 1))
    if r < 0.70:
        k = rng.choice([1, 2, 2, 3])
        return '%s(%s)' % (rng.choice(FUNCS2), ','.join(gen_formula(rng, depth - 1) for _ in range(k)))
    if r < 0.80:
        return '(%s)' % gen_formula(rng, depth - 1)
    if r < 0.90:
        k = rng.randint(1, 3)
        return '[%s]' % ','.join(gen_formula(rng, depth - 1) for _ in range(k))
    if r < 0.95:
        return '-%s' % gen_formula(rng, depth - 1)
    k = rng.randint(1, 3)
    rows = rng.randint(1, 3)
    return '[%s]' % ','.join('[%s]' % ','.join(gen_formula(rng, depth - 2) for _ in range(k)) for _ in range(rows))


def mutate(rng, s):
    """random edits: bracket damage, stray delimiters, foreign characters, duplication"""
    s = list(s)
    for _ in range(rng.choice([1, 1, 2, 3, 5])):
        r = rng.random()
        pos = rng.randint(0, len(s))
        if r < 0.30:
            s.insert(pos, rng.choice(STRAY))
        elif r < 0.50:
            s.insert(pos, rng.choice(FOREIGN))
        elif r < 0.70 and s:
            del s[min(pos, len(s) - 1)]
        elif r < 0.85 and s:
            s[min(pos, len(s) - 1)] = rng.choice(STRAY + FOREIGN)
        elif s:
            a = rng.randint(0, len(s) - 1)
            b = rng.randint(a, min(len(s), a + 6))
            s[pos:pos] = s[a:b]
    return ''.join(s)


def gen_text(rng):
    r = rng.random()
    if r < 0.40:
        return gen_formula(rng, rng.randint(1, 4))
    if r < 0.70:
        return mutate(rng, gen_formula(rng, rng.randint(0, 3)))
    if r < 0.80:
        return mutate(rng, rng.choice(CORPUS))
    if r < 0.92:
        return rng.choice(CORPUS)
    k = rng.randint(0, 12)
    return ''.join(rng.choice(STRAY + FOREIGN + list('0123456789xyabe')) for _ in range(k))


def gen_listy(rng):
    """text for single-box lists: items joined by delimiters, with blanks and stray delimiters"""
    k = rng.randint(0, 5)
    items = [rng.choice(['', ' ', 'a', 'b', 'c', '1', '2', '3', '4', '[1,2]', '[3,4]', gen_text(rng)]) for _ in range(k)]
    s = rng.choice(',;').join(items)
    if rng.random() < 0.3:
        s = mutate(rng, s)
    return s


def deep_strings(tier, max_n=None):
    out = []
    sizes = [3, 40, 150, 600, 2500] + ([10000] if tier == 'thorough' else [])
    if max_n:
        # single-box unordered lists cost O(n^2) subgrader checks + O(n^3) assignment in the number of items n (0.7 s at n = 160,
        # terminating but far beyond the alarm at n = 2500): sizes are capped there so that the alarm never fires on a slow machine
        sizes = [n for n in sizes if n <= max_n] + [max_n]
    for n in sizes:
        out += ['(' * n + '1' + ')' * n, '[' * n + '1' + ']' * n, 'sin(' * n + '1' + ')' * n, '(' * n, ')' * n, '[(' * n + '])' * n,
                '-' * n + '1', '1' + '^2' * n, '1' + '^-2' * n, '+'.join(['1'] * n), '1' + '||1' * n, '1' + '/(1' * n + ')' * n,
                '{' * n + '}' * n, 'x' + "'" * n, 'x_' + '1' * n, '1' * n, '1e' + '9' * n, '0.' + '0' * n + '1', 'a' * n,
                'f(' + ','.join(['1'] * n) + ')', '[' + ','.join(['1'] * n) + ']', ',' * n, ' ' * n, '\n' * n, u'١' * n,
                '2^' * n + '2', '(1+' * n + '1' + ')' * n, 'abs(' * n + '-1' + ')' * n, ';'.join(['1,2'] * n)]
    return out


class Weird(object):
    pass


class StrSub(str):
    pass


class ListSub(list):
    pass


def nontext_objects():
    """non-string input objects, (label, factory)"""
    import numpy as np
    from collections import OrderedDict
    return [('None', lambda: None), ('int', lambda: 5), ('zero', lambda: 0), ('float', lambda: 2.5), ('nan', lambda: float('nan')),
            ('True', lambda: True), ('False', lambda: False), ('bytes', lambda: b'cat'), ('bytearray', lambda: bytearray(b'cat')),
            ('tuple', lambda: ('a', 'b')), ('empty-tuple', lambda: ()), ('dict', lambda: {'a': 'b'}), ('set', lambda: {'a'}),
            ('frozenset', lambda: frozenset(['a'])), ('complex', lambda: 1j), ('object', Weird), ('class', lambda: Weird),
            ('builtin', lambda: len), ('ndarray', lambda: np.array(['a', 'b'])), ('npint', lambda: np.int64(3)),
            ('npfloat', lambda: np.float64(1.5)), ('range', lambda: range(2)), ('iter', lambda: iter(['a'])),
            ('ordereddict', OrderedDict), ('ellipsis', lambda: Ellipsis), ('exception', lambda: ValueError('x')),
            ('memoryview', lambda: memoryview(b'a'))]


def build_object(spec):
    """JSON-able description of an input object -> the object.  spec: str | ['list', [...]] | ['obj', label] | ['strsub', s] | ['listsub', [...]]"""
    if isinstance(spec, str):
        return spec
    kind = spec[0]
    if kind == 'list':
        return [build_object(x) for x in spec[1]]
    if kind == 'listsub':
        return ListSub(build_object(x) for x in spec[1])
    if kind == 'strsub':
        return StrSub(spec[1])
    if kind == 'obj':
        return dict(nontext_objects())[spec[1]]()
    raise ValueError(spec)


def spec_of_texts(x):
    return x if isinstance(x, str) else ['list', list(x)]


def shape_ok_py(mode, x):
    """the property's notion of acceptable input for a grader of the given kind"""
    single = isinstance(x, str)
    multi = isinstance(x, list) and all(isinstance(y, str) for y in x)
    return single if mode == ITEM else multi if mode == LIST else (single or multi)


# ------------------------------------------------------------------------------------------------
# observing one call
# ------------------------------------------------------------------------------------------------
class Recorder(object):
    """wraps MathExpression.eval_function / MathExpression.eval on the class and records every failing invocation"""
    def __init__(self):
        self.sites = {}

    def __enter__(self):
        from mitxgraders.helpers.calc import expressions as ex
        self.ex = ex
        self.orig_fn = ex.MathExpression.__dict__['eval_function']
        self.orig_eval = ex.MathExpression.__dict__['eval']
        ofn = self.orig_fn.__func__
        oev = self.orig_eval
        rec = self

        def eval_function(parse_result, functions):
            try:
                return ofn(parse_result, functions)
            except Exception as e:
                rec.note(0, str(parse_result[0]), e)
                raise

        def eval(self_, *a, **k):
            try:
                return oev(self_, *a, **k)
            except Exception as e:
                rec.note(1, '', e)
                raise
        ex.MathExpression.eval_function = staticmethod(eval_function)
        ex.MathExpression.eval = eval
        return self

    def note(self, site, name, e):
        # the exception was raised by a `raise C(msg)` statement of the wrapped function itself (an except clause)
        # iff the traceback has exactly two entries (our wrapper, the wrapped function) and a context is attached
        depth, tb = 0, e.__traceback__
        while tb is not None:
            depth += 1
            tb = tb.tb_next
        raw = e.__context__ if (depth == 2 and e.__context__ is not None) else e
        key = (site, name, tuple(mro_names(raw)), str(raw), tuple(mro_names(e)), str(e))
        if len(str(raw)) < 600 and len(str(e)) < 600:
            self.sites.setdefault(key, 0)
            self.sites[key] += 1

    def __exit__(self, *a):
        self.ex.MathExpression.eval_function = self.orig_fn
        self.ex.MathExpression.eval = self.orig_eval


def observe_once(g, inp, attempt, seed, seconds):
    import numpy as np
    raw = {'called': 0}
    orig = g.check

    def check(answers, student_input, **kw):
        raw['called'] += 1
        try:
            r = orig(answers, student_input, **kw)
            raw.setdefault('status', 'ret')
            return r
        except BaseException as e:
            raw.setdefault('status', 'exc')
            raw.setdefault('exc', e)
            raise
    g.check = check
    np.random.seed(seed % (2 ** 32))
    t0 = time.time()
    try:
        kw = {} if attempt is None else {'attempt': attempt}
        status, val = core.guarded(g, None, inp, seconds=seconds, **kw)
    finally:
        del g.check
    # the library's `except Exception` also catches the harness alarm: recognise it
    if isinstance(raw.get('exc'), core.CallTimeout) or isinstance(val, core.CallTimeout):
        status = 'timeout'
    return {'status': status, 'val': val, 'called': raw['called'], 'raw_status': raw.get('status'), 'raw_exc': raw.get('exc'),
            'seconds': time.time() - t0}


PENDING = []        # witnesses found by the state check that runs after EVERY observed call (merged into the result by run)
IN_STATE_CHECK = [False]


def observe(g, inp, attempt=None, seed=0, tag=None):
    """call g(None, inp) with check wrapped on the instance; returns a record.  A call stopped by the 10 s alarm is repeated
    once with a 40 s alarm (a loaded machine must not be mistaken for non-termination).  tag = (zoo name, input spec, schedule):
    after the call the process-wide numpy error handling is checked, so that a call that leaves it changed is named."""
    rec = observe_once(g, inp, attempt, seed, 10)
    if rec['status'] == 'timeout':
        rec = observe_once(g, inp, attempt, seed, 40)
    if not IN_STATE_CHECK[0]:
        name, spec, schedule = tag if tag else (type(g).__name__, None, None)
        state_after_call(name, spec, attempt, schedule)
    return rec


GENERIC_SEP = r"(?:[\s:'\",;&.]|and){0,8}"


def names_submission(msg, texts):
    """the generic error: 'Invalid Input: Could not check input(s)' followed by the submitted text(s) VERBATIM, in order, with
    nothing but quotes / separators around them (the exact separators are not part of the property)"""
    pat = 'Invalid Input: Could not check inputs?' + GENERIC_SEP + GENERIC_SEP.join(re.escape(t) for t in texts) + GENERIC_SEP
    return re.fullmatch(pat, msg, re.S) is not None


def judge(mode, credit, attempt, inp, rec):
    """the property, stated on one implementation call (debug off).  Returns None or a description of the violation."""
    from mitxgraders.exceptions import MITxError, StudentFacingError, ConfigError
    st, val = rec['status'], rec['val']
    if st == 'timeout':
        return 'the call did not terminate within 10 s, nor within 40 s when repeated'
    if st == 'exc' and not isinstance(val, (StudentFacingError, ConfigError)):
        return 'an exception outside the library family escaped: %s: %s' % (type(val).__name__, str(val)[:200])
    if not shape_ok_py(mode, inp):
        if st != 'exc' or not isinstance(val, ConfigError):
            return 'input that is not text of the required shape was not refused with ConfigError: %r %s' % (st, str(val)[:200])
        if rec['called']:
            return 'input that is not text of the required shape was handed to check (graded) before being refused'
        return None
    if rec['called'] != 1:
        return 'check was consulted %d times for acceptable input' % rec['called']
    texts = [inp] if isinstance(inp, str) else list(inp)
    if rec['raw_status'] == 'ret':
        if st == 'ret':
            return None
        if credit and attempt is None and isinstance(val, ConfigError):
            return None
        return 'check returned a result but the call raised %s: %s' % (type(val).__name__, str(val)[:200])
    e0 = rec['raw_exc']
    if st != 'exc':
        return 'check raised %s but the call returned a result' % type(e0).__name__
    if isinstance(e0, MITxError):
        want = str(e0).replace('\n', '<br/>')
        if type(val) is not type(e0):
            return 'anticipated %s was replaced by %s' % (type(e0).__name__, type(val).__name__)
        if str(val) != want:
            return 'anticipated %s: message %r, expected %r' % (type(e0).__name__, str(val)[:200], want[:200])
        return None
    if type(val) is not StudentFacingError:
        return 'unanticipated %s was replaced by %s, not by the generic StudentFacingError' % (type(e0).__name__, type(val).__name__)
    msg = str(val)
    if not msg.startswith('Invalid Input: Could not check input'):
        return 'generic error text is %r' % msg[:200]
    if not names_submission(msg, texts):
        return 'generic error does not name the submission %r verbatim: %r' % ([t[:80] for t in texts], msg[:300])
    return None


# ------------------------------------------------------------------------------------------------
# anticipated problems: (zoo entry, input spec, class name, message) -- the documented class and text
# ------------------------------------------------------------------------------------------------
GENERIC = object()     # the generic error: 'Invalid Input: Could not check input(s) ...' naming what was submitted
DOMAIN = 'There was an error evaluating %s(...). Its input does not seem to be in its domain.'
ANTICIPATED = [
    ('Formula', '1/0', 'CalcZeroDivisionError', "Division by zero occurred. Check your input's denominators."),
    ('Formula', '0^-1', 'CalcZeroDivisionError', "Division by zero occurred. Check your input's denominators."),
    ('Formula', '10^400', 'CalcOverflowError', 'Numerical overflow occurred. Does your input generate very large numbers?'),
    ('Formula', '1e400', 'CalcOverflowError', 'Numerical overflow occurred. Does your expression generate very large numbers?'),
    ('Formula', 'exp(1000)', 'CalcOverflowError', 'There was an error evaluating exp(...). (Numerical overflow).'),
    ('Formula', 'ln(0)', 'CalcZeroDivisionError', DOMAIN % 'ln'),
    ('Formula', 'cot(0)', 'CalcZeroDivisionError', DOMAIN % 'cot'),
    ('Formula', 'fact(0.5)', 'FunctionEvalError', DOMAIN % 'fact'),
    ('Formula', 'arctan2(0,0)', 'FunctionEvalError', 'arctan2(0, 0) is undefined'),
    ('Formula', 'fact(-1)', 'FunctionEvalError',
     'Error evaluating factorial() or fact() in input. These functions cannot be used at negative integer values.'),
    ('Formula', '(1', 'UnbalancedBrackets',
     'Invalid Input:<br/>1 parenthesis was opened without being closed (highlighted below)<br/><code><mark>(</mark>1</code>'),
    ('Formula', '1)', 'UnbalancedBrackets',
     'Invalid Input: a parenthesis was closed without ever being opened, highlighted below.<br/><code>1<mark>)</mark></code>'),
    ('Formula', '[(1])', 'UnbalancedBrackets',
     'Invalid Input: a parenthesis was opened and then closed by a square bracket, highlighted below.<br/>'
     '<code>[<mark>(</mark>1<mark>]</mark>)</code>'),
    ('Formula', '1+', 'UnableToParse', "Invalid Input: Could not parse '1+' as a formula"),
    ('Formula', '1 +', 'UnableToParse', "Invalid Input: Could not parse '1 +' as a formula"),
    ('Formula', u'١', 'UnableToParse', u"Invalid Input: Could not parse '١' as a formula"),
    ('Formula', 'q', 'UndefinedVariable', "Invalid Input: 'q' not permitted in answer as a variable"),
    ('Formula', 'f(1)', 'UndefinedFunction', "Invalid Input: 'f' not permitted in answer as a function"),
    ('Formula', 'sin(1,2)', 'ArgumentError', 'Wrong number of arguments passed to sin(...): Expected 1 inputs, but received 2.'),
    ('Formula', '[1,2]', 'UnableToParse', 'Vector and matrix expressions have been forbidden in this entry.'),
    ('Formula', 'sin([1,2])', 'ArgumentShapeError',
     'There was an error evaluating function sin(...)<br/>1st input has an error: received a vector of length 2, expected a scalar'),
    ('Formula/user', 'bv(1)', 'FunctionEvalError', DOMAIN % 'bv'),
    ('Formula/user', 'bk(1)', 'FunctionEvalError', DOMAIN % 'bk'),
    ('Formula/user', 'bc(1)', 'FunctionEvalError', DOMAIN % 'bc'),
    ('Formula/user', 'bs(1)', 'InvalidInput', 'author says:<br/>no'),
    ('Formula/user', 'rinf(1)', 'CalcOverflowError', 'Numerical overflow occurred. Does your expression generate very large numbers?'),
    ('Formula/user', 'two(1)', 'ArgumentError', 'Wrong number of arguments passed to two(...): Expected 2 inputs, but received 1.'),
    ('Formula/user', 'bv(1/0)', 'CalcZeroDivisionError', "Division by zero occurred. Check your input's denominators."),
    ('Numerical', 'x', 'UndefinedVariable', "Invalid Input: 'x' not permitted in answer as a variable"),
    ('Matrix', '[1,2]+[1,2,3]', 'MathArrayShapeError', 'Cannot add/subtract a vector of length 2 with a vector of length 3.'),
    ('Matrix', '[[1,1],[1,1]]^-1', 'MathArrayError', 'Cannot raise singular matrix to negative powers.'),
    ('Matrix', '[1,2]^2', 'MathArrayShapeError', 'Cannot raise a vector to powers.'),
    ('Matrix', '[[[1]]]', 'UnableToParse', 'Tensor expressions have been forbidden in this entry.'),
    ('Matrix', 'det([[1,2]])', 'ArgumentShapeError',
     'There was an error evaluating function det(...)<br/>1st input has an error: received a matrix of shape (rows: 1, cols: 2), '
     'expected a square matrix'),
    ('Matrix', '1', 'InputTypeError', 'Expected answer to be a vector, but input is a scalar'),
    ('String/pattern', 'abc', 'InvalidInput', 'Your input is not in the expected format'),
    ('SingleList/str', 'a,,b', 'MissingInput', 'List error: Empty entry detected in position 2'),
    ('SingleList/formula', '1', 'MissingInput',
     'List length error: Expected 2 terms in the list, but received 1. Separate items with character ","'),
    ('SingleList/formula', '1,1/0', 'CalcZeroDivisionError', "Division by zero occurred. Check your input's denominators."),
    ('Interval', '<1,2)', 'InvalidInput', "Invalid opening bracket: '<'. Valid options are: '[', '('."),
    ('Sum', 'm', 'UndefinedVariable', "Invalid Input: 'm' not permitted in answer as a variable"),
    ('List/str', ['list', ['a']], 'ConfigError', 'The number of answers (2) and the number of inputs (1) are different'),
    ('List/grouped', ['list', ['1', '2', '3']], 'ConfigError', 'Grouping indicates 4 inputs are expected, but only 3 inputs exist.'),
    ('List/mixed', ['list', ['cat', '1/0', '[1,2]']], 'CalcZeroDivisionError', "Division by zero occurred. Check your input's denominators."),
    ('List/grouped', ['list', ['1', 'bs(1)', '3', '4']], 'InvalidInput', 'author says:<br/>no'),
    ('Echo', 'lib', 'InvalidInput', 'line one<br/>line two'),
    ('Echo', 'cfg', 'ConfigError', 'cfg one<br/>cfg two'),
    # unanticipated failures: the generic error naming the submission
    ('Echo', 'boom', 'StudentFacingError', GENERIC),
    ('Echo', 'deep', 'StudentFacingError', GENERIC),
    ('Echo', 'mem', 'StudentFacingError', GENERIC),
    ('Echo', ['list', ['a', 'boom', 'c']], 'StudentFacingError', GENERIC),
    ('Echo', 'boom x_{1}', 'StudentFacingError', GENERIC),
    ('Echo', 'boom a_{0}', 'StudentFacingError', GENERIC),
    ('Echo', 'boom {} %s {0}', 'StudentFacingError', GENERIC),
    ('Echo', ['list', ['T_{ab}', 'boom {0}']], 'StudentFacingError', GENERIC),
    ('Brace/matrix-parallel', '(x_{1})||[1,2]', 'StudentFacingError', GENERIC),
    ('Brace/formula-comparer', 'a_{0}*T_{ab}', 'StudentFacingError', GENERIC),
    ('Brace/string-regex', '{0.__class__}', 'StudentFacingError', GENERIC),
    ('Formula', '(' * 2500 + '1' + ')' * 2500, 'StudentFacingError', GENERIC),
    # input objects of the wrong kind: refused with a configuration error (the text is not part of the property)
    ('String', ['obj', 'int']) + ('ConfigError', None),
    ('String', ['obj', 'None']) + ('ConfigError', None),
    ('Formula', ['list', ['1']]) + ('ConfigError', None),
    ('Formula', ['obj', 'bytes']) + ('ConfigError', None),
    ('SingleList/str', ['list', ['a', 'b', 'c']]) + ('ConfigError', None),
    ('List/str', 'a') + ('ConfigError', None),
    ('List/str', ['obj', 'tuple']) + ('ConfigError', None),
    ('List/str', ['list', ['a', ['obj', 'int']]]) + ('ConfigError', None),
    ('List/str', ['list', [['list', ['a']], 'b']]) + ('ConfigError', None),
    ('Echo', ['obj', 'int']) + ('ConfigError', None),
    ('Echo', ['list', ['a', ['obj', 'None']]]) + ('ConfigError', None),
    ('Sum', ['obj', 'dict']) + ('ConfigError', None),
    ('Matrix', ['list', ['[1,2]']]) + ('ConfigError', None),
]


UNBALANCED = object()   # UnbalancedBrackets with its own 'Invalid Input: ...<code>...</code>' message, line breaks rendered


def unbalanced_kinds(d):
    """deeply nested, UNBALANCED texts of each kind (missing closer, extra closer, wrong closer type, mixed ([{ )"""
    k = d // 2
    return [('missing-sin', 'sin(' * d + '1' + ')' * (d - 1)), ('missing-sum', '(1+' * d + '1' + ')' * (d - 1)),
            ('missing-paren', '(' * d + '1' + ')' * (d - 1)), ('missing-square', '[' * d + '1' + ']' * (d - 1)),
            ('extra-paren', '(' * d + '1' + ')' * (d + 1)), ('extra-sin', 'sin(' * d + '1' + ')' * (d + 1)),
            ('wrong-paren', '(' * d + '1' + ')' * (d - 1) + ']'), ('wrong-sin', 'sin(' * d + '1' + ']' + ')' * (d - 1)),
            ('mixed-order', '([' * k + '1' + '])' * (k - 1) + ')]'), ('mixed-curly', '([{' * k + '1' + '}])' * (k - 1) + '}]')]


# how a formula text reaches every formula-parsing grader of the zoo (directly, inside single-box lists, inside ListGraders)
EMBED = [('Formula', lambda s: s), ('Formula/user', lambda s: s), ('Formula/restricted', lambda s: s), ('Formula/inf', lambda s: s),
         ('Formula/dependent', lambda s: s), ('Numerical', lambda s: s), ('Numerical/user', lambda s: s), ('Matrix', lambda s: s),
         ('Matrix/vars', lambda s: s), ('Matrix/quiet', lambda s: s), ('Matrix/noshape', lambda s: s), ('Matrix/partial', lambda s: s),
         ('Interval', lambda s: '[' + s + ',2)'), ('Interval/inf', lambda s: '(' + s + ',2]'), ('Sum', lambda s: s),
         ('Sum/limits', lambda s: ['list', ['1', '5', s, 'n']]), ('SingleList/formula', lambda s: s + ',2'),
         ('SingleList/nested', lambda s: s + ',2;3,4'), ('SingleList/matrix', lambda s: s + ';[3,4]'),
         ('List/formula-ordered', lambda s: ['list', [s, 'x', 'x^2']]), ('List/mixed', lambda s: ['list', ['cat', s, '[1,2]']]),
         ('List/grouped', lambda s: ['list', [s, '2', '3', '4']]), ('List/grouped-mixed', lambda s: ['list', ['a', s, '1,2', 'b', '3']]),
         ('List/siblings', lambda s: ['list', ['2', s]])]


def deep_unbalanced_rows(tier):
    """unbalanced text is an anticipated problem at ANY nesting depth: UnbalancedBrackets, never the generic error
    (deep BALANCED nesting legitimately ends in the generic error: RecursionError is unanticipated)"""
    rows = []
    depths = (50, 120, 400)
    for gi, (name, emb) in enumerate(EMBED):
        for di, d in enumerate(depths):
            kinds = unbalanced_kinds(d)
            for ki, (kind, text) in enumerate(kinds):
                if tier != 'quick' or name == 'Formula' or (ki + gi) % len(kinds) in ((0, 5) if d == 120 else (2 + di,)):
                    rows.append((name, emb(text), 'UnbalancedBrackets', UNBALANCED))
    return rows


RETURNS = object()       # the call must return a result


class Prefix(object):
    """expected message: starts with this text, line breaks rendered"""
    def __init__(self, text):
        self.text = text


_OPT_ZOO = None


def opt_zoo():
    """graders for the rows below: every kind of callable in scope; author-side option strings (brackets, delimiters, messages,
    variable names) that contain { } % \\ and end up in error messages.  name -> (mode, factory(debug))"""
    global _OPT_ZOO
    if _OPT_ZOO is not None:
        return _OPT_ZOO
    import numpy as np
    from mitxgraders import (FormulaGrader, NumericalGrader, MatrixGrader, SumGrader, IntervalGrader, SingleListGrader, ListGrader,
                             StringGrader, RandomFunction)
    from mitxgraders.helpers.calc import specify_domain

    @specify_domain(input_shapes=[1, 1])
    def dom2(x, y):
        return x * y

    @specify_domain(input_shapes=[[2], [2]], display_name='dotp')
    def dotp(u, v):
        return u * v
    plain = {'h': lambda x: x, 'h2': lambda x, y: x + y, 'dom2': dom2}
    rnd = {'rf': RandomFunction(), 'rf2': RandomFunction(input_dim=2), 'rf3': RandomFunction(input_dim=3, output_dim=2),
           'sf': [np.sin, np.cos]}
    both = dict(plain, **rnd)
    Z = {
        'Opt/formula-funcs': (ITEM, lambda d: FormulaGrader(answers='1', variables=['x'], user_functions=both, debug=d)),
        'Opt/numerical-funcs': (ITEM, lambda d: NumericalGrader(answers='1', user_functions=plain, debug=d)),
        'Opt/matrix-funcs': (ITEM, lambda d: MatrixGrader(answers='1', variables=['x'], user_functions=dict(both, dotp=dotp),
                                                          max_array_dim=2, debug=d)),
        'Opt/sum-funcs': (BOTH, lambda d: SumGrader(answers={'lower': '1', 'upper': '3', 'summand': 'n', 'summation_variable': 'n'},
                                                    input_positions={'summand': 1}, user_functions=both, debug=d)),
        'Opt/singlelist-funcs': (ITEM, lambda d: SingleListGrader(answers=['1', '2'], delimiter=';',
                                                                  subgrader=FormulaGrader(user_functions=both), debug=d)),
        'Opt/list-funcs': (LIST, lambda d: ListGrader(answers=['1', '2'], subgraders=FormulaGrader(user_functions=both), ordered=True,
                                                      debug=d)),
        'Opt/string-msg': (ITEM, lambda d: StringGrader(answers='12', validation_pattern=r'\d+',
                                                        invalid_msg='Use {digits} only, 100% {0} \\ please', debug=d)),
        'Opt/formula-names': (ITEM, lambda d: FormulaGrader(answers='x', variables=['x', 'a_{1}', 'T_{ab}'], debug=d)),
    }
    from mitxgraders import RealMatrices, RealVectors

    def mops(**kw):
        return MatrixGrader(variables=['A', 'v'], sample_from={'A': RealMatrices(shape=[2, 2]), 'v': RealVectors(shape=2)},
                            max_array_dim=2, **kw)
    Z['Opt/matrix-ops'] = (ITEM, lambda d: mops(answers='A', debug=d))
    Z['Opt/matrix-ops/quiet'] = (ITEM, lambda d: mops(answers='A', suppress_matrix_messages=True, debug=d))
    Z['Opt/matrix-ops/singlelist'] = (ITEM, lambda d: SingleListGrader(answers=['A', 'v'], delimiter=';', ordered=True, subgrader=mops(), debug=d))
    Z['Opt/matrix-ops/list'] = (LIST, lambda d: ListGrader(answers=['A', 'v'], subgraders=mops(), ordered=True, debug=d))
    for i, (ob, cb) in enumerate(BRACKET_SETS):
        Z['Opt/interval-%d' % i] = (ITEM, lambda d, ob=ob, cb=cb: IntervalGrader(
            answers=ob[0] + '1,2' + cb[0], opening_brackets=ob, closing_brackets=cb, debug=d))
        Z['Opt/interval-%d/singlelist' % i] = (ITEM, lambda d, ob=ob, cb=cb: SingleListGrader(
            answers=[ob[0] + '1,2' + cb[0], ob[0] + '3,4' + cb[0]], delimiter=';', ordered=True,
            subgrader=IntervalGrader(opening_brackets=ob, closing_brackets=cb), debug=d))
        Z['Opt/interval-%d/list' % i] = (LIST, lambda d, ob=ob, cb=cb: ListGrader(
            answers=[ob[0] + '1,2' + cb[0], ob[0] + '3,4' + cb[0]], ordered=True,
            subgraders=IntervalGrader(opening_brackets=ob, closing_brackets=cb), debug=d))
    for i, dl in enumerate(DELIMITERS):
        Z['Opt/delimiter-%d' % i] = (ITEM, lambda d, dl=dl: SingleListGrader(answers=['a', 'b'], subgrader=StringGrader(), delimiter=dl,
                                                                            length_error=True, debug=d))
    _OPT_ZOO = Z
    return Z


BRACKET_SETS = [('[(', ')]'), ('([{', ')]}'), ('{', '}'), ('[(<{', '])>}'), ('%(', '%)'), ('\\[', '\\]'), ('{[', '}]'), ('(', ')')]
DELIMITERS = ['{', '}', '%', '\\', ';', '|']
ARITY = {'sin': 1, 'cos': 1, 'sqrt': 1, 'exp': 1, 'abs': 1, 'fact': 1, 're': 1, 'arctan2': 2, 'kronecker': 2, 'ln': 1, 'arcsinh': 1}
ARITY_USER = {'h': 1, 'h2': 2, 'dom2': 2, 'rf': 1, 'rf2': 2, 'rf3': 3, 'sf': 1}
ARITY_MATRIX = {'det': 1, 'norm': 1, 'trans': 1, 'cross': 2, 'dotp': 2, 'adj': 1}


def option_rows(tier):
    """expected outcomes computed from the configuration by the documented rules (not recorded from the implementation):
    a call with the wrong number of arguments is an ArgumentError naming the function and both counts, whatever kind of callable it
    is; a wrongly shaped argument to a domain-checked function is an ArgumentShapeError; a bracket outside the configured set is an
    InvalidInput listing the configured options; the list-length error quotes the configured delimiter; author messages and
    subscripted names appear verbatim"""
    rows = []
    ARG = 'Wrong number of arguments passed to %s(...): Expected %d inputs, but received %d.'
    counts = (1, 2, 3) if tier == 'quick' else (1, 2, 3, 4, 6)

    def arity_rows(name, emb, table, arg='1'):
        for fn, k in sorted(table.items()):
            for m in counts:
                if m != k:
                    rows.append((name, emb('%s(%s)' % (fn, ','.join([arg] * m))), 'ArgumentError', ARG % (fn, k, m)))
            rows.append((name, emb('%s()' % fn), 'UnableToParse', Prefix('Invalid Input: Could not parse ')))
    ident = lambda t: t
    arity_rows('Opt/formula-funcs', ident, dict(ARITY, **ARITY_USER))
    arity_rows('Opt/numerical-funcs', ident, dict(ARITY, h=1, h2=2, dom2=2))
    arity_rows('Opt/matrix-funcs', ident, dict(ARITY_USER, **ARITY_MATRIX), arg='[1,2]')
    arity_rows('Opt/matrix-funcs', ident, ARITY)
    arity_rows('Opt/sum-funcs', ident, ARITY_USER)
    arity_rows('Opt/singlelist-funcs', lambda t: '1;' + t, ARITY_USER)
    arity_rows('Opt/list-funcs', lambda t: ['list', ['1', t]], ARITY_USER)
    for fn in ('min', 'max'):
        rows.append(('Opt/formula-funcs', '%s(1)' % fn, 'ArgumentError',
                     'Wrong number of arguments passed to %s(...): Expected at least 2 inputs, but received 1.' % fn))
    SHAPE = 'There was an error evaluating function %s(...)<br/>'
    for text, fn in [('sin([1,2])', 'sin'), ('sqrt([[1,2],[3,4]])', 'sqrt'), ('arctan2([1,2],1)', 'arctan2'), ('det(1)', 'det'),
                     ('det([1,2])', 'det'), ('dotp(1,2)', 'dotp'), ('dotp([1,2],[1,2,3])', 'dotp'), ('dom2([1,2],1)', 'dom2'),
                     ('cross([1,2],[1,2])', 'cross')]:
        rows.append(('Opt/matrix-funcs', text, 'ArgumentShapeError', Prefix(SHAPE % fn)))
    # matrix operation errors with complex-typed operands / exponents: a complex exponent is not an integer power, a complex scalar is
    # a scalar for the shape rules, a complex entry does not change a shape
    NONINT = 'Cannot raise a matrix to non-integer powers.'
    cplx = ['i', 'j', '1+i', '2+0*i', '-i', '0.5*i', 'i*i', '(1-i)']
    mat_rows = [('%s^(%s)' % (b, e), 'MathArrayError', NONINT) for b in ('A', '[[1,2],[3,4]]', '[[1,i],[i,1]]', '(A*A)') for e in cplx]
    for c in ('i', '1+i', '2+0*i'):
        mat_rows += [('v^(%s)' % c, 'MathArrayShapeError', 'Cannot raise a vector to powers.'),
                     ('(%s)^v' % c, 'MathArrayShapeError', 'Cannot raise a scalar to power of a vector.'),
                     ('(%s)^A' % c, 'MathArrayShapeError', 'Cannot raise a scalar to power of a matrix.'),
                     ('v+%s' % c, 'MathArrayShapeError', 'Cannot add/subtract scalars to a vector.'),
                     ('A-(%s)' % c, 'MathArrayShapeError', 'Cannot add/subtract scalars to a matrix.'),
                     ('(%s)/v' % c, 'MathArrayShapeError', 'Cannot divide by a vector'),
                     ('det(%s)' % c, 'ArgumentShapeError', Prefix(SHAPE % 'det')),
                     ('sin([%s,1])' % c, 'ArgumentShapeError', Prefix(SHAPE % 'sin')),
                     ('A*[%s,1,0]' % c, 'MathArrayShapeError',
                      'Cannot multiply a matrix of shape (rows: 2, cols: 2) with a vector of length 3.')]
    for text, cls, msg in mat_rows:
        rows.append(('Opt/matrix-ops', text, cls, msg))
    for text, cls, msg in mat_rows[::3]:
        rows.append(('Opt/matrix-ops/singlelist', text + ';v', cls, msg))
        rows.append(('Opt/matrix-ops/list', ['list', [text, 'v']], cls, msg))
    for text, cls, msg in mat_rows[:len(cplx) * 2:2]:
        rows.append(('Opt/matrix-ops/quiet', text, None, RETURNS))       # suppressed: graded as wrong, not raised
    # brackets
    for i, (ob, cb) in enumerate(BRACKET_SETS):
        opts_o = ', '.join("'%s'" % c for c in ob)
        opts_c = ', '.join("'%s'" % c for c in cb)
        for bad in '<|{[(%\\a}':
            if bad not in ob:
                msg = "Invalid opening bracket: '%s'. Valid options are: %s." % (bad, opts_o)
                rows.append(('Opt/interval-%d' % i, bad + '1,2' + cb[0], 'InvalidInput', msg))
                if tier != 'quick' or bad in '<{':
                    rows.append(('Opt/interval-%d/singlelist' % i, ob[0] + '1,2' + cb[0] + ';' + bad + '3,4' + cb[0], 'InvalidInput', msg))
                    rows.append(('Opt/interval-%d/list' % i, ['list', [bad + '1,2' + cb[0], ob[0] + '3,4' + cb[0]]], 'InvalidInput', msg))
        for bad in '>|}])%\\a{':
            if bad not in cb:
                msg = "Invalid closing bracket: '%s'. Valid options are: %s." % (bad, opts_c)
                rows.append(('Opt/interval-%d' % i, ob[0] + '1,2' + bad, 'InvalidInput', msg))
                if tier != 'quick' or bad in '>}':
                    rows.append(('Opt/interval-%d/list' % i, ['list', [ob[0] + '1,2' + cb[0], ob[0] + '3,4' + bad]], 'InvalidInput', msg))
    # delimiters
    for i, dl in enumerate(DELIMITERS):
        for text, n in (('a', 1), ('a' + dl + 'b' + dl + 'c', 3), ('', 1)):
            rows.append(('Opt/delimiter-%d' % i, text, 'MissingInput',
                         'List length error: Expected 2 terms in the list, but received %d. Separate items with character "%s"' % (n, dl)))
        rows.append(('Opt/delimiter-%d' % i, 'a' + dl + ' ', 'MissingInput', 'List error: Empty entry detected in position 2'))
    rows.append(('Opt/string-msg', 'ab', 'InvalidInput', 'Use {digits} only, 100% {0} \\ please'))
    for v in ('b_{1}', 'a_{2}', 'T_{a}', 'x_{1}^{2}'):
        rows.append(('Opt/formula-names', v, 'UndefinedVariable', "Invalid Input: '%s' not permitted in answer as a variable" % v))
    return rows


def anticipated_rows(tier):
    return ANTICIPATED + deep_unbalanced_rows(tier) + option_rows(tier)


_BRACE_ZOO = None
BRACE_VARS = ['x_{1}', 'T_{ab}', 'y']
META_TEXTS = ['{}', '{0}', '{1}', '{x}', '{0}{1}', '{{}}', '{{0}}', '{!r}', '{:d}', '{0.__class__}', '{0[0]}', '{', '}', '}{', '%s', '%d', '%(a)s',
              '%', '100%', '%%', '$x', '${x}', '\\', '\\n', '{0!s:>10}', 'x_{1}', 'T_{ab}', 'a_{0}', 'x_{1}*T_{ab}', '{a}_{b}']


def brace_zoo():
    """single-box graders of every class in which an UNANTICIPATED (non-library) failure is reachable with submissions that
    contain subscripted names x_{1}, T_{ab}, a_{0} and other format-string metacharacters:
    (name, factory(debug), valid names, wrap: formula-with-braces -> input that reaches the failure)"""
    global _BRACE_ZOO
    if _BRACE_ZOO is not None:
        return _BRACE_ZOO
    from mitxgraders import (StringGrader, FormulaGrader, NumericalGrader, MatrixGrader, IntervalGrader, SumGrader, SingleListGrader,
                             IntegralGrader)
    from mitxgraders.sampling import VariableSamplingSet
    from voluptuous import Schema

    def bad_comparer(comparer_params_eval, student_eval, utils):
        raise ValueError('author comparer bug')

    class BadSampler(VariableSamplingSet):
        schema_config = Schema({})

        def gen_sample(self):
            raise RuntimeError('author sampling set bug')
    V = BRACE_VARS
    F = {'rstr': lambda x: 'text'}
    bad = {'comparer': bad_comparer, 'comparer_params': ['1']}
    ident = lambda t: t
    Z = [
        ('Brace/formula-comparer', lambda d: FormulaGrader(answers=bad, variables=V, numbered_vars=['a'], debug=d), V + ['a_{0}', 'a_{12}'], ident),
        ('Brace/numerical-comparer', lambda d: NumericalGrader(answers=bad, user_constants={'c_{1}': 2.0, 'T_{ab}': 3.0}, debug=d),
         ['c_{1}', 'T_{ab}'], ident),
        ('Brace/matrix-parallel', lambda d: MatrixGrader(answers='[1,2]', variables=V, numbered_vars=['a'], max_array_dim=2, debug=d),
         V + ['a_{0}'], lambda t: '(%s)||[1,2]' % t),
        ('Brace/matrix-comparer', lambda d: MatrixGrader(answers={'comparer': bad_comparer, 'comparer_params': ['[1,2]']}, variables=V,
                                                         numbered_vars=['a'], max_array_dim=2, debug=d), V + ['a_{0}'], ident),
        ('Brace/sampler', lambda d: FormulaGrader(answers='1', variables=V, numbered_vars=['a'], sample_from={'y': BadSampler()}, debug=d),
         V + ['a_{0}'], ident),
        ('Brace/userfunc', lambda d: FormulaGrader(answers='1', variables=V, numbered_vars=['a'], user_functions=F, debug=d),
         V + ['a_{1}'], lambda t: 'rstr(1)+%s' % t),
        ('Brace/interval', lambda d: IntervalGrader(answers='[1,2)', subgrader=FormulaGrader(variables=V, user_functions=F), debug=d),
         V, lambda t: '[rstr(1)*%s,2)' % t),
        ('Brace/sum', lambda d: SumGrader(answers={'lower': '1', 'upper': '3', 'summand': 'n', 'summation_variable': 'n'},
                                          input_positions={'summand': 1}, variables=V, user_functions=F, debug=d), V, lambda t: 'rstr(1)*%s' % t),
        ('Brace/singlelist', lambda d: SingleListGrader(answers=['1', '2'], subgrader=FormulaGrader(variables=V, user_functions=F), debug=d),
         V, lambda t: 'rstr(%s),T_{ab}' % t),
        ('Brace/integral', lambda d: IntegralGrader(answers={'lower': '0', 'upper': '1', 'integrand': 'x', 'integration_variable': 'x'},
                                                    input_positions={'integrand': 1}, variables=V, debug=d), V, ident),
        ('Brace/string-regex', lambda d: StringGrader(answers='a', validation_pattern='(', debug=d), None, ident),
        ('Echo', dict((n, f) for n, m, f, c in zoo())['Echo'], None, lambda t: 'boom ' + t),
    ]
    _BRACE_ZOO = Z
    return Z


def brace_formulas(rng, names, extra):
    a = names[0]
    b = names[1 % len(names)]
    out = [a, b, names[-1], '%s*%s' % (a, b), '%s^2' % a, '%s+%s' % (names[-1], a), '-%s/%s' % (a, b), '2*%s' % a, '%s^%s' % (a, b),
           '(%s)' % a, 'sin(%s)' % b]
    for _ in range(extra):
        k = rng.randint(1, 4)
        out.append(rng.choice(['', '-']) + rng.choice('*+/-').join(rng.choice(names) for _ in range(k)))
    return out


def run_braces(ctx, res, rng):
    """unanticipated failures on submissions full of format-string metacharacters: the generic error must name them verbatim"""
    quick = ctx['tier'] == 'quick'
    picked = []
    outcomes = {}
    n_generic = 0
    for name, factory, names, wrap in brace_zoo():
        st, g = core.guarded(factory, False)
        if st != 'ret':
            res.witnesses.append({'key': 'construct:' + name, 'kind': 'construct', 'grader': name, 'what': 'could not be built: %r' % (g,)})
            continue
        texts = [wrap(t) for t in META_TEXTS] if names is None else \
            [wrap(f) for f in brace_formulas(rng, names, 4 if quick else 40)] + [wrap(t) for t in META_TEXTS[:6]]
        seen_sig = {}
        for i, t in enumerate(texts):
            rec = observe(g, t, seed=ctx['seed'] + i, tag=(name, t, None))
            res.oracle_evals += 1
            what = judge(BOTH if name in ('Echo', 'Brace/sum', 'Brace/integral') else ITEM, False, None, t, rec)
            if what:
                res.witnesses.append({'key': 'braces:%s:%r' % (name, t), 'kind': 'call', 'grader': name, 'input': t, 'attempt': None, 'what': what})
            k = type(rec['val']).__name__ if rec['status'] == 'exc' else rec['status']
            generic = rec['status'] == 'exc' and rec['raw_status'] == 'exc' and type(rec['raw_exc']).__module__.split('.')[0] != 'mitxgraders'
            n_generic += bool(generic)
            outcomes[k] = outcomes.get(k, 0) + 1
            if generic:
                res.nontrivial.add(('braces', name, t))
            sig = (k, generic)
            if seen_sig.get(sig, 0) < (3 if quick else 12) and rec['status'] != 'timeout':
                seen_sig[sig] = seen_sig.get(sig, 0) + 1
                mode = 2 if name in ('Echo', 'Brace/sum', 'Brace/integral') else 0
                picked.append((mode, False, False, None, t, t, rec, name))
    res.distribution['brace_stream_outcomes'] = outcomes
    res.distribution['brace_stream_unanticipated_failures'] = n_generic
    pool_reset()
    terms, metas = [], []
    for args in picked:
        add_call_case(terms, metas, *args)
    coq_eval(res, 'c02_brace', 'call_case', terms, metas, 'nat * bool * bool * option Z * pyval * raw * fin', 'call', 2)


def zoo_entry(name):
    if name.startswith('Opt/'):
        mode, f = opt_zoo()[name]
        return mode, f, False
    if name.startswith('Brace/'):
        for n, f, names, wrap in brace_zoo():
            if n == name:
                return (BOTH if n in ('Brace/sum', 'Brace/integral') else ITEM), f, False
    for n, m, f, c in zoo():
        if n == name:
            return m, f, c
    raise KeyError(name)


def check_anticipated(row):
    name, spec, cls, msg = row
    mode, factory, credit = zoo_entry(name)
    g = factory(False)
    inp = build_object(spec)
    rec = observe(g, inp, attempt=1 if credit else None, seed=12345, tag=(name, spec, None))
    st, val = rec['status'], rec['val']
    if msg is RETURNS:
        return None if st == 'ret' else 'expected a result, the call %s' % (
            'raised %s: %s' % (type(val).__name__, str(val)[:200]) if st == 'exc' else 'timed out')
    if st != 'exc':
        return 'expected %s, the call %s' % (cls, 'returned %r' % (val,) if st == 'ret' else 'timed out')
    if type(val).__name__ != cls:
        return 'expected %s, got %s: %s' % (cls, type(val).__name__, str(val)[:200])
    if msg is GENERIC:
        texts = [inp] if isinstance(inp, str) else list(inp)
        got = str(val)
        if not got.startswith('Invalid Input: Could not check input'):
            return 'generic error text is %r' % got[:200]
        if not names_submission(got, texts):
            return 'generic error does not name the submission %r verbatim: %r' % ([t[:80] for t in texts], got[:300])
    elif isinstance(msg, Prefix):
        got = str(val)
        if not got.startswith(msg.text) or '\n' in got:
            return 'expected a message starting with %r, got %r' % (msg.text, got[:300])
    elif msg is UNBALANCED:
        got = str(val)
        if not (got.startswith('Invalid Input:') and got.endswith('</code>') and '<mark>' in got and '\n' not in got):
            return 'UnbalancedBrackets message is %r' % got[:200]
    elif msg is not None and str(val) != msg:
        return 'expected message %r, got %r' % (msg[:300], str(val)[:300])
    return None



def coq_eval(res, tag, fn, terms, metas, case_type, kind, nshards):
    """evaluate `fn case = true` for all case terms inside Coq (model interpreters on the regenerated tables)"""
    hdr, terms = finish(terms)
    shard = max(40, (len(terms) + nshards - 1) // nshards)
    for attempt in range(3):
        n, failing, errors = core.eval_agreement(tag, HEADER + AGREE_DEFS + hdr, fn, terms, shard=shard, case_type=case_type)
        if not errors:
            break
        # a case file that does not compile at all is usually a concurrent rebuild of the shared .vo files: try again
        res.notes.append('%s: %d case file(s) did not evaluate on attempt %d: %s' % (tag, len(errors), attempt + 1, errors[0][1][-300:]))
        time.sleep(5 + 10 * attempt)
    res.programs += n
    res.corr_errors += errors
    for i in failing[:12]:
        res.disagreements.append(dict(metas[i], kind=kind))
    if len(failing) > 12:
        res.disagreements.append({'kind': kind, 'more': len(failing) - 12})
    pool_reset()


# ------------------------------------------------------------------------------------------------
# streams
# ------------------------------------------------------------------------------------------------
def gen_input(rng, name, mode):
    """(input object, JSON-able spec)"""
    r = rng.random()
    as_list = mode == LIST or (mode == BOTH and rng.random() < 0.5)
    if r < 0.06:           # wrong kind of object
        label = rng.choice(nontext_objects())[0]
        spec = ['obj', label]
    elif r < 0.10:         # wrong nesting
        k = rng.randint(0, 4)
        items = [rng.choice(CORPUS) for _ in range(k)]
        if as_list:
            if rng.random() < 0.5 or mode == LIST:
                pos = rng.randint(0, k)
                items.insert(pos, rng.choice([['obj', rng.choice(nontext_objects())[0]], ['list', [rng.choice(CORPUS)]], ['list', []]]))
                spec = [rng.choice(['list', 'list', 'listsub']), items]
            else:
                spec = rng.choice(CORPUS)
        else:
            spec = [rng.choice(['list', 'list', 'listsub']), items] if mode == ITEM and rng.random() < 0.8 else ['strsub', rng.choice(CORPUS)]
    elif as_list:
        k = LIST_SIZES.get(name, 2) if rng.random() < 0.8 else rng.randint(0, 6)
        spec = ['list', [gen_text(rng) if rng.random() < 0.55 else rng.choice(CORPUS) for _ in range(k)]]
    else:
        spec = gen_listy(rng) if ('SingleList' in name or 'Interval' in name) and rng.random() < 0.6 else gen_text(rng)
    return build_object(spec), spec


def add_call_case(terms, metas, mode, debug, credit, attempt, inp, spec, rec, name):
    if rec['status'] == 'timeout':
        return
    if rec['called'] == 0:
        raw = 'RawNone'
    elif rec['raw_status'] == 'ret':
        raw = 'RawRet'
    else:
        e0 = rec['raw_exc']
        raw = '(RawExc %s %s)' % (cnames(mro_names(e0)), ctext(str(e0)))
    terms.append('(%d%%nat, %s, %s, %s, %s, %s, %s)' % (mode, boollit(debug), boollit(credit), optlit(attempt, zlit), pyval_term(inp), raw,
                                                       fin_term(rec['status'], rec['val'])))
    metas.append({'grader': name, 'debug': debug, 'input': spec, 'attempt': attempt})


def run_calls(ctx, res, rng):
    quick = ctx['tier'] == 'quick'
    n_random = (2500 if ctx['escalate'] else 1500) if quick else 12000
    per_signature = (4 if ctx['escalate'] else 3) if quick else 20
    Z = zoo()
    graders = {}
    for name, mode, factory, credit in Z:
        st, g = core.guarded(factory, False)
        st2, gd = core.guarded(factory, True)
        if st != 'ret' or st2 != 'ret':
            res.witnesses.append({'key': 'construct:' + name, 'kind': 'construct', 'grader': name,
                                  'what': 'zoo grader could not be constructed: %r' % (g,)})
            continue
        graders[name] = (mode, g, gd, credit)
    kinds = {}
    finals = {}
    slow = 0.0
    work = []          # (name, spec, attempt)
    labels = [l for l, _ in nontext_objects()]
    # 1. corpus x every grader, non-text objects x every grader, deep strings x a few graders
    for gi, (name, (mode, g, gd, credit)) in enumerate(sorted(graders.items())):
        for s in (CORPUS[:45] if quick else CORPUS) + (PERTURB if (not quick or name.startswith(('Cmp', 'Matrix', 'Formula', 'Numerical')))
                                                       else PERTURB[:4]):
            work.append((name, s if mode != LIST else ['list', [s] * LIST_SIZES.get(name, 2)], 1 if credit else None))
        mine = labels if (not quick or name in ('String', 'List/str', 'Echo')) else [labels[(gi * 5 + k) % len(labels)] for k in range(6)]
        for label in mine:
            work.append((name, ['obj', label], None))
            work.append((name, ['list', ['a', ['obj', label]]], None))
        work.append((name, ['list', []], None))
        work.append((name, ['list', ['a', 'b']], None))
        work.append((name, ['listsub', ['a', 'b']], None))
        work.append((name, ['strsub', 'a'], None))
        work.append((name, ['list', [['list', ['a']], 'b']], None))
        work.append((name, 'a', None))
    deep = deep_strings(ctx['tier'])
    for name in ('Formula', 'Matrix/vars', 'SingleList/nested', 'Interval', 'String', 'Sum'):
        if name in graders:
            for s in (deep_strings(ctx['tier'], max_n=100) if name.startswith('SingleList') else deep):
                work.append((name, s, None))
    for name in ('List/formula-ordered', 'Echo'):
        if name in graders:
            for s in deep[::3]:
                work.append((name, ['list', [s] * LIST_SIZES[name]], None))
    names = sorted(graders)
    for _ in range(n_random):
        name = rng.choice(names)
        mode, g, gd, credit = graders[name]
        _, spec = gen_input(rng, name, mode)
        attempt = rng.choice([None, 1, 2, 5]) if credit else None
        work.append((name, spec, attempt))
    from mitxgraders.exceptions import StudentFacingError
    chosen = {}        # signature -> number of correspondence cases taken
    picked = []        # (mode, debug, credit, attempt, inp, spec, rec, name)
    with Recorder() as recorder:
        for i, (name, spec, attempt) in enumerate(work):
            mode, g, gd, credit = graders[name]
            inp = build_object(spec)
            rec = observe(g, inp, attempt=attempt, seed=ctx['seed'] * 7919 + i, tag=(name, spec, None))
            res.oracle_evals += 1
            slow = max(slow, rec['seconds'])
            what = judge(mode, credit, attempt, inp, rec)
            if what:
                res.witnesses.append({'key': 'call:%s:%r' % (name, spec if len(repr(spec)) < 300 else hash(repr(spec))), 'kind': 'call',
                                      'grader': name, 'input': spec, 'attempt': attempt, 'what': what})
            k = ('refused' if rec['called'] == 0 else 'returned' if rec['status'] == 'ret' else
                 'generic' if type(rec['val']) is StudentFacingError and not isinstance(rec['raw_exc'], StudentFacingError) else 'anticipated')
            kinds[k] = kinds.get(k, 0) + 1
            if rec['status'] == 'exc':
                cn = type(rec['val']).__name__
                finals[cn] = finals.get(cn, 0) + 1
            if rec['status'] == 'exc' and rec['called']:
                res.nontrivial.add((name, repr(spec)[:200]))
            elif rec['called'] == 0:
                res.nontrivial.add((name, 'refused', repr(spec)[:200]))
            # correspondence: a bounded number of cases per (grader, kind of input, raw class, final class)
            size = len(repr(spec))
            if size < (700 if quick else 3000) and rec['status'] != 'timeout':
                sig = (name, spec[0] if isinstance(spec, list) else 'text', spec[1] if isinstance(spec, list) and spec[0] == 'obj' else None,
                       type(rec['raw_exc']).__name__ if rec['raw_status'] == 'exc' else rec['raw_status'],
                       type(rec['val']).__name__ if rec['status'] == 'exc' else 'ret', '\n' in str(rec['val']) if rec['status'] == 'exc' else None)
                if chosen.get(sig, 0) < per_signature or what:
                    chosen[sig] = chosen.get(sig, 0) + 1
                    picked.append((mode, False, credit, attempt, inp, spec, rec, name))
                    if chosen[sig] == 1 and k != 'refused':      # the debug branch of the handler (raw re-raise), correspondence only
                        recd = observe(gd, build_object(spec), attempt=attempt, seed=ctx['seed'] * 7919 + i, tag=(name + ' (debug)', spec, None))
                        picked.append((mode, True, credit, attempt, inp, spec, recd, name))
    res.distribution['calls'] = len(work)
    res.distribution['call_outcomes'] = kinds
    res.distribution['escaping_classes'] = finals
    res.distribution['slowest_call_s'] = round(slow, 3)
    res.distribution['grader_configurations'] = len(graders)
    res.distribution['call_correspondence_signatures'] = len(chosen)
    pool_reset()
    terms, metas = [], []
    for args in picked:
        add_call_case(terms, metas, *args)
    res.samples.append({'call': metas[len(metas) // 2] if metas else None})
    coq_eval(res, 'c02_call', 'call_case', terms, metas, 'nat * bool * bool * option Z * pyval * raw * fin', 'call', 12 if quick else 16)
    return recorder.sites


def run_sites(ctx, res, sites):
    pool_reset()
    terms, metas = [], []
    for (site, name, rmro, rmsg, fmro, fmsg), count in sorted(sites.items()):
        if not all(ord(c) < 0x110000 for c in name):
            continue
        terms.append('(%d%%nat, %s, (%s, %s), (%s, %s))' % (site, ctext(name), cnames(rmro), ctext(rmsg), cnames(fmro), ctext(fmsg)))
        metas.append({'site': ['eval_function', 'eval'][site], 'name': name, 'raw': rmro[0], 'final': fmro[0], 'seen': count})
    res.distribution['except_clause_invocations_distinct'] = len(terms)
    res.distribution['except_clause_recasts'] = sum(1 for m in metas if m['raw'] != m['final'])
    if metas:
        res.samples.append({'except_site': metas[len(metas) // 3]})
    coq_eval(res, 'c02_site', 'site_case', terms, metas, 'nat * cstr * (list string * cstr) * (list string * cstr)', 'except-clause', 2)


def run_expect(ctx, res):
    """answer inference from `expect` happens before the guarded region (outside the property's quantifier, which ranges over
    student input): tie the model's item_call to ItemGrader.__call__, with the validation of the inferred answers as oracle"""
    from mitxgraders import StringGrader, FormulaGrader, NumericalGrader, SingleListGrader
    factories = [('String', lambda: StringGrader()), ('Formula', lambda: FormulaGrader()), ('Numerical', lambda: NumericalGrader()),
                 ('SingleList', lambda: SingleListGrader(subgrader=StringGrader())),
                 ('String/configured', lambda: StringGrader(answers='dog'))]
    expects = [None, 'cat', '1+1', '1+', '', 5, ['a', 'b'], {'expect': 'cat'}, {'bad': 1}, True, 2.5]
    inputs = ['cat', '2', '1/0', ['obj', 'int'], ['list', ['a']]]
    pool_reset()
    terms, metas = [], []
    escaped = {}
    for name, factory in factories:
        for expect in expects:
            for spec in inputs:
                g, twin = factory(), factory()
                given = expect is not None and not twin.config['answers']
                inf = None
                if given:
                    def validate():
                        a = twin.schema_answers(twin.infer_from_expect(expect))
                        return twin.post_schema_ans_val(a)
                    st, val = core.guarded(validate)
                    if st == 'exc':
                        inf = val
                inp = build_object(spec)
                raw = {'called': 0}
                orig = g.check

                def check(answers, student_input, **kw):
                    raw['called'] += 1
                    try:
                        r = orig(answers, student_input, **kw)
                        raw['status'] = 'ret'
                        return r
                    except BaseException as e:
                        raw['status'], raw['exc'] = 'exc', e
                        raise
                g.check = check
                st, val = core.guarded(g, expect, inp)
                res.oracle_evals += 1
                if st == 'timeout':
                    continue
                r = 'RawNone' if not raw['called'] else 'RawRet' if raw['status'] == 'ret' else \
                    '(RawExc %s %s)' % (cnames(mro_names(raw['exc'])), ctext(str(raw['exc'])))
                terms.append('(%s, %s, %s, %s, %s)' % (boollit(given), 'None' if inf is None else '(Some %s)' % exc_pair(inf),
                                                       pyval_term(inp), r, fin_term(st, val)))
                metas.append({'grader': name, 'expect': repr(expect), 'input': spec})
                if st == 'exc':
                    k = type(val).__name__
                    escaped[k] = escaped.get(k, 0) + 1
    res.distribution['expect_inference_cases'] = len(terms)
    res.distribution['expect_inference_escaping_classes (outside the property)'] = escaped
    coq_eval(res, 'c02_expect', 'expect_case', terms, metas, 'bool * option (list string * cstr) * pyval * raw * fin', 'expect', 2)


def small_objects(max_len):
    atoms = ['a', '', ['obj', 'int'], ['obj', 'None'], ['obj', 'bytes'], ['list', ['a']]]
    out = ['a', '', 'text with\nnewline', ['obj', 'int'], ['obj', 'None'], ['obj', 'tuple'], ['obj', 'bytes'], ['obj', 'dict'], ['strsub', 'x']]
    lists = [[]]
    frontier = [[]]
    for _ in range(max_len):
        frontier = [l + [a] for l in frontier for a in atoms]
        lists += frontier
    out += [['list', l] for l in lists]
    out += [['listsub', ['a']], ['listsub', [['obj', 'int']]]]
    return out


def run_ensure(ctx, res):
    """AbstractGrader.ensure_text_inputs itself, all four flag combinations, all small objects"""
    from mitxgraders.baseclasses import AbstractGrader, ItemGrader
    from mitxgraders.listgrader import ListGrader
    from mitxgraders.exceptions import ConfigError
    quick = ctx['tier'] == 'quick'
    objs = small_objects(4 if quick else 5)        # oracle: lists up to this length
    corr_len = 3 if quick else 4                    # correspondence: lists up to this length
    pool_reset()
    terms, metas = [], []
    for spec in objs:
        for al in (True, False):
            for asg in (True, False):
                x = build_object(spec)
                st, val = core.guarded(AbstractGrader.ensure_text_inputs, x, allow_lists=al, allow_single=asg)
                res.oracle_evals += 1
                ok = (al and isinstance(x, list) and all(isinstance(y, str) for y in x)) or (asg and isinstance(x, str))
                what = None
                if al or asg:
                    if ok and not (st == 'ret' and val == x and type(val) in (str, list, StrSub, ListSub)):
                        what = 'acceptable input was not returned unchanged: %r %r' % (st, val)
                    if not ok and not (st == 'exc' and isinstance(val, ConfigError)):
                        what = 'unacceptable input was not refused with ConfigError: %r %r' % (st, val)
                if what:
                    res.witnesses.append({'key': 'ensure:%r:%r:%r' % (spec, al, asg), 'kind': 'ensure', 'input': spec,
                                          'allow_lists': al, 'allow_single': asg, 'what': what})
                if (st == 'ret' and val != x) or (isinstance(spec, list) and spec[0] == 'list' and len(spec[1]) > corr_len):
                    continue
                terms.append('(%s, %s, %s, %s)' % (boollit(al), boollit(asg), pyval_term(x), fin_term(st, val)))
                metas.append({'input': spec, 'allow_lists': al, 'allow_single': asg})
                res.nontrivial.add(('ensure', repr(spec), al, asg))
    # the wrappers really pass the flags the model says they pass
    for cls, al, asg in ((ItemGrader, False, True), (ListGrader, True, False)):
        for spec in objs[:60]:
            x = build_object(spec)
            a = core.guarded(cls.ensure_text_inputs, x)
            b = core.guarded(AbstractGrader.ensure_text_inputs, build_object(spec), allow_lists=al, allow_single=asg)
            res.oracle_evals += 1
            same = a[0] == b[0] and (a[1] == b[1] if a[0] == 'ret' else (type(a[1]) is type(b[1]) and str(a[1]) == str(b[1])))
            if not same:
                res.disagreements.append({'kind': 'ensure-wrapper', 'class': cls.__name__, 'input': spec})
    res.distribution['ensure_text_inputs_cases'] = len(terms)
    res.samples.append({'ensure_text_inputs': metas[len(metas) // 2]})
    coq_eval(res, 'c02_ensure', 'ensure_case', terms, metas, 'bool * bool * pyval * fin', 'ensure', 4 if quick else 12)


def balanced_py(s):
    """independent statement: the Dyck language over three bracket pairs, by repeated deletion of adjacent pairs"""
    t = ''.join(c for c in s if c in '()[]{}')
    prev = None
    while prev != t:
        prev = t
        t = t.replace('()', '').replace('[]', '').replace('{}', '')
    return t == ''


def run_brackets(ctx, res, rng):
    from mitxgraders.helpers.calc.expressions import BracketValidator, MathParser
    from mitxgraders.helpers.calc.exceptions import UnbalancedBrackets, UnableToParse
    import itertools
    quick = ctx['tier'] == 'quick'
    L = 5 if quick else 6                       # oracle: exhaustive up to this length
    CL = (4 if ctx['escalate'] else 3) if quick else 5     # correspondence: exhaustive up to this length
    strings = []
    for n in range(L + 1):
        strings += [(''.join(p), n <= CL) for p in itertools.product('()[]{}a', repeat=n)]
    n_rand = 400 if quick else 3000
    for _ in range(n_rand):
        k = rng.randint(5, 40)
        if rng.random() < 0.5:
            strings.append((''.join(rng.choice('()[]{}a1+ ,' + u'\uff08\u3010') for _ in range(k)), True))
        else:
            strings.append((mutate(rng, gen_formula(rng, 3)), True))
    pool_reset()
    terms, metas = [], []
    n_unbalanced = 0
    for s, corr in strings:
        st, val = core.guarded(BracketValidator.validate, s)
        res.oracle_evals += 1
        bal = balanced_py(s)
        what = None
        if bal and not (st == 'ret' and val == s):
            what = 'balanced text rejected: %r %r' % (st, val)
        if not bal and not (st == 'exc' and type(val) is UnbalancedBrackets):
            what = 'unbalanced text not rejected with UnbalancedBrackets: %r %r' % (st, val)
        if what:
            res.witnesses.append({'key': 'brackets:%r' % s, 'kind': 'brackets', 'text': s, 'what': what})
        if not bal:
            n_unbalanced += 1
        if (st == 'exc' and type(val) is not UnbalancedBrackets) or not (corr or what):
            continue
        terms.append('(%s, %s)' % (ctext(s), 'None' if st == 'ret' else '(Some %s)' % ctext(str(val))))
        metas.append({'text': s})
        if not bal:
            res.nontrivial.add(('brackets', s))
    res.distribution['bracket_strings_oracle'] = len(strings)
    res.distribution['bracket_strings_unbalanced'] = n_unbalanced
    res.distribution['bracket_strings_oracle_exhaustive_up_to_length'] = L
    res.distribution['bracket_strings_correspondence'] = len(terms)
    res.distribution['bracket_strings_correspondence_exhaustive_up_to_length'] = CL
    coq_eval(res, 'c02_bv', 'bv_case', terms, metas, 'cstr * option cstr', 'brackets', 6 if quick else 16)
    # MathParser.parse with the engine's outcome as oracle
    P = MathParser()
    texts = [s for s in CORPUS] + [gen_text(rng) for _ in range(200 if quick else 2000)]
    texts += ['(' * 2500 + '1' + ')' * 2500, '1 + ( 2', ' ( 1 ) + ', '1 +', ' 1 + 2 ', '( [ ) ]']
    for d in (50, 120, 400):
        texts += [t for _, t in unbalanced_kinds(d)]
    pool_reset()
    terms, metas = [], []
    kinds = {}
    for s in texts:
        stripped = s.replace(' ', '')
        P.cache.clear()
        st, val = core.guarded(P.parse, s)
        P.reset_storage()
        gst, gval = core.guarded(P.grammar.parseString, stripped)
        P.reset_storage()
        res.oracle_evals += 1
        what = None
        bal = balanced_py(stripped)
        if st == 'exc' and not bal and type(val) is not UnbalancedBrackets:
            what = 'unbalanced text: parse raised %s, not UnbalancedBrackets' % type(val).__name__
        if bal and gst == 'exc' and type(gval).__name__ == 'ParseException' and not (
                st == 'exc' and type(val) is UnableToParse and str(val) == "Invalid Input: Could not parse '%s' as a formula" % s):
            what = 'text the grammar rejects: parse gave %r %s' % (st, str(val)[:120])
        if what:
            res.witnesses.append({'key': 'parse:%r' % s[:200], 'kind': 'parse', 'text': s, 'what': what})
        if len(s) > 400 or st == 'timeout' or gst == 'timeout':
            continue
        g = 'None' if gst == 'ret' else '(Some %s)' % exc_pair(gval)
        terms.append('(%s, %s, %s)' % (ctext(s), g, fin_term(st, val)))
        metas.append({'text': s})
        k = 'ok' if st == 'ret' else type(val).__name__
        kinds[k] = kinds.get(k, 0) + 1
        if st == 'exc':
            res.nontrivial.add(('parse', s))
    res.distribution['parse_outcomes'] = kinds
    coq_eval(res, 'c02_parse', 'parse_case', terms, metas, 'cstr * option (list string * cstr) * fin', 'parse', 4 if quick else 12)


# ------------------------------------------------------------------------------------------------
# scripted-failure trees
# ------------------------------------------------------------------------------------------------
def scripted_functions():
    """name -> (python function, arity, validated, Coq oracle term)"""
    from mitxgraders.exceptions import InvalidInput, ConfigError, MissingInput

    def const(v):
        return lambda *a: v

    def raiser(exc_factory):
        def f(*a):
            raise exc_factory()
        return f

    def fix_arity(f, k):
        return (lambda x: f(x)) if k == 1 else (lambda x, y: f(x, y))
    table = [('ga', const(0.0), 1, 'Ret (VQ 0)'), ('gb', const(1.0), 1, 'Ret (VQ 1)'), ('gc', const(2.0), 2, 'Ret (VQ 2)'),
             ('gd', raiser(lambda: ValueError('v')), 1, None), ('ge', raiser(ZeroDivisionError), 1, None),
             ('gf', raiser(lambda: OverflowError('o')), 1, None), ('gg', raiser(lambda: InvalidInput('custom\nmsg')), 1, None),
             ('gh', raiser(lambda: ConfigError('cfg')), 2, None), ('gi', const(float('inf')), 1, 'Ret VInf'),
             ('gj', const(float('nan')), 1, 'Ret VNan'), ('gk', raiser(lambda: KeyError('k')), 1, None),
             ('gl', raiser(lambda: RecursionError('r')), 1, None), ('gm', raiser(lambda: MissingInput('m')), 1, None),
             ('gn', raiser(lambda: FloatingPointError('f')), 2, None)]
    out = {}
    for name, f, k, term in table:
        pf = fix_arity(f, k)
        if term is None:
            try:
                f()
            except Exception as e:
                term = 'Raise (mkExc %s %s)' % (cnames(mro_names(e)), ctext(str(e)))
        validated = name in ('gk',)
        if validated:
            pf.validated = True
        out[name] = (pf, k, validated, term)
    return out


def gen_tree(rng, depth, funcs):
    """returns (text, coq term)"""
    r = rng.random()
    if depth <= 0 or r < 0.2:
        n = rng.choice([0, 1, 2])
        return str(n), '(Leaf (VQ %d))' % n
    if r < 0.55:
        name = rng.choice(sorted(funcs))
        pf, k, validated, term = funcs[name]
        nargs = k if validated or rng.random() < 0.85 else rng.choice([1, 2, 3])
        args = [gen_tree(rng, depth - 1, funcs) for _ in range(nargs)]
        return ('%s(%s)' % (name, ','.join(a[0] for a in args)),
                '(Fn %s %s %d%%nat (fun _ => %s) %s)' % (ctext(name), boollit(validated), k, term, listlit([a[1] for a in args])))
    if r < 0.90:
        op = rng.choice(['+', '/', '/'])
        a, b = gen_tree(rng, depth - 1, funcs), gen_tree(rng, depth - 1, funcs)
        # operands of a product/sum are parenthesised so that the tree is exactly the one written
        return '(%s)%s(%s)' % (a[0], op, b[0]), '(Op %s [Op op_id [%s]; Op op_id [%s]])' % ('op_add' if op == '+' else 'op_div', a[1], b[1])
    a = gen_tree(rng, depth - 1, funcs)
    return '(%s)' % a[0], '(Op op_id [%s])' % a[1]


def run_trees(ctx, res, rng):
    from mitxgraders import FormulaGrader
    pool_reset()
    funcs = scripted_functions()
    g = FormulaGrader(answers='0', user_functions={k: v[0] for k, v in funcs.items()}, samples=1)
    n_cases = 500 if ctx['tier'] == 'quick' else 3000
    terms, metas = [], []
    seen = set()
    for i in range(n_cases):
        text, term = gen_tree(rng, rng.randint(1, 4), funcs)
        if text in seen or len(text) > 300:
            continue
        seen.add(text)
        rec = observe(g, text, seed=i, tag=('FormulaGrader(scripted functions)', text, None))
        res.oracle_evals += 1
        what = judge(ITEM, False, None, text, rec)
        if what:
            res.witnesses.append({'key': 'tree:' + text, 'kind': 'tree', 'text': text, 'what': what})
        if rec['status'] == 'timeout':
            continue
        terms.append('(%s, %s, %s)' % (ctext(text), term, fin_term(rec['status'], rec['val'])))
        metas.append({'text': text, 'outcome': 'ret' if rec['status'] == 'ret' else type(rec['val']).__name__})
        if rec['status'] == 'exc':
            res.nontrivial.add(('tree', text))
    res.distribution['scripted_trees'] = len(terms)
    hist = {}
    for m in metas:
        hist[m['outcome']] = hist.get(m['outcome'], 0) + 1
    res.distribution['scripted_tree_outcomes'] = hist
    res.samples.append({'scripted_tree': metas[len(metas) // 2] if metas else None})
    coq_eval(res, 'c02_tree', 'tree_case', terms, metas, 'cstr * node v * fin', 'tree', 4 if ctx['tier'] == 'quick' else 12)


# ------------------------------------------------------------------------------------------------
# numpy error state
# ------------------------------------------------------------------------------------------------
def numpy_state_problem():
    """independent statement: numpy floating point errors are Python exceptions, process-wide"""
    import numpy as np
    from mitxgraders.helpers.calc import expressions as ex
    err = np.geterr()
    if err.get('divide') != 'call' or err.get('over') != 'call' or err.get('invalid') != 'call':
        return 'numpy error state is %r' % (err,)
    if np.geterrcall() is not ex.handle_np_floating_errors:
        return 'numpy error callback is %r' % (np.geterrcall(),)
    probes = [(lambda: np.float64(1.0) / np.float64(0.0), ZeroDivisionError), (lambda: np.log(np.float64(0.0)), ZeroDivisionError),
              (lambda: np.exp(np.float64(1000.0)), OverflowError), (lambda: np.float64(1e308) * np.float64(10.0), OverflowError),
              (lambda: np.array([1.0, 2.0]) / np.array([0.0, 1.0]), ZeroDivisionError),
              (lambda: np.log(np.float64(-1.0)), ValueError), (lambda: np.float64(0.0) / np.float64(0.0), ValueError)]
    for fn, want in probes:
        st, val = core.guarded(fn)
        if st != 'exc' or type(val) is not want:
            return 'a numpy floating point error did not surface as %s: %r %r' % (want.__name__, st, val)
    return None


def numpy_state_quick():
    import numpy as np
    from mitxgraders.helpers.calc import expressions as ex
    err = np.geterr()
    if err.get('divide') != 'call' or err.get('over') != 'call' or err.get('invalid') != 'call' or err.get('under') != 'ignore':
        return 'numpy error handling is %r' % (err,)
    if np.geterrcall() is not ex.handle_np_floating_errors:
        return 'numpy error callback is %r' % (np.geterrcall(),)
    return None


def numpy_state_restore():
    import numpy as np
    from mitxgraders.helpers.calc import expressions as ex
    np.seterr(divide='call', over='call', invalid='call', under='ignore')
    np.seterrcall(ex.handle_np_floating_errors)


def numeric_probe_rows():
    """rows of the anticipated-problem table whose class/message depends on the process-wide numpy error handling"""
    return [i for i, r in enumerate(ANTICIPATED)
            if r[2] in ('CalcZeroDivisionError', 'CalcOverflowError', 'FunctionEvalError') and isinstance(r[1], str)]


def state_after_call(name, spec, attempt, schedule=None):
    """runs after every observed implementation call: the process-wide numpy error handling must be what the library installed.
    If a call left it changed, unrelated graders are probed at once (so that the witness names the call), then it is restored."""
    bad = numpy_state_quick()
    if not bad:
        return
    failed = None
    IN_STATE_CHECK[0] = True
    try:
        for i in numeric_probe_rows():
            what = check_anticipated(ANTICIPATED[i])
            if what:
                failed = (i, what)
                break
    finally:
        IN_STATE_CHECK[0] = False
        numpy_state_restore()
    text = 'this call left the process-wide state changed: %s' % bad
    if failed:
        row = ANTICIPATED[failed[0]]
        text += '; afterwards, on an unrelated grader (%s on %r): %s' % (row[0], row[1], failed[1])
    PENDING.append({'key': 'history:%s:%r:%r:%r' % (name, spec if len(repr(spec)) < 300 else hash(repr(spec)), attempt, schedule),
                    'kind': 'history', 'grader': name, 'input': spec, 'attempt': attempt, 'schedule': schedule,
                    'probe_row': failed[0] if failed else None, 'what': text})


def run_numpy(ctx, res, rng):
    from mitxgraders.helpers.calc import expressions as ex
    what = numpy_state_problem()
    res.oracle_evals += 1
    if what:
        res.witnesses.append({'key': 'numpy-state', 'kind': 'numpy', 'what': what})
    msgs = ['divide by zero encountered in divide', 'divide by zero encountered in log', 'divide by zero encountered in scalar divide',
            'overflow encountered in exp', 'overflow encountered in multiply', 'overflow encountered in scalar power',
            'invalid value encountered in log', 'invalid value encountered in sqrt', 'invalid value encountered in scalar divide',
            'underflow encountered in exp', '', 'value', 'overflow', 'divide by zero', 'over flow', 'VALUE', 'divide  by zero',
            'overflow and divide by zero', 'invalid value and overflow', 'something else entirely']
    for _ in range(60):
        msgs.append(mutate(rng, rng.choice(msgs[:10])))
    pool_reset()
    terms, metas = [], []
    for m in msgs:
        st, val = core.guarded(ex.handle_np_floating_errors, m, 0)
        res.oracle_evals += 1
        if st != 'exc':
            res.witnesses.append({'key': 'numpy-handler:' + m, 'kind': 'numpy', 'what': 'handler returned for %r' % m})
            continue
        terms.append('(%s, %s, %s)' % (ctext(m), cnames(mro_names(val)), ctext(str(val))))
        metas.append({'message': m})
    coq_eval(res, 'c02_np', 'np_case', terms, metas, 'cstr * list string * cstr', 'numpy-handler', 1)


# ------------------------------------------------------------------------------------------------
# attempt-based credit is applied AFTER the guarded region: every schedule x every attempt number x every grader class
# ------------------------------------------------------------------------------------------------
def schedules():
    from mitxgraders import LinearCredit, GeometricCredit, ReciprocalCredit
    return [('linear', LinearCredit), ('geometric', GeometricCredit), ('reciprocal', ReciprocalCredit),
            ('linear/2-3-0.5', lambda: LinearCredit(decrease_credit_after=2, decrease_credit_steps=3, minimum_credit=0.5)),
            ('linear/1-1-0', lambda: LinearCredit(decrease_credit_after=1, decrease_credit_steps=1, minimum_credit=0)),
            ('geometric/0', lambda: GeometricCredit(factor=0)), ('geometric/1', lambda: GeometricCredit(factor=1)),
            ('geometric/0.5', lambda: GeometricCredit(factor=0.5)),
            ('author/one', lambda: (lambda n: 1)), ('author/half', lambda: (lambda n: 0.5)), ('author/zero', lambda: (lambda n: 0)),
            ('author/step', lambda: (lambda n: 1 if n < 3 else 0.25))]


ATTEMPTS = [None, 0, -1, 1, 2, 3, 10 ** 6, 10 ** 18, -10 ** 18]       # integers or absent: anything else is author-side


def with_schedule(name, label, debug=False):
    mode, factory, credit = zoo_entry(name)
    g = factory(debug)
    g.config['attempt_based_credit'] = dict(schedules())[label]()
    g.config['attempt_based_credit_msg'] = True
    return mode, g


def run_attempts(ctx, res, rng):
    quick = ctx['tier'] == 'quick'
    sched = schedules()
    builtin = [l for l, _ in sched[:3]]
    others = [l for l, _ in sched[3:]]
    inputs = {ITEM: ['cat', '1', '1/0', '[1,2]', ''], LIST: None, BOTH: ['a', 'boom']}
    picked = []
    chosen = {}
    outcomes = {}
    n_calls = 0
    for gi, (name, mode, factory, credit) in enumerate(zoo()):
        labels = builtin + ([others[(gi + k) % len(others)] for k in range(1 if quick else 3)] if quick else others)
        for li, label in enumerate(labels):
            st, built = core.guarded(with_schedule, name, label)
            if st != 'ret':
                res.witnesses.append({'key': 'construct:%s:%s' % (name, label), 'kind': 'construct', 'grader': name,
                                      'what': 'grader with schedule %s could not be built: %r' % (label, built)})
                continue
            _, g = built
            for ai, att in enumerate(ATTEMPTS if (not quick or label in builtin) else ATTEMPTS[:4] + ATTEMPTS[-2:-1]):
                if mode == LIST or (mode == BOTH and (ai + li) % 2):
                    k = LIST_SIZES.get(name, 2)
                    spec = ['list', [rng.choice(['a', '1', 'x', 'cat', '1/0', '2']) for _ in range(k)]]
                else:
                    spec = inputs[ITEM][(gi + li + ai) % len(inputs[ITEM])]
                inp = build_object(spec)
                rec = observe(g, inp, attempt=att, seed=ctx['seed'] + n_calls, tag=(name, spec, label))
                n_calls += 1
                res.oracle_evals += 1
                what = judge(mode, True, att, inp, rec)
                if what:
                    res.witnesses.append({'key': 'attempt:%s:%s:%r:%r' % (name, label, att, spec), 'kind': 'attempt', 'grader': name,
                                          'schedule': label, 'attempt': att, 'input': spec, 'what': what})
                k = type(rec['val']).__name__ if rec['status'] == 'exc' else rec['status']
                outcomes[k] = outcomes.get(k, 0) + 1
                res.nontrivial.add(('attempt', name, label, att))
                sig = (mode, rec['raw_status'], k, att is None, (att or 1) < 1)
                if chosen.get(sig, 0) < (2 if quick else 8) and rec['status'] != 'timeout' and len(repr(spec)) < 300:
                    chosen[sig] = chosen.get(sig, 0) + 1
                    picked.append((mode, False, True, att, inp, spec, rec, name))
    res.distribution['attempt_stream_calls'] = n_calls
    res.distribution['attempt_stream_outcomes'] = outcomes
    res.distribution['attempt_numbers'] = [repr(a) for a in ATTEMPTS]
    res.distribution['schedules'] = [l for l, _ in sched]
    pool_reset()
    terms, metas = [], []
    for args in picked:
        add_call_case(terms, metas, *args)
    coq_eval(res, 'c02_attempt', 'call_case', terms, metas, 'nat * bool * bool * option Z * pyval * raw * fin', 'attempt', 2)


# ------------------------------------------------------------------------------------------------
# perturb-then-probe: a fixed set of probe calls is evaluated before anything else and again after all the other streams
# (the perturbers: every grader class and comparer, rare options, blank / zero / failing inputs, attempts, nestings);
# the class and message of a failure must not depend on what the process graded before
# ------------------------------------------------------------------------------------------------
PROBE_GRADERS = ['Formula', 'Formula/user', 'Numerical', 'Matrix', 'Matrix/vars', 'Interval', 'Sum', 'SingleList/formula', 'List/mixed',
                 'Cmp/linear', 'Cmp/congruence', 'String/pattern']
PROBE_TEXTS = ['1/0', 'ln(0)', 'cot(0)', 'csc(0)', 'exp(1000)', 'arccosh(0)', 'arcsin(2)', 'fact(-1)', 'fact(0.5)', '10^400', '1e400', 'tan(pi/2)',
               'sec(pi/2)', 'arctan2(0,0)', '0^-1', '1||-1', 'sqrt(-1)', '(1', '1+', 'q', '[1,2]+[1,2,3]', '[[1,1],[1,1]]^-1', 'sin([1,2])',
               '[ln(0),1]', 'ln(0),1', 'sinh(1000)', 'cosh(-1000)', '1/sin(0)', 'log10(0)', 'arctanh(1)', 'arccoth(1)', 'x', '0', '']


def probe_outcomes(ctx):
    out = {}
    for name in PROBE_GRADERS:
        mode, factory, credit = zoo_entry(name)
        g = factory(False)
        for i, t in enumerate(PROBE_TEXTS):
            spec = t if mode != LIST else ['list', [t] * LIST_SIZES.get(name, 2)]
            rec = observe(g, build_object(spec), seed=4242 + i, tag=(name, spec, None))
            if rec['status'] == 'exc':
                out[(name, t)] = ('exc', type(rec['val']).__name__, str(rec['val']))
            else:
                out[(name, t)] = (rec['status'], None, None)
    return out


def compare_probes(res, before, after, stage):
    for key in sorted(before):
        res.oracle_evals += 1
        if before[key] != after[key]:
            name, t = key
            res.witnesses.append({'key': 'probe:%s:%r' % key, 'kind': 'probe', 'grader': name, 'input': t, 'stage': stage,
                                  'what': 'the outcome depends on what the process graded before: first %r, after %s %r'
                                          % (before[key], stage, after[key])})


# ------------------------------------------------------------------------------------------------
# integer power towers: exact Python ints in the student's scope must not reach arbitrary-precision arithmetic
# (the call has to come back).  Runs in a child process with a hard deadline: a hang in big-int arithmetic need not
# answer SIGALRM, and must never hang the check itself.
# ------------------------------------------------------------------------------------------------
INT_NAMES = {'IntFormula/const': ['N', 'M', 'K'], 'IntFormula/range': ['n', 'm'], 'IntFormula/discrete': ['k', 'q'],
             'IntNumerical/const': ['N', 'M'], 'IntMatrix/const': ['N', 'M'], 'IntMatrix/range': ['n'],
             'IntInterval': ['N', 'M'], 'IntSum': ['N', 'n'], 'IntSingleList': ['N', 'M'], 'IntList': ['N', 'M'],
             'IntList/nested': ['n', 'm']}
INT_EMBED = {'IntInterval': lambda s: '[' + s + ',M)', 'IntSingleList': lambda s: s + ',M', 'IntList': lambda s: ['list', [s, 'M']],
             'IntList/nested': lambda s: ['list', ['m', s, 'n,m']]}


def int_zoo(name):
    """graders whose scope contains integer-valued Python ints (constants, IntegerRange / DiscreteSet samples)"""
    from mitxgraders import (FormulaGrader, NumericalGrader, MatrixGrader, IntervalGrader, SumGrader, SingleListGrader, ListGrader,
                             IntegerRange, DiscreteSet)
    consts = {'N': 9, 'M': 12, 'K': 7}
    rng2 = {'n': IntegerRange([5, 9]), 'm': IntegerRange([8, 12])}
    if name == 'IntFormula/const':
        return FormulaGrader(answers='N', user_constants=consts)
    if name == 'IntFormula/range':
        return FormulaGrader(answers='n', variables=['n', 'm'], sample_from=rng2)
    if name == 'IntFormula/discrete':
        return FormulaGrader(answers='k', variables=['k', 'q'], sample_from={'k': DiscreteSet((7, 9, 12)), 'q': DiscreteSet((9,))})
    if name == 'IntNumerical/const':
        return NumericalGrader(answers='9', user_constants={'N': 9, 'M': 12})
    if name == 'IntMatrix/const':
        return MatrixGrader(answers='[N,M]', user_constants={'N': 9, 'M': 12}, max_array_dim=2)
    if name == 'IntMatrix/range':
        return MatrixGrader(answers='[n,1]', variables=['n'], sample_from={'n': IntegerRange([7, 9])}, max_array_dim=2)
    if name == 'IntInterval':
        return IntervalGrader(answers='[N,M)', subgrader=FormulaGrader(user_constants={'N': 9, 'M': 12}))
    if name == 'IntSum':
        return SumGrader(answers={'lower': '1', 'upper': 'N', 'summand': 'n', 'summation_variable': 'n'}, input_positions={'summand': 1},
                         user_constants={'N': 9})
    if name == 'IntSingleList':
        return SingleListGrader(answers=['N', 'M'], subgrader=NumericalGrader(user_constants={'N': 9, 'M': 12}))
    if name == 'IntList':
        return ListGrader(answers=['N', 'M'], subgraders=FormulaGrader(user_constants={'N': 9, 'M': 12}), ordered=True)
    if name == 'IntList/nested':
        return ListGrader(answers=['m', 'n', 'n,m'], ordered=True,
                          subgraders=[FormulaGrader(variables=['n', 'm'], sample_from=rng2),
                                      FormulaGrader(variables=['n', 'm'], sample_from=rng2),
                                      SingleListGrader(subgrader=FormulaGrader(variables=['n', 'm'], sample_from=rng2))])
    raise KeyError(name)


def named_grader(name):
    """(mode, grader) for the graders that are exercised in child processes"""
    if name.startswith('Int'):
        return (LIST if name.startswith('IntList') else BOTH if name == 'IntSum' else ITEM), int_zoo(name)
    if name.startswith('Sib/'):
        return sibling_zoo()[name]()
    if name.startswith('Scope/'):
        return scope_zoo()[name]()
    raise KeyError(name)


def int_towers(rng, names, extra):
    """power towers of height 3-5, nested powers and factor-free combinations built ONLY from integer-valued names"""
    a = names[0]
    b = names[1 % len(names)]
    fixed = ['%s^%s^%s' % (a, a, a), '%s^%s^%s^%s' % (a, a, a, a), '%s^%s^%s^%s^%s' % (a, a, a, a, a), '(%s^%s)^(%s^%s)' % (a, a, a, a),
             '%s^(%s^%s)' % (a, b, a), '%s^%s^%s' % (b, a, b), '%s^%s^(%s^%s)' % (a, a, a, a), '(%s^%s^%s)^%s' % (a, a, a, a),
             '%s^(%s*%s)^%s' % (a, a, a, a), '%s^(%s+%s)^(%s+%s)' % (a, a, b, b, a), '(%s*%s)^(%s^%s)' % (a, b, a, b),
             '-%s^%s^%s^%s' % (a, a, a, a), '%s^%s^%s^%s+%s' % (a, b, a, b, a), '%s/%s^%s^%s^%s' % (a, a, b, a, b),
             '%s^-%s^%s^%s' % (a, a, a, a), '(%s^%s^%s)*(%s^%s^%s)' % (a, a, a, b, b, b)]

    def atom():
        r = rng.random()
        if r < 0.7:
            return rng.choice(names)
        return '(%s%s%s)' % (rng.choice(names), rng.choice('*+'), rng.choice(names))

    def tower(h):
        return '^'.join(atom() for _ in range(h))
    out = list(fixed)
    for _ in range(extra):
        h = rng.randint(3, 5)
        t = tower(h)
        if rng.random() < 0.3:
            t = '(%s)^(%s)' % (tower(2), tower(rng.randint(2, 3)))
        out.append(t)
    return out


def int_tower_child():
    """child process: reads {grader, input} JSON lines, answers one JSON line each"""
    import json
    try:
        import resource
        cap = 4 * 1024 ** 3
        resource.setrlimit(resource.RLIMIT_AS, (cap, cap))
    except Exception:
        pass
    graders = {}
    sys.stdout.write('READY\n')
    sys.stdout.flush()
    for line in sys.stdin:
        job = json.loads(line)
        name = job['grader']
        try:
            if name not in graders:
                graders[name] = named_grader(name)
            mode, g = graders[name]
            inp = build_object(job['input'])
            rec = observe_once(g, inp, None, job.get('seed', 0), job.get('alarm', 10))
            what = judge(mode, False, None, inp, rec)
            out = {'status': rec['status'], 'class': type(rec['val']).__name__ if rec['status'] == 'exc' else None,
                   'message': str(rec['val'])[:400] if rec['status'] == 'exc' else None, 'what': what, 'seconds': round(rec['seconds'], 3)}
        except BaseException as e:      # noqa
            out = {'status': 'child-error', 'class': type(e).__name__, 'message': str(e)[:300], 'what': None, 'seconds': 0}
        sys.stdout.write(json.dumps(out) + '\n')
        sys.stdout.flush()


class TowerChild(object):
    def __init__(self):
        import os
        import subprocess
        env = dict(os.environ)
        env['PYTHONPATH'] = os.pathsep.join([core.REPO, core.VERIF])
        self.p = subprocess.Popen([sys.executable, '-B', '-c', 'from harness.props import c02; c02.int_tower_child()'],
                                  stdin=subprocess.PIPE, stdout=subprocess.PIPE, stderr=subprocess.DEVNULL, env=env, cwd=core.VERIF)
        self.buf = b''
        if self.readline(180) != 'READY':
            self.kill()
            raise RuntimeError('integer-tower child process did not start')

    def readline(self, deadline):
        """one line from the child, or None when the hard deadline passes / the child died"""
        import os
        import select
        end = time.time() + deadline
        while b'\n' not in self.buf:
            left = end - time.time()
            if left <= 0:
                return None
            r, _, _ = select.select([self.p.stdout], [], [], left)
            if not r:
                return None
            chunk = os.read(self.p.stdout.fileno(), 65536)
            if not chunk:
                return None
            self.buf += chunk
        line, _, self.buf = self.buf.partition(b'\n')
        return line.decode('utf-8', 'replace').strip()

    def ask(self, job, deadline):
        import json
        try:
            self.p.stdin.write((json.dumps(job) + '\n').encode())
            self.p.stdin.flush()
        except (OSError, ValueError):
            return None
        line = self.readline(deadline)
        return json.loads(line) if line else None

    def kill(self):
        try:
            self.p.kill()
            self.p.wait(10)
        except Exception:
            pass


def tower_call(child, job):
    """returns (child, answer, hung).  A call stopped by the 10 s alarm inside the child (or not answering within 20 s at all) is
    repeated once in a fresh child with a 40 s alarm and a 60 s hard deadline; only then it counts as not terminating."""
    ans = child.ask(job, 20)
    if ans is not None and ans['status'] != 'timeout':
        return child, ans, False
    child.kill()
    child = TowerChild()
    t0 = time.time()
    ans = child.ask(dict(job, alarm=40), 60)
    if ans is not None and ans['status'] != 'timeout':
        return child, ans, False
    waited = time.time() - t0
    child.kill()
    return None, {'status': 'timeout', 'what': 'the call did not come back within %.0f s (nor within 10 s in a first process): '
                                               'it does not terminate in any reasonable time' % waited}, True


def run_int_towers(ctx, res, rng):
    jobs = []
    for name in sorted(INT_NAMES):
        emb = INT_EMBED.get(name, lambda s: s)
        for t in int_towers(rng, INT_NAMES[name], 4 if ctx['tier'] == 'quick' else 40):
            jobs.append({'grader': name, 'input': emb(t), 'seed': ctx['seed']})
    child = TowerChild()
    outcomes = {}
    slow = 0.0
    done = 0
    try:
        for job in jobs:
            if child is None:
                break
            child, ans, hung = tower_call(child, job)
            res.oracle_evals += 1
            done += 1
            if ans['status'] == 'child-error':
                raise RuntimeError('integer-tower child failed: %s %s' % (ans['class'], ans['message']))
            k = ans.get('class') or ans['status']
            outcomes[k] = outcomes.get(k, 0) + 1
            slow = max(slow, ans.get('seconds', 0) or 0)
            if ans.get('what'):
                res.witnesses.append({'key': 'int-tower:%s:%r' % (job['grader'], job['input']), 'kind': 'int-tower', 'grader': job['grader'],
                                      'input': job['input'], 'what': ans['what']})
            if ans['status'] == 'exc':
                res.nontrivial.add(('int-tower', job['grader'], repr(job['input'])))
            if hung:
                res.notes.append('integer-tower stream stopped after the first call that did not terminate (%d of %d run)' % (done, len(jobs)))
    finally:
        if child is not None:
            child.kill()
    res.distribution['integer_tower_calls'] = done
    res.distribution['integer_tower_outcomes'] = outcomes
    res.distribution['integer_tower_slowest_s'] = slow
    res.samples.append({'integer_tower': jobs[1]})


# ------------------------------------------------------------------------------------------------
# sibling variables: ordered ListGraders of FormulaGraders whose answers use sibling_i (the sibling TEXTS become
# DependentSamplers), plus DependentSamplers in the configuration; inputs valid / undefined / self-referential / mutually
# cyclic.  Dependency resolution must come back: a result or a library error.  Runs in the child process (hard deadline).
# ------------------------------------------------------------------------------------------------
def sibling_zoo():
    from mitxgraders import (FormulaGrader, ListGrader, StringGrader, NumericalGrader, DependentSampler, MatrixGrader,
                             between_comparer)

    def fg(**kw):
        kw.setdefault('variables', ['x', 'y'])
        return FormulaGrader(**kw)
    dep = {'y': DependentSampler(depends=['x'], formula='x+1'), 'z': DependentSampler(depends=['y'], formula='y^2')}
    return {
        'Sib/2': lambda: (LIST, ListGrader(answers=['sibling_2^2', 'x'], subgraders=fg(), ordered=True)),
        'Sib/3': lambda: (LIST, ListGrader(answers=['sibling_2*sibling_3', 'x', 'y'], subgraders=fg(), ordered=True)),
        'Sib/3-last': lambda: (LIST, ListGrader(answers=['x', 'y', 'sibling_1+sibling_2'], subgraders=fg(), ordered=True)),
        'Sib/4-chain': lambda: (LIST, ListGrader(answers=['sibling_3+sibling_4', 'sibling_3', 'x', 'y'], subgraders=fg(), ordered=True)),
        'Sib/4-pairs': lambda: (LIST, ListGrader(answers=['sibling_2', 'x', 'sibling_4', 'y'], subgraders=fg(), ordered=True)),
        'Sib/dep': lambda: (LIST, ListGrader(answers=['sibling_2+z', 'y'], ordered=True,
                                             subgraders=fg(variables=['x', 'y', 'z'], sample_from=dep))),
        'Sib/dep-comparer': lambda: (LIST, ListGrader(
            answers=[{'comparer': between_comparer, 'comparer_params': ['sibling_2', 'sibling_3+z']}, 'x', 'z'], ordered=True,
            subgraders=fg(variables=['x', 'y', 'z'], sample_from=dep))),
        'Sib/mixed': lambda: (LIST, ListGrader(answers=['sibling_2+1', 'x', 'cat', '2'], ordered=True,
                                               subgraders=[fg(), fg(), StringGrader(), NumericalGrader()])),
        'Sib/matrix': lambda: (LIST, ListGrader(answers=['sibling_2*[1,2]', 'x'], ordered=True,
                                                subgraders=MatrixGrader(variables=['x', 'y'], max_array_dim=1))),
        'Sib/grouped': lambda: (LIST, ListGrader(answers=[['sibling_2', 'x'], ['sibling_2+y', 'y']], grouping=[1, 1, 2, 2], ordered=True,
                                                 subgraders=ListGrader(subgraders=fg(), ordered=True))),
        'Sib/dep-item': lambda: (ITEM, fg(answers='z', variables=['x', 'y', 'z'], sample_from=dep)),
    }


SIB_BOXES = {'Sib/2': 2, 'Sib/3': 3, 'Sib/3-last': 3, 'Sib/4-chain': 4, 'Sib/4-pairs': 4, 'Sib/dep': 2, 'Sib/dep-comparer': 3, 'Sib/mixed': 4,
             'Sib/matrix': 2, 'Sib/grouped': 4, 'Sib/dep-item': 1}


def sibling_inputs(rng, k, n_random):
    """per box: valid, undefined, self-referential, cyclic, referring forwards / backwards, blank, failing"""
    def choices(i):          # i is 1-based
        nxt = i % k + 1
        prv = (i - 2) % k + 1
        return ['x', 'y', 'x*y', '2', 'q', 'nosuch(x)', 'sibling_%d+1' % i, 'sibling_%d' % nxt, 'sibling_%d*x' % prv, 'sibling_%d' % (k + 1),
                'sibling_1', '', '1/0', 'z', 'sibling_%d+sibling_%d' % (nxt, prv), 'cat']
    out = []
    base = ['x', 'y', 'x*y', '2']
    valid = [base[j % 4] for j in range(k)]
    out.append(list(valid))
    for i in range(1, k + 1):                      # one box at a time goes bad, the others stay valid
        for c in choices(i):
            v = list(valid)
            v[i - 1] = c
            out.append(v)
    if k >= 2:                                     # cycles and chains
        out.append(['sibling_%d' % (i % k + 1) for i in range(1, k + 1)])
        out.append(['sibling_%d+1' % i for i in range(1, k + 1)])
        out.append(['x'] + ['sibling_%d' % i for i in range(1, k)])
        out.append(['sibling_%d' % i for i in range(2, k + 1)] + ['q'])
        out.append(['sibling_%d' % i for i in range(2, k + 1)] + ['x'])
    for _ in range(n_random):
        out.append([rng.choice(choices(i)) for i in range(1, k + 1)])
    return out


def run_siblings(ctx, res, rng):
    quick = ctx['tier'] == 'quick'
    jobs = []
    for name in sorted(SIB_BOXES):
        k = SIB_BOXES[name]
        for v in sibling_inputs(rng, k, 8 if quick else 150):
            jobs.append({'grader': name, 'input': v[0] if k == 1 else ['list', v], 'seed': ctx['seed']})
    child = TowerChild()
    outcomes = {}
    slow = 0.0
    done = 0
    try:
        for job in jobs:
            if child is None:
                break
            child, ans, hung = tower_call(child, job)
            res.oracle_evals += 1
            done += 1
            if ans['status'] == 'child-error':
                raise RuntimeError('sibling child failed on %s: %s %s' % (job['grader'], ans['class'], ans['message']))
            k = ans.get('class') or ans['status']
            outcomes[k] = outcomes.get(k, 0) + 1
            slow = max(slow, ans.get('seconds', 0) or 0)
            if ans.get('what'):
                res.witnesses.append({'key': 'sibling:%s:%r' % (job['grader'], job['input']), 'kind': 'child-call', 'grader': job['grader'],
                                      'input': job['input'], 'what': ans['what']})
            if ans['status'] == 'exc':
                res.nontrivial.add(('sibling', job['grader'], repr(job['input'])))
            if hung:
                res.notes.append('sibling stream stopped after the first call that did not terminate (%d of %d run)' % (done, len(jobs)))
    finally:
        if child is not None:
            child.kill()
    res.distribution['sibling_calls'] = done
    res.distribution['sibling_outcomes'] = outcomes
    res.distribution['sibling_slowest_s'] = slow


# ------------------------------------------------------------------------------------------------
# scopes: the same texts go to math graders with DIFFERENT scopes (a function / constant / variable / suffix present in one and
# absent in another, whitelist / blacklist differing).  Reference: every configuration grades the texts alone in a fresh
# interpreter.  Then, in this process, the configurations are interleaved in several orders: the class and message of every
# outcome must be the fresh one (no state may leak through the shared parser or anything else).
# ------------------------------------------------------------------------------------------------
def scope_zoo():
    import numpy as np
    from mitxgraders import FormulaGrader, NumericalGrader, MatrixGrader, SingleListGrader, ListGrader, RandomFunction
    sq = lambda x: x * x

    def plain():
        return FormulaGrader(answers='x+1', variables=['x'])

    def with_f():
        return FormulaGrader(answers='f(x)+1', variables=['x'], user_functions={'f': sq, 'g': np.tanh})
    return {
        'Scope/plain': lambda: (ITEM, plain()),
        'Scope/f-g': lambda: (ITEM, with_f()),
        'Scope/const': lambda: (ITEM, FormulaGrader(answers='c*x', variables=['x', 'y'], user_constants={'c': 3})),
        'Scope/whitelist': lambda: (ITEM, FormulaGrader(answers='sin(x)+1', variables=['x'], whitelist=['sin', 'cos'])),
        'Scope/blacklist': lambda: (ITEM, FormulaGrader(answers='x+1', variables=['x'], blacklist=['sin', 'tan'])),
        'Scope/numerical-f': lambda: (ITEM, NumericalGrader(answers='2', user_functions={'f': lambda x: x + 1})),
        'Scope/matrix-const': lambda: (ITEM, MatrixGrader(answers='c*x', variables=['x'], user_constants={'c': 2}, max_array_dim=1)),
        'Scope/random-f': lambda: (ITEM, FormulaGrader(answers='f(x)+1', variables=['x', 'z'], user_functions={'f': RandomFunction()})),
        'Scope/suffix': lambda: (ITEM, FormulaGrader(answers='x+1', variables=['x'], metric_suffixes=True)),
        'Scope/numbered': lambda: (ITEM, FormulaGrader(answers='x+1', variables=['x'], numbered_vars=['c'])),
        'Scope/singlelist-g': lambda: (ITEM, SingleListGrader(answers=['x+1', 'x'], subgrader=FormulaGrader(
            variables=['x'], user_functions={'g': np.tanh}), ordered=True)),
        'Scope/list-both': lambda: (LIST, ListGrader(answers=['f(x)+1', 'x+1'], subgraders=[with_f(), plain()], ordered=True)),
        'Scope/list-both-reversed': lambda: (LIST, ListGrader(answers=['x+1', 'f(x)+1'], subgraders=[plain(), with_f()], ordered=True)),
    }


SCOPE_TEXTS = ['f(x)+1', 'f(x) + 1', 'x+1', 'g(x)', 'f(x)+g(x)', 'c*x', 'c', 'y', 'z', 'sin(x)+1', 'tan(x)', 'cos(x)+f(x)', 'f(c)', 'c*f(x)', '2k',
               '2k+x', 'c_{1}', 'f(y)', 'f(2)', 'f(1)+1', 'g(f(x))', 'sin(x)+f(x)+c', 'F(x)+1', 'f(x,x)', 'x+c_{2}', 'sqrt(x)', 'abs(c)', '3%']


def scope_jobs(name, mode):
    if mode == LIST:
        return [['list', [t, t]] for t in SCOPE_TEXTS]
    if 'singlelist' in name:
        return ['%s,%s' % (t, t) for t in SCOPE_TEXTS if ',' not in t] + list(SCOPE_TEXTS[:6])
    return list(SCOPE_TEXTS)


def scope_child():
    """fresh interpreter: ONE configuration grades all its texts; prints {input repr: outcome}"""
    import json
    job = json.loads(sys.stdin.readline())
    mode, g = scope_zoo()[job['grader']]()
    out = []
    for i, spec in enumerate(job['inputs']):
        rec = observe_once(g, build_object(spec), None, 777 + i, 20)
        out.append(scope_outcome(rec))
    sys.stdout.write(json.dumps(out) + '\n')
    sys.stdout.flush()


def scope_reference_seeded(plan):
    return scope_reference(plan)


def scope_outcome(rec):
    if rec['status'] == 'exc':
        return ['exc', type(rec['val']).__name__, str(rec['val'])]
    return [rec['status'], None, None]


def scope_reference(plan=None):
    """{(grader, index): outcome} computed by one fresh interpreter per configuration (in parallel)"""
    import json
    import os
    import subprocess
    env = dict(os.environ)
    env['PYTHONPATH'] = os.pathsep.join([core.REPO, core.VERIF])
    procs = []
    given = plan
    plan = dict(plan or {})
    for name, factory in sorted(scope_zoo().items()):
        if given is not None:
            if name not in plan:
                continue
        else:
            mode, _ = factory()
            plan[name] = (mode, scope_jobs(name, mode))
        p = subprocess.Popen([sys.executable, '-B', '-c', 'from harness.props import c02; c02.scope_child()'],
                             stdin=subprocess.PIPE, stdout=subprocess.PIPE, stderr=subprocess.PIPE, env=env, cwd=core.VERIF)
        p.stdin.write((json.dumps({'grader': name, 'inputs': plan[name][1]}) + '\n').encode())
        p.stdin.flush()
        procs.append((name, p))
    ref = {}
    for name, p in procs:
        try:
            out, err = p.communicate(timeout=300)
        except subprocess.TimeoutExpired:
            p.kill()
            raise RuntimeError('fresh interpreter for %s did not finish' % name)
        lines = [l for l in out.decode('utf-8', 'replace').splitlines() if l.startswith('[')]
        if not lines:
            raise RuntimeError('fresh interpreter for %s failed: %s' % (name, err.decode('utf-8', 'replace')[-400:]))
        for i, o in enumerate(json.loads(lines[-1])):
            ref[(name, i)] = o
    return plan, ref


def run_scopes(ctx, res, rng):
    plan, ref = scope_reference()
    names = sorted(plan)
    graders = dict((n, scope_zoo()[n]()) for n in names)
    orders = [names, names[::-1]]
    for _ in range(1 if ctx['tier'] == 'quick' else 4):
        o = list(names)
        rng.shuffle(o)
        orders.append(o)
    n_diff = 0
    last_seen = {}        # text (spaces removed) -> the call that last graded it
    outcomes = {}
    for oi, order in enumerate(orders):
        for name in order:
            mode, g = graders[name]
            for i, spec in enumerate(plan[name][1]):
                inp = build_object(spec)
                rec = observe(g, inp, seed=777 + i, tag=(name, spec, None))
                res.oracle_evals += 1
                got = scope_outcome(rec)
                k = got[1] or got[0]
                outcomes[k] = outcomes.get(k, 0) + 1
                what = judge(mode, False, None, inp, rec)
                if what:
                    res.witnesses.append({'key': 'scope-call:%s:%r' % (name, spec), 'kind': 'scope', 'grader': name, 'input': spec, 'index': i,
                                          'order': order, 'what': what})
                texts = [inp] if isinstance(inp, str) else list(inp)
                key = tuple(t.replace(' ', '') for t in texts)
                if got != ref[(name, i)]:
                    n_diff += 1
                    res.witnesses.append({'key': 'scope:%s:%r' % (name, spec), 'kind': 'scope', 'grader': name, 'input': spec, 'index': i,
                                          'order': order[:order.index(name) + 1],
                                          'what': 'the outcome depends on what the process graded before: in a fresh interpreter %r, here %r '
                                                  '(the same text was last graded by %s)' % (ref[(name, i)], got, last_seen.get(key, 'nobody'))})
                last_seen[key] = name
                if got[0] == 'exc':
                    res.nontrivial.add(('scope', name, repr(spec)))
    # hostile perturbers (deeply nested BALANCED text full of unknown names / functions / suffixes: the parser gives up half way)
    # each followed by a text this process has never parsed; reference: the same fresh texts in fresh interpreters
    fresh = rng.randrange(10 ** 6, 10 ** 9)
    bases = {'Scope/plain': ['x+1', '2*x'], 'Scope/f-g': ['f(x)+1', 'g(x)*x'], 'Scope/const': ['c*x', 'c*y*2'], 'Scope/suffix': ['x+2k', 'x+1'],
             'Scope/matrix-const': ['c*x', 'x*c*2'], 'Scope/numerical-f': ['f(1)', '2'], 'Scope/whitelist': ['sin(x)+1', 'cos(x)']}
    probes = {}
    hist = {}
    step = 0
    for d in (60, 120, 400):
        for core_text in ('zeta+nosuch(eta)+2zz', 'theta*unk(1)', '3qq+omega_{1}'):
            for shape in ('(%s', 'sin(%s', '[%s'):
                opener = shape % ''
                closer = ']' if opener == '[' else ')'
                hostile = core_text + '+' + opener * d + core_text + closer * d        # unknown names before AND inside the nesting
                for name in sorted(bases)[step % 2::2]:
                    mode, g = graders[name]
                    observe(g, hostile, seed=1, tag=(name, hostile, None))
                    res.oracle_evals += 1
                    text = '%s+0*%d' % (bases[name][step % 2], fresh + step)
                    step += 1
                    rec = observe(g, text, seed=777 + len(probes.get(name, (mode, []))[1]), tag=(name, text, None))
                    res.oracle_evals += 1
                    probes.setdefault(name, (mode, []))[1].append(text)
                    hist[(name, len(probes[name][1]) - 1)] = (scope_outcome(rec), hostile[:40] + '... (%d levels)' % d)
    plan2 = {}
    for name, (mode, texts) in probes.items():
        plan2[name] = (mode, texts)
    _, ref2 = scope_reference_seeded(plan2)
    for key in sorted(hist):
        got, after = hist[key]
        if got != ref2[key]:
            n_diff += 1
            name, i = key
            res.witnesses.append({'key': 'scope-fresh:%s:%d' % key, 'kind': 'scope-fresh', 'grader': name, 'input': probes[name][1][i],
                                  'what': 'a never-parsed text, graded right after the hostile submission %r: in a fresh interpreter %r, here %r'
                                          % (after, ref2[key], got)})
    res.distribution['scope_fresh_text_probes'] = len(hist)
    res.distribution['scope_configurations'] = len(names)
    res.distribution['scope_calls'] = sum(len(plan[n][1]) for n in names) * len(orders)
    res.distribution['scope_outcomes'] = outcomes
    res.distribution['scope_history_differences'] = n_diff


# ------------------------------------------------------------------------------------------------
def run(ctx):
    """LAPACK writes diagnostics for degenerate fits straight to file descriptor 1: keep them out of the check's output"""
    import os
    sys.stdout.flush()
    saved = os.dup(1)
    devnull = os.open(os.devnull, os.O_WRONLY)
    os.dup2(devnull, 1)
    del PENDING[:]
    try:
        res = _run(ctx)
        seen = set()
        for w in PENDING:
            if w['key'] not in seen:
                seen.add(w['key'])
                res.witnesses.insert(0, w)
        res.distribution['calls_leaving_process_state_changed'] = len(seen)
        return res
    finally:
        sys.stdout.flush()
        os.dup2(saved, 1)
        os.close(saved)
        os.close(devnull)


def _run(ctx):
    import glob
    import os
    for f in glob.glob(os.path.join(core.CASES, 'c02_*.v')):       # stale shards of an earlier, larger run
        try:
            os.remove(f)
        except OSError:
            pass
    res = core.Result()
    rng = random.Random(1000003 * ctx['seed'] + 2)
    res.rule = ('calls: one case per (grader configuration, input object); non-trivial = the call raised from check or was refused '
                '(distinct by grader and input); ensure_text_inputs: every list of length <= L over 6 item kinds x 4 flag combinations; '
                'brackets: every string over ()[]{}a up to the stated length, non-trivial = unbalanced; scripted trees distinct by text, '
                'non-trivial = the call raised')
    probes_first = probe_outcomes(ctx)
    # anticipated problems first (fixed corpus, found on every run)
    rows = anticipated_rows(ctx['tier'])
    for ri, row in enumerate(rows):
        what = check_anticipated(row)
        res.oracle_evals += 1
        if what:
            spec = row[1]
            res.witnesses.append({'key': 'anticipated:%s:%r' % (row[0], spec if len(repr(spec)) < 200 else hash(repr(spec))),
                                  'kind': 'anticipated', 'row': ri, 'tier': ctx['tier'], 'grader': row[0],
                                  'input': spec if len(repr(spec)) < 300 else repr(spec)[:120] + '... (%d characters)' % len(repr(spec)),
                                  'what': what})
    res.distribution['anticipated_rows_total'] = len(rows)
    res.distribution['anticipated_rows_deep_unbalanced'] = len(deep_unbalanced_rows(ctx['tier']))
    res.distribution['anticipated_rows_callables_and_options'] = len(option_rows(ctx['tier']))
    res.distribution['anticipated_rows'] = len(ANTICIPATED)
    phases = {}
    t0 = time.time()
    sites = run_calls(ctx, res, rng)
    phases['calls'] = round(time.time() - t0, 1)
    t0 = time.time()
    run_sites(ctx, res, sites)
    run_ensure(ctx, res)
    run_expect(ctx, res)
    phases['sites+ensure'] = round(time.time() - t0, 1)
    t0 = time.time()
    run_brackets(ctx, res, rng)
    phases['brackets+parse'] = round(time.time() - t0, 1)
    t0 = time.time()
    run_trees(ctx, res, rng)
    run_numpy(ctx, res, rng)
    phases['trees+numpy'] = round(time.time() - t0, 1)
    t0 = time.time()
    run_int_towers(ctx, res, rng)
    phases['integer-towers'] = round(time.time() - t0, 1)
    t0 = time.time()
    run_siblings(ctx, res, rng)
    run_scopes(ctx, res, rng)
    phases['siblings+scopes'] = round(time.time() - t0, 1)
    t0 = time.time()
    run_braces(ctx, res, rng)
    run_attempts(ctx, res, rng)
    # history: everything above were the perturbers; now the probes and the anticipated-problem table again
    compare_probes(res, probes_first, probe_outcomes(ctx), 'all streams')
    for ri, row in enumerate(ANTICIPATED):
        what = check_anticipated(row)
        res.oracle_evals += 1
        if what and not any(w.get('kind') == 'anticipated' and w.get('row') == ri for w in res.witnesses):
            res.witnesses.append({'key': 'anticipated-after-history:%s:%r' % (row[0], row[1] if len(repr(row[1])) < 200 else hash(repr(row[1]))),
                                  'kind': 'anticipated-after-history', 'row': ri, 'grader': row[0],
                                  'input': row[1] if len(repr(row[1])) < 300 else '(long)',
                                  'what': 'after the other streams ran in this process: ' + what})
    phases['attempts+history'] = round(time.time() - t0, 1)
    res.distribution['probe_calls'] = len(probes_first)
    res.distribution['phase_seconds'] = phases
    what = numpy_state_problem()
    if what:
        res.witnesses.append({'key': 'numpy-state-after', 'kind': 'numpy', 'what': 'after the run: ' + what})
    res.samples.append({'anticipated': [str(x) for x in ANTICIPATED[5]]})
    return res


def replay(w):
    kind = w.get('kind')
    if kind == 'anticipated':
        what = check_anticipated(anticipated_rows(w.get('tier', 'quick'))[w['row']])
        return bool(what), 'anticipated problem %r on %s: %s' % (w.get('input'), w['grader'], what or 'as documented')
    if kind in ('call', 'tree'):
        if kind == 'tree':
            from mitxgraders import FormulaGrader
            funcs = scripted_functions()
            g = FormulaGrader(answers='0', user_functions={k: v[0] for k, v in funcs.items()}, samples=1)
            mode, credit, inp, attempt = ITEM, False, w['text'], None
        else:
            mode, factory, credit = zoo_entry(w['grader'])
            g = factory(False)
            inp = build_object(w['input'])
            attempt = w.get('attempt')
        rec = observe(g, inp, attempt=attempt, seed=1)
        what = judge(mode, credit, attempt, inp, rec)
        return bool(what), '%s on %r: %s' % (w.get('grader', 'FormulaGrader(scripted)'), w.get('input', w.get('text')), what or 'conforms')
    if kind in ('history', 'attempt'):
        name = w['grader']
        debug = name.endswith(' (debug)')
        name = name[:-len(' (debug)')] if debug else name
        if name == 'FormulaGrader(scripted functions)':
            from mitxgraders import FormulaGrader
            funcs = scripted_functions()
            mode, credit = ITEM, False
            g = FormulaGrader(answers='0', user_functions={k: v[0] for k, v in funcs.items()}, samples=1)
        elif w.get('schedule'):
            mode, g = with_schedule(name, w['schedule'], debug)
            credit = True
        else:
            mode, factory, credit = zoo_entry(name)
            g = factory(debug)
        inp = build_object(w['input'])
        del PENDING[:]
        rec = observe(g, inp, attempt=w.get('attempt'), seed=1, tag=(w['grader'], w['input'], w.get('schedule')))
        what = None if debug else judge(mode, credit, w.get('attempt'), inp, rec)
        hist = [x['what'] for x in PENDING]
        del PENDING[:]
        return bool(what) or bool(hist), '%s%s on %r (attempt %r): %s%s' % (
            w['grader'], ' + ' + w['schedule'] if w.get('schedule') else '', w['input'], w.get('attempt'),
            what or 'the call itself conforms', '; ' + hist[0] if hist else '')
    if kind in ('probe', 'anticipated-after-history'):
        ctx = {'tier': 'quick', 'seed': 0, 'escalate': False, 'model_built': False}
        res = run(ctx)
        hit = [x for x in res.witnesses if x.get('kind') == kind and x.get('grader') == w.get('grader') and x.get('input') == w.get('input')]
        return bool(hit), 'history-dependent outcome for %s on %r: %s' % (w.get('grader'), w.get('input'), hit[0]['what'] if hit else 'not reproduced')
    if kind == 'scope-fresh':
        res = core.Result()
        run_scopes({'tier': 'quick', 'seed': 0, 'escalate': False, 'model_built': False}, res, random.Random(5))
        hit = [x for x in res.witnesses if x.get('kind') == 'scope-fresh']
        return bool(hit), 'never-parsed texts after hostile submissions: %s' % (hit[0]['what'] if hit else 'all as in a fresh interpreter')
    if kind == 'scope':
        plan, ref = scope_reference()
        graders = dict((n, scope_zoo()[n]()) for n in plan)
        got = None
        for name in w['order']:
            mode, g = graders[name]
            for i, spec in enumerate(plan[name][1]):
                rec = observe(g, build_object(spec), seed=777 + i, tag=(name, spec, None))
                if name == w['grader'] and i == w['index']:
                    got = scope_outcome(rec)
                    what = judge(mode, False, None, build_object(spec), rec)
        want = ref[(w['grader'], w['index'])]
        return got != want or bool(what), '%s on %r after %r: fresh interpreter %r, here %r%s' % (
            w['grader'], w['input'], w['order'][:-1], want, got, '; ' + what if what else '')
    if kind in ('int-tower', 'child-call'):
        child = TowerChild()
        child, ans, hung = tower_call(child, {'grader': w['grader'], 'input': w['input'], 'seed': 0})
        if child is not None:
            child.kill()
        return bool(ans.get('what')), '%s on %r: %s' % (w['grader'], w['input'], ans.get('what') or 'conforms (%s, %s s)' % (
            ans.get('class') or ans['status'], ans.get('seconds')))
    if kind == 'ensure':
        from mitxgraders.baseclasses import AbstractGrader
        from mitxgraders.exceptions import ConfigError
        x = build_object(w['input'])
        al, asg = w['allow_lists'], w['allow_single']
        st, val = core.guarded(AbstractGrader.ensure_text_inputs, x, allow_lists=al, allow_single=asg)
        ok = (al and isinstance(x, list) and all(isinstance(y, str) for y in x)) or (asg and isinstance(x, str))
        bad = (ok and not (st == 'ret' and val == x)) or (not ok and not (st == 'exc' and isinstance(val, ConfigError)))
        return bad, 'ensure_text_inputs(%r, %r, %r) -> %s %r' % (w['input'], al, asg, st, val)
    if kind == 'brackets':
        from mitxgraders.helpers.calc.expressions import BracketValidator
        from mitxgraders.helpers.calc.exceptions import UnbalancedBrackets
        st, val = core.guarded(BracketValidator.validate, w['text'])
        bal = balanced_py(w['text'])
        bad = (bal and st != 'ret') or (not bal and not (st == 'exc' and type(val) is UnbalancedBrackets))
        return bad, 'BracketValidator.validate(%r) -> %s %r (balanced: %r)' % (w['text'], st, val, bal)
    if kind == 'parse':
        from mitxgraders.helpers.calc.expressions import MathParser
        from mitxgraders.helpers.calc.exceptions import UnbalancedBrackets, UnableToParse
        P = MathParser()
        text = w['text']
        stripped = text.replace(' ', '')
        st, val = core.guarded(P.parse, text)
        gst, gval = core.guarded(MathParser().grammar.parseString, stripped)
        bal = balanced_py(stripped)
        bad = (st == 'exc' and not bal and type(val) is not UnbalancedBrackets) or (
            bal and gst == 'exc' and type(gval).__name__ == 'ParseException' and not (
                st == 'exc' and type(val) is UnableToParse and str(val) == "Invalid Input: Could not parse '%s' as a formula" % text))
        return bad, 'MathParser.parse(%r) -> %s %r (balanced: %r, grammar: %s)' % (text[:200], st, val, bal, gst)
    if kind == 'construct':
        mode, factory, credit = zoo_entry(w['grader'])
        st, g = core.guarded(factory, False)
        return st != 'ret', 'constructing %s: %s %r' % (w['grader'], st, g if st != 'ret' else 'ok')
    if kind == 'numpy':
        what = numpy_state_problem()
        return bool(what), what or 'numpy error state as required'
    return False, 'unknown witness kind %r' % kind


LEVEL_TEXT = ('Theorems for every input object (text, lists of any length and nesting, anything else), every check oracle and every '
              'attempt number: with debug off the model of AbstractGrader.__call__ returns or raises an exception whose MRO contains '
              'MITxError (student-facing or ConfigError); a library error raised by check keeps its class and its message with every '
              'newline replaced by <br/>; any other Exception becomes StudentFacingError("Invalid Input: Could not check input(s) ...") '
              'naming every submitted text; input that is not text of the required shape is refused with ConfigError without consulting '
              'check (the first non-text position is the one reported). Below check: every class of the regenerated exception tree '
              'descends from MITxError; for every expression tree and all function/operator oracles, failures of functions leave '
              'eval_function student-facing, ZeroDivisionError/OverflowError leave MathExpression.eval as Calc errors, numpy error '
              'reports are Python exceptions; BracketValidator accepts exactly the balanced strings (Dyck language, both directions) '
              'and unbalanced text is rejected before the grammar is consulted. Partial: "the call terminates" is totality of the model '
              'plus a 10 s alarm on every implementation call, and which raw exception a numeric leaf raises is observed, not proved.')
LEVEL_NOTE = ('Tables (class headers, except clauses, message templates, flag chains) are regenerated from the source on every run and '
              'bridged by reflexivity; the interpreters are additionally run by Coq on the very inputs the implementation ran (grader calls '
              'with check wrapped, ensure_text_inputs exhaustively on small objects, brackets exhaustively on short strings, parse, except-'
              'clause invocations recovered from __context__, scripted-failure trees). Trusted: Coq kernel, translate/callguard.py, '
              'harness/props/c02.py; no axioms.')
TECHNIQUE = 'Coq proof (induction over lists, nested expression trees and a stack machine) + source-to-table translator + vm_compute correspondence'
DESIGN_REF = 'DESIGN.md section 3, C02'
